"""C05 - responses are protocol-valid and length-consistent on both server interfaces.

spec:   spec/ResponseEmit.tla       case -> emission state machine (RenderFails, SendStart, SendBody, SendEmpty, StreamRead,
                                    StreamSendChunk, CloseStream, Eof, SseNext, SseSend) + the property clauses
        spec/MC_ResponseEmit.tla    bounded case tables (one initial state per case), JSON export of every behaviour
        spec/ResponseEmitTrace.tla  trace judge: the same clause operators evaluated on recorded observations
legs:   M  exhaustive TLC check of the emission design over the whole case table (+ the eight wrong-design
           switches must each break their invariant)
        A  every behaviour TLC exported is replayed on the real falcon.App / falcon.asgi.App under the independent
           PEP 3333 / ASGI monitors of engine.drivers, with scheduled render / stream / send faults; the observation is
           compared with the behaviour (P-clauses alarm, the exact event sequence is a D-clause)
        B  seeded random responses beyond the table (more codes, methods, lengths, blocks, fault points, ways of
           filling the response) are recorded and judged by TLC
"""
META = {
    'property_id': 'C05',
    'design_ref': 'DESIGN.md section 4, C05',
    'technique': 'TLA+ emission state machine model-checked with TLC; TLC-exported behaviours replayed on both real '
                 'App classes under independent protocol monitors; recorded observations judged by TLC',
    'level_text': 'The emission design (spec/ResponseEmit.tla: body precedence, bodiless/typeless handling, forced '
                  'Content-Length, WSGI/ASGI event protocol, close() under faults) is model-checked exhaustively over '
                  'the case table status x form x method x body sources x preset headers x interface x fault point; '
                  'every case of the table is executed on the real WSGI and ASGI apps and compared with the behaviour '
                  'TLC computed; random responses beyond the table are judged by TLC with the same clause operators.',
    'level_note': 'Stream object kinds (the case field `stream` of ResponseEmit): iterator with close(), iterable with close() that is '
                  'not its own iterator (__iter__/__aiter__ a generator function; the close obligation is stated on, and counted at, '
                  'the object the application assigned - a close() of a derived iterator does not count), file-like whose read(n) '
                  'returns short non-empty blocks (end of data only b\'\'), file-like honouring n (data segments up to 20 kB re-cut by the '
                  'specification into blocks of 8192, Blocks/Reblock; the body must be the concatenation of all segments), iterable '
                  'without close(); each on WSGI with and without wsgi.file_wrapper and, with async read/__aiter__/close, on ASGI; '
                  'every kind fault-free and with a fault at every read (exhaustion included) and every send (ASGI: the response start '
                  'too; a client disconnect during a stream is the server\'s send failing) for int-status, plain-header cases; quick '
                  'tier: the two new kinds and the 3-short-block file-like only with int status, no preset headers, no data. '
                  'Bounded: table of 3.8e4 (quick) / 4.6e5 (thorough) cases, <= 3 stream items (bytes, empty, None), SSE scripts '
                  'of <= 4 items (events and None pings in every position); random leg <= 5 items, 18 status codes, 6 '
                  'methods. A client disconnect after k items is explored for every SSE script (plain-header, int-status '
                  'cases). Application histories (decoy values overwritten / unset, early public render_body() calls between '
                  'the assignments) are a harness dimension: the specification speaks about the final attribute values. Status spellings: int, registry line, own-reason line, http.HTTPStatus, bare code string, bytes '
                  'line, bytes code (the last three with plain headers and without data in the table; everywhere in the '
                  'random leg, also set by error handlers and raised HTTPStatus/HTTPError). Extra headers carry str/int/float values through set_header, append_header, set_headers (dict '
                  'and pairs), a typed property, HTTPStatus(headers=) and (random leg) HTTPError(headers=). Stream/send fault points are explored for int-status, '
                  'plain-header cases, the render-phase fault for every int-status case (all body sources and preset '
                  'headers). After a render-phase fault (the first rendering raises, or the renewed one too) the body belongs '
                  'to the error handler: its content is a D-level detail, its framing (length, events, type) stays P. '
                  'Trusted: TLC, the protocol monitors and stream doubles of the harness, json.loads, re. '
                  'Invalid status values and falsy stream objects are outside the domain; which handler takes a render-phase '
                  'exception is C04 (here: the default one, and one handler of the application in the random leg). '
                  'The SSE wire format is only tokenised, not judged.',
}

import asyncio
import inspect
import http
import json
import re

from engine import bytesrc
from engine import drivers
from engine.core import MachineryError, digest

APP_CT = 'application/json; c05=app'      # the application's own type; resolvable by the media handlers
BODILESS_CODES = (100, 101, 204, 304)
SPEC_ACTIONS = ['RenderFails', 'SendStart', 'SendBody', 'SendEmpty', 'StreamRead', 'StreamSendChunk', 'CloseStream', 'Eof',
                'SseNext', 'SseSend']
# application histories on one response before its final attribute values (see fill())
HISTORIES = [None, None, {'media_first': True}, {'renders': [1]}, {'decoy': True}, {'renders': [0, 3], 'decoy': True},
             {'media_first': True, 'renders': [2]}]
VARIANTS = [{'custom': cu, 'extra': ex, 'via': via} for cu in (False, True) for ex in (False, True)
            for via in ('responder', 'mw_request', 'mw_response', 'http_status')]


class StreamFault(Exception):
    """Injected failure of the application's stream / emitter."""


class RenderFault(Exception):
    """Injected failure of body rendering (render-phase fault)."""


class HandledRenderFault(RenderFault):
    """Render-phase fault for which the application registered its own error handler."""


class RaisingMedia(dict):
    """resp.media value the JSON handler cannot serialise: iterating it raises (and tells the log)."""

    def __init__(self, log, exc):
        dict.__init__(self, a=1)
        self._log, self._exc = log, exc

    def _boom(self, *a, **k):
        self._log.renderFailed = True
        self._log.renderFails += 1
        raise self._exc('injected: media cannot be serialised')
    items = keys = values = __iter__ = _boom


# ------------------------------------------------------------------------------------------------
# payloads: every body source produces self-delimiting pieces, so a received body can be projected
# back to the list of source pieces it consists of (the abstraction function of the body)
# ------------------------------------------------------------------------------------------------

def _pad(head, n, tail=b'>', fill=b'x'):
    if n == 0:
        return b''
    k = n - len(head) - len(tail)
    if k < 0:
        raise MachineryError('payload of %d bytes cannot hold %r' % (n, head))
    return head + fill * k + tail


def text_payload(n):
    """str whose UTF-8 encoding has n bytes (with a 2-byte character when there is room)."""
    if n >= 5:
        return '<Té' + 'x' * (n - 5) + '>'
    return _pad(b'<T', n).decode()


def data_payload(n):
    return _pad(b'<D', n, fill=b'\xfe')


def media_payload(n):
    """object whose JSON document has n bytes."""
    return _pad(b'<M', n - 2).decode()


def chunk_payload(i, n):
    """n > 0: a block of n bytes; 0: an empty block; -1: None"""
    return None if n < 0 else _pad(b'<S%d:' % i, n)


def sse_data(i):
    return b'<E%d>' % i


TOKEN = re.compile(rb': ping\n\n|<T[^<>]*>|<D[^<>]*>|"<M[^<>]*>"|<S(\d+):[^<>]*>|data: <E(\d+)>\n\n|\{"title": "[^"{}]*"\}')
ERROR_DOC = {'title': '500 Internal Server Error'}     # what the default handler answers (D-level detail)


def pieces_of(body, case, cut=False):
    """Project received body bytes to source pieces [[src, idx], ..]; anything that is not exactly a
    payload of this case becomes ['other', -1] (and ends the projection).
    cut: the emission was interrupted by an injected fault and the stream is a file-like read in blocks of the
    framework's choosing (kind filefull): the body may end inside a segment; a last incomplete segment that is a
    true beginning of the next expected one is not a piece (the pieces are the segments wholly received)."""
    out, p = [], 0
    while p < len(body):
        m = TOKEN.match(body, p)
        if not m:
            i = len([x for x in out if x[0] == 'stream'])
            nz = [j for j, n in enumerate(case['chunks']) if n > 0]
            if cut and case['stream'] == 'filefull' and i < len(nz) and \
                    chunk_payload(nz[i], case['chunks'][nz[i]]).startswith(body[p:]):
                break
            out.append(['other', -1])
            break
        tok = m.group(0)
        piece = ['other', -1]
        if tok[:2] == b'<T' and case['text'] > 0 and tok == text_payload(case['text']).encode('utf-8'):
            piece = ['text', 0]
        elif tok[:2] == b'<D' and case['data'] > 0 and tok == data_payload(case['data']):
            piece = ['data', 0]
        elif tok[:1] == b'"' and case['media'] > 0:
            try:
                if json.loads(tok.decode('utf-8')) == media_payload(case['media']):      # trusted decoder
                    piece = ['media', 0]
            except ValueError:
                pass
        elif tok[:2] == b'<S':
            i = int(m.group(1))
            if i < len(case['chunks']) and case['chunks'][i] > 0 and tok == chunk_payload(i, case['chunks'][i]):
                piece = ['stream', i]
        elif tok[:1] == b'{':
            try:
                if json.loads(tok.decode('utf-8')) == ERROR_DOC:                         # trusted decoder
                    piece = ['err', 0]
            except ValueError:
                pass
        elif tok[:5] == b'data:':
            i = int(m.group(2))
            if 0 <= i < case['sse'] and case['sk'][i] == 1 and i == len(out):       # every SSE item is one piece
                piece = ['sse', i]
        elif tok[:1] == b':':
            i = len(out)
            if i < case['sse'] and case['sk'][i] == 0:     # the framework's own comment event for a None item
                piece = ['ping', i]
        out.append(piece)
        if piece[0] == 'other':
            break
        p = m.end()
    return out


# ------------------------------------------------------------------------------------------------
# stream doubles: count first read / close(); raise on schedule
# ------------------------------------------------------------------------------------------------

class Log:
    def __init__(self):
        self.begun = False
        self.closes = 0
        self.raised = False
        self.reads = 0
        self.renderFailed = False
        self.renderFails = 0          # renderings that raised
        self.renderCalls = 0          # render_body() calls of the custom response class
        self.iter_closes = 0          # a derived iterator of an iterable stream was finalised (not the object's close())


class _Base:
    def __init__(self, chunks, log, fail_at):
        self.chunks, self.log, self.fail_at, self.k = chunks, log, fail_at, 0

    def _next(self):
        """next item (bytes, or None where the case says so), END at exhaustion; raises the scheduled fault"""
        k = self.k
        self.k += 1
        self.log.begun = True
        self.log.reads += 1
        if k == self.fail_at:
            self.log.raised = True
            raise StreamFault('injected at read %d' % k)
        return self.chunks[k] if k < len(self.chunks) else END


END = object()


class SyncIter(_Base):
    def __iter__(self):
        return self

    def __next__(self):
        b = self._next()
        if b is END:
            raise StopIteration
        return b

    def close(self):
        self.log.closes += 1


class SyncPlain(_Base):            # iterable without close()
    def __iter__(self):
        return self

    def __next__(self):
        b = self._next()
        if b is END:
            raise StopIteration
        return b


class SyncFile(_Base):
    """pipe/socket-like reader: every read returns the next scripted block - non-empty and shorter than asked
    for - whatever the size; the end of the data is b'' only"""

    def read(self, size=-1):
        rest = getattr(self, 'rest', b'')
        if rest:                                       # (never more than asked for: the remainder comes next)
            self.rest = rest[size:] if size is not None and size >= 0 else b''
            return rest[:size] if size is not None and size >= 0 else rest
        b = self._next()
        if b is not END and b is not None and size is not None and 0 <= size < len(b):
            b, self.rest = b[:size], b[size:]
        return b'' if b is END else b

    def close(self):
        self.log.closes += 1


class SyncIterable(_Base):
    """iterable with close() that is NOT its own iterator: __iter__ is a generator function, so iter(stream) is a
    generator object and not the stream.  close() of *this* object is what the property speaks about; close() of a
    derived iterator is recorded separately (iter_closes) and does not count."""

    def __iter__(self):
        try:
            while True:
                b = self._next()
                if b is END:
                    return
                yield b
        finally:
            self.log.iter_closes += 1

    def close(self):
        self.log.closes += 1


class SyncFileFull(_Base):
    """file-like that honours the size argument: the data is one byte string (the concatenation of the case's
    segments), read(n) returns exactly n bytes until fewer are left, then the rest, then b''."""

    def __init__(self, chunks, log, fail_at):
        _Base.__init__(self, [], log, fail_at)
        self.data, self.pos = b''.join(chunks), 0

    def _read(self, size):
        self._next()                                  # counts the read, raises the scheduled fault
        n = len(self.data) - self.pos if size is None or size < 0 else size
        b = self.data[self.pos:self.pos + n]
        self.pos += len(b)
        return b

    def read(self, size=-1):
        return self._read(size)

    def close(self):
        self.log.closes += 1


class AsyncFileFull(SyncFileFull):
    async def read(self, size=-1):
        await asyncio.sleep(0)
        return self._read(size)

    async def close(self):
        self.log.closes += 1


class AsyncIterable(_Base):
    """async counterpart of SyncIterable: __aiter__ is an async generator function"""

    async def __aiter__(self):
        try:
            while True:
                await asyncio.sleep(0)
                b = self._next()
                if b is END:
                    return
                yield b
        finally:
            self.log.iter_closes += 1

    async def close(self):
        self.log.closes += 1


class AsyncIter(_Base):
    none_end = False               # documented alternative: an async iterator may end by returning None

    def __aiter__(self):
        return self

    async def __anext__(self):
        await asyncio.sleep(0)
        b = self._next()
        if b is END:
            if self.none_end:
                return None
            raise StopAsyncIteration
        return b                   # a None item of the case: "the end" as well (nothing is asked for after it)

    async def close(self):
        self.log.closes += 1


class AsyncFile(_Base):
    async def read(self, size=-1):
        await asyncio.sleep(0)
        b = self._next()
        return b'' if b is END else b          # a None item: "no data yet"

    async def close(self):
        self.log.closes += 1


async def async_plain(chunks, log, fail_at):          # native async generator: no close() attribute
    src = _Base(chunks, log, fail_at)
    while True:
        b = src._next()
        if b is END:
            return
        yield b


async def sse_emitter(script, log, fail_at, ping=None):
    """script: one entry per item, 1 = an SSEvent, 0 = a keep-alive ping (None)"""
    from falcon.asgi import SSEvent
    src = _Base([(SSEvent(data=sse_data(i)) if x else ping) for i, x in enumerate(script)], Log(), fail_at)
    case = CUR['case']
    while True:
        if case['fk'] == 'disc' and src.k == case['fa'] and CUR.get('disc') is not None:
            CUR['disc'].set()                      # the client disconnects after fa items were produced
        try:
            b = src._next()
        except StreamFault:
            log.raised = True
            raise
        if b is END:
            return
        yield b


# ------------------------------------------------------------------------------------------------
# the applications: one per (interface, response class); the responder fills the response as the
# current case says
# ------------------------------------------------------------------------------------------------

CUR = {'case': None, 'variant': None, 'log': None}
_APPS = {}


def status_value(case):
    import falcon
    code, form = case['code'], case['form']
    if form == 'int':
        return code
    if form == 'enum':
        return http.HTTPStatus(code)
    if form == 'line':
        return getattr(falcon, 'HTTP_%d' % code)
    if form == 'xline':
        return '%d Custom Reason' % code
    if form == 'strcode':                  # just the code, as a string
        return '%d' % code
    if form == 'bytescode':
        return b'%d' % code
    if form == 'bytes':                    # a status line as bytes: the registry's, or the application's own
        line = getattr(falcon, 'HTTP_%d' % code, None) or '%d Custom Reason' % code
        return line.encode('ascii')
    raise MachineryError('unknown status form %r' % form)


def forms_of(code):
    import falcon
    fs = ['int', 'xline', 'strcode', 'bytes', 'bytescode']
    if hasattr(falcon, 'HTTP_%d' % code):
        fs.append('line')
    if code in set(int(s) for s in http.HTTPStatus):
        fs.append('enum')
    return fs


def fill(resp, is_asgi):
    case, var, log = CUR['case'], CUR['variant'], CUR['log']
    fail_at = case['fa'] if case['fk'] == 'stream' else -1
    steps = []
    by_status = var['via'] == 'http_status'        # status, text and some headers travel in a raised falcon.HTTPStatus
    if not by_status:
        steps.append(lambda: setattr(resp, 'status', status_value(case)))
    if case['ct']:
        steps.append(lambda: setattr(resp, 'content_type', APP_CT))
    stream = None
    if case['stream'] != 'none':
        chunks = [chunk_payload(i, n) for i, n in enumerate(case['chunks'])]
        sfail = fail_at if not (is_asgi and case['sse'] >= 0) else -1
        if is_asgi:
            if case['stream'] == 'iter':
                stream = AsyncIter(chunks, log, sfail)
                stream.none_end = bool(var.get('none_end'))
            elif case['stream'] == 'iterable':
                stream = AsyncIterable(chunks, log, sfail)
            elif case['stream'] == 'file':
                stream = AsyncFile(chunks, log, sfail)
            elif case['stream'] == 'filefull':
                stream = AsyncFileFull(chunks, log, sfail)
            else:
                stream = async_plain(chunks, log, sfail)
        else:
            if case['stream'] == 'iter':
                stream = SyncIter(chunks, log, sfail)
            elif case['stream'] == 'iterable':
                stream = SyncIterable(chunks, log, sfail)
            elif case['stream'] == 'file':
                stream = SyncFile(chunks, log, sfail)
            elif case['stream'] == 'filefull':
                stream = SyncFileFull(chunks, log, sfail)
            elif var.get('plain_list') and sfail < 0:
                stream = chunks                                   # a plain list of byte strings
            else:
                stream = SyncPlain(chunks, log, sfail)
    if stream is not None and case['cl'] >= 0 and var.get('set_stream'):
        steps.append(lambda: resp.set_stream(stream, case['cl']))
    else:
        if case['cl'] >= 0:
            if var.get('cl_header'):
                steps.append(lambda: resp.set_header('Content-Length', str(case['cl'])))
            else:
                steps.append(lambda: setattr(resp, 'content_length', case['cl']))
        if stream is not None:
            steps.append(lambda: setattr(resp, 'stream', stream))
    # the application's history on this response before the final attribute values (the precedence rule speaks
    # about the final values): decoy values that are overwritten / unset again, and early calls of the public
    # render_body() - e.g. a middleware computing an ETag - between the assignments
    hist = var.get('hist') or {}
    if case['fk'] == 'render' or case['code'] in (204, 304):
        hist = {}           # (an early public render of media stores the default media type: not judged on 204/304)
    decoy = bool(hist.get('decoy')) and not by_status
    pre = []
    if decoy:
        pre = [lambda: setattr(resp, 'text', '<decoy text>'), lambda: setattr(resp, 'data', b'<decoy data>'),
               lambda: setattr(resp, 'media', {'decoy': True}), lambda: resp.render_body(),
               lambda: setattr(resp, 'text', None), lambda: resp.render_body()]
    if case['text'] >= 0 and not by_status:
        steps.append(lambda: setattr(resp, 'text', text_payload(case['text'])))
    elif decoy:
        steps.append(lambda: setattr(resp, 'text', None))
    if case['data'] >= 0:
        steps.append(lambda: setattr(resp, 'data', data_payload(case['data'])))
    elif decoy:
        steps.append(lambda: setattr(resp, 'data', None))
    if decoy and case['media'] < 0:
        steps.append(lambda: setattr(resp, 'media', None))
    render_media = case['fk'] == 'render' and var.get('render_mode') == 'media'
    if render_media and not (case['text'] < 0 and case['data'] < 0 and case['media'] >= 0):
        raise MachineryError('render fault through the media needs a case in which the media is rendered')
    if case['media'] >= 0:
        media = RaisingMedia(log, HandledRenderFault if var.get('err_handler') else RenderFault) if render_media \
            else media_payload(case['media'])
        media_step = lambda: setattr(resp, 'media', media)
        steps.append(media_step)
    if is_asgi and case['sse'] >= 0:
        steps.append(lambda: setattr(resp, 'sse', sse_emitter(case['sk'], log, fail_at)))
    if var['extra']:
        # cookies and extra headers through every route, with the value types applications really pass
        # (str, int, float): the server must get native strings / byte pairs whatever the route
        steps.append(lambda: resp.set_cookie('sid', 'abc123', max_age=60))
        steps.append(lambda: resp.append_header('X-Extra', 'one'))
        steps.append(lambda: resp.append_header('X-Extra', 2))
        steps.append(lambda: resp.set_header('Cache-Control', 'no-store'))
        steps.append(lambda: resp.set_header('X-Attempt', 3))
        steps.append(lambda: resp.set_headers({'X-RateLimit-Remaining': 41, 'X-Load': 0.5, 'X-Plain': 'v'}))
        steps.append(lambda: resp.set_headers([('X-Pair-Int', 7), ('X-Pair-Str', 's')]))
        steps.append(lambda: setattr(resp, 'retry_after', 120))
    order = var.get('order')
    if order:
        steps = _permute(steps, order)
    if hist.get('media_first') and case['media'] >= 0:
        steps.remove(media_step)                   # media, render_body(), then everything else (data, text, ...)
        steps = [media_step, lambda: resp.render_body()] + steps
    for p in hist.get('renders', ()):
        steps.insert(p % (len(steps) + 1), lambda: resp.render_body())
    for s in pre + steps:
        yield s()                                  # on ASGI render_body() gives an awaitable: the caller awaits it
    if case['fk'] == 'render' and var.get('render_mode') == 'http_error':
        # the responder gives up after filling the response: handled like a render-phase fault (the response is
        # re-filled by the handler of HTTPError and rendered), with header values of the error's own
        import falcon
        log.renderFailed = True
        log.renderFails += 1
        if var.get('handler_status') is not None:      # the status of the error spelled by the application
            raise falcon.HTTPError(var['handler_status'], headers={'Retry-After': 120, 'X-Backoff': 1.5})
        raise falcon.HTTPServiceUnavailable(headers={'Retry-After': 120, 'X-Backoff': 1.5})
    if by_status:
        import falcon
        raise falcon.HTTPStatus(status_value(case), headers={'X-Queue-Position': 7, 'X-Note': 'queued'},
                                text=text_payload(case['text']) if case['text'] >= 0 else None)


def _permute(steps, order):
    """deterministic permutation of the fill steps driven by a list of ints (set_stream keeps its place
    relative to an explicit Content-Length only by construction: both are one step or independent)"""
    steps = list(steps)
    out = []
    for x in order:
        if not steps:
            break
        out.append(steps.pop(x % len(steps)))
    return out + steps


def _maybe_render_fault():
    """render_body() of the custom response classes: raises when the current case schedules it"""
    case, var = CUR['case'], CUR['variant']
    log = CUR['log']
    log.renderCalls += 1
    if case['fk'] == 'render' and var.get('render_mode') not in ('media', 'http_error') and log.renderCalls <= case['fa']:
        log.renderFailed = True
        log.renderFails += 1
        raise (HandledRenderFault if var.get('err_handler') else RenderFault)('injected: render_body raises')


def _own_error_handler_fill(resp):
    # an error handler may spell the status any way a responder may
    resp.status = CUR['variant'].get('handler_status', '503 Service Unavailable')
    resp.text = 'handled by the application'


def get_app(iface, custom):
    import falcon
    import falcon.asgi
    key = ('asgi' if iface == 'asgi' else 'wsgi', custom)
    if key in _APPS:
        return _APPS[key]
    if key[0] == 'wsgi':
        class CustomResponse(falcon.Response):
            def render_body(self):
                _maybe_render_fault()
                return super().render_body()

        class Res:
            def _any(self, req, resp):
                if CUR['variant']['via'] in ('responder', 'http_status'):
                    for _ in fill(resp, False):
                        pass
            on_get = on_head = on_post = on_put = on_delete = on_patch = _any

        class Mw:
            def process_request(self, req, resp):
                if CUR['variant']['via'] == 'mw_request':
                    for _ in fill(resp, False):
                        pass
                    resp.complete = True

            def process_response(self, req, resp, resource, req_succeeded):
                if CUR['variant']['via'] == 'mw_response':
                    for _ in fill(resp, False):
                        pass

        app = falcon.App(middleware=[Mw()], response_type=CustomResponse if custom else None) if custom \
            else falcon.App(middleware=[Mw()])
        app.add_route('/r', Res())
        app.add_error_handler(HandledRenderFault, lambda req, resp, ex, params: _own_error_handler_fill(resp))
    else:
        class CustomAsgiResponse(falcon.asgi.Response):
            async def render_body(self):
                _maybe_render_fault()
                return await super().render_body()

        class ARes:
            async def _any(self, req, resp):
                if CUR['variant']['via'] in ('responder', 'http_status'):
                    for r in fill(resp, True):
                        if inspect.isawaitable(r):
                            await r
            on_get = on_head = on_post = on_put = on_delete = on_patch = _any

        class AMw:
            async def process_request(self, req, resp):
                if CUR['variant']['via'] == 'mw_request':
                    for r in fill(resp, True):
                        if inspect.isawaitable(r):
                            await r
                    resp.complete = True

            async def process_response(self, req, resp, resource, req_succeeded):
                if CUR['variant']['via'] == 'mw_response':
                    for r in fill(resp, True):
                        if inspect.isawaitable(r):
                            await r

        inner = falcon.asgi.App(middleware=[AMw()], response_type=CustomAsgiResponse) if custom \
            else falcon.asgi.App(middleware=[AMw()])
        inner.add_route('/r', ARes())

        async def own_handler(req, resp, ex, params):
            _own_error_handler_fill(resp)
        inner.add_error_handler(HandledRenderFault, own_handler)

        async def app(scope, receive, send):
            # a connected client: after the request body receive() blocks (the driver's own receive
            # would report http.disconnect at once and cut an SSE response short)
            first = [True]

            async def blocking_receive():
                if first[0]:
                    first[0] = False
                    return await receive()
                if CUR.get('disc') is not None:           # the client goes away when the harness says so
                    await CUR['disc'].wait()
                    return {'type': 'http.disconnect'}
                await asyncio.get_running_loop().create_future()
            await inner(scope, blocking_receive, send)
    _APPS[key] = app
    return app


_LOOP = [None]


def _loop():
    if _LOOP[0] is None:
        _LOOP[0] = asyncio.new_event_loop()
    return _LOOP[0]


def close_loop():
    if _LOOP[0] is not None:
        _LOOP[0].close()
        _LOOP[0] = None


def _int31(s):
    return int(s) if s.isdigit() and len(s) < 10 else -3


def execute(case, variant):
    """Run one case on the real framework.  Returns the observation (trace record)."""
    log = Log()
    is_asgi = case['iface'] == 'asgi'
    if variant['via'] == 'http_status' and (case['data'] >= 0 or case['media'] >= 0 or case['fk'] == 'render'):
        # handling the raised HTTPStatus resets data and media: the route only expresses cases without them
        variant = dict(variant, via='responder')
    if case['fk'] == 'render' and variant.get('render_mode') not in ('media', 'http_error') and not variant['custom']:
        raise MachineryError('a render fault raised by render_body() needs the custom response class')
    CUR['case'], CUR['variant'], CUR['log'] = case, variant, log
    CUR['disc'] = asyncio.Event() if case['fk'] == 'disc' else None
    app = get_app(case['iface'], variant['custom'])
    req = drivers.Req(method=case['method'], target=b'/r')
    ev = []
    hang = False
    with bytesrc.watchdog(5.0):
        try:
            if is_asgi:
                loop = _loop()
                sfa = case['fa'] if case['fk'] == 'send' else None
                res = loop.run_until_complete(drivers.asgi_call_async(app, req, send_fails_at=sfa))
                left = asyncio.all_tasks(loop)
                if left:                      # e.g. the SSE disconnect watcher after an aborted response
                    for t in left:
                        t.cancel()
                    loop.run_until_complete(asyncio.gather(*left, return_exceptions=True))
            else:
                wfa = case['fa'] - 1 if case['fk'] == 'send' else None
                res = drivers.wsgi_call(app, req, file_wrapper=drivers.FileWrapper if case['iface'] == 'wsgifw' else None,
                                        write_fails_at=wfa)
        except bytesrc.Hang:
            hang = True
            close_loop()
            res = drivers.Result()
            res.exc = bytesrc.Hang('no response within 5 s')

    def start_event():
        cls = res.header_all('content-length')
        cts = res.header_all('content-type')
        cl = -1 if not cls else (_int31(cls[0]) if len(cls) == 1 else -3)
        ct = 'none' if not cts else ('app' if cts == [APP_CT] else 'fw')
        if is_asgi:
            sl = isinstance(res.status, int) and not isinstance(res.status, bool) and 100 <= res.status <= 999
        else:               # PEP 3333: a native string "DDD SP reason-phrase"
            sl = isinstance(res.status_line, str) and re.fullmatch(r'[1-9][0-9][0-9] [^\r\n]*', res.status_line) is not None
        return {'k': 'start', 'n': 0, 'more': True, 'src': '', 'idx': -1, 'cl': cl, 'ct': ct, 'sl': bool(sl)}

    def body_event(n, more):
        return {'k': 'body', 'n': n, 'more': bool(more), 'src': '', 'idx': -1, 'cl': -1, 'ct': '', 'sl': True}

    if is_asgi:
        for e in res.events:
            t = e.get('type') if isinstance(e, dict) else None
            if t == 'http.response.start':
                ev.append(start_event())
            elif t == 'http.response.body':
                b = e.get('body', b'')
                ev.append(body_event(len(b) if isinstance(b, (bytes, bytearray, memoryview)) else 0,
                                     e.get('more_body', False)))
            else:
                ev.append({'k': 'other', 'n': 0, 'more': True, 'src': '', 'idx': -1, 'cl': -1, 'ct': '', 'sl': True})
    else:
        if res.status_line is not None or res.raw_headers:
            ev.append(start_event())
        for ch in res.chunks:
            ev.append(body_event(len(ch), True))
        if res.iterable is not None and res.exc is None and not res.extra.get('send_failed'):
            ev.append({'k': 'eof', 'n': 0, 'more': False, 'src': '', 'idx': -1, 'cl': -1, 'ct': '', 'sl': True})
    cut = log.raised or bool(res.extra.get('send_failed')) or res.exc is not None
    return {'c': case, 'ev': ev, 'pieces': pieces_of(res.body, case, cut), 'begun': log.begun, 'closes': log.closes,
            'raised': log.raised, 'sendFailed': bool(res.extra.get('send_failed')), 'renderFailed': log.renderFailed,
            'renderFails': log.renderFails,
            'exc': res.exc is not None,
            'errors': len(res.errors),
            '_info': {'exc': repr(res.exc) if res.exc is not None else None, 'errors': res.errors[:3], 'status': res.status, 'status_line': res.status_line if not is_asgi else res.status,
                      'headers': res.headers[:8], 'body': repr(res.body[:60]), 'hang': hang, 'iter_closes': log.iter_closes}}


# ------------------------------------------------------------------------------------------------
# verdict handling shared by the legs
# ------------------------------------------------------------------------------------------------

def nontrivial(case):
    nsrc = sum(1 for k in ('text', 'data', 'media', 'sse') if case[k] >= 0) + (case['stream'] != 'none')
    return nsrc >= 2 or case['method'] == 'HEAD' or case['code'] in BODILESS_CODES or case['fk'] != 'none'


def report(ctx, clause, case, variant, obs, what):
    rec = {'case': case, 'variant': variant, 'observed': {k: v for k, v in obs.items() if k != 'c'}}
    ctx.violation(clause, rec, what)


def compare_with_behaviour(b, obs):
    """Leg A: what the specification says for this case (b, computed by TLC) vs what the code did.
    Returns (P, D): failed property clauses [(clause, what)] and model-detail mismatches [(clause, what)]."""
    case = b['c']
    faulted_spec = b['raised'] or b['sendFailed']
    faulted = obs['raised'] or obs['sendFailed']
    info = obs['_info']
    spec_ev = [{'k': e[0], 'n': e[1], 'more': e[2], 'src': e[3], 'idx': e[4]} for e in b['ev']]
    spec_pieces = [list(x) for x in b['pieces']]       # the body as source pieces, as the specification projects it
    got_bytes = sum(e['n'] for e in obs['ev'] if e['k'] == 'body')
    nstart = sum(1 for e in obs['ev'] if e['k'] == 'start')
    bad, notes = [], []

    def P(clause, what):
        bad.append((clause, what))

    if obs['exc'] and not faulted:
        P('Exception', 'no stream/send fault injected but %s reached the server' % info['exc'])
        return bad, notes
    if obs['renderFails'] != (case['fa'] if case['fk'] == 'render' else 0):
        if obs['renderFailed'] != (case['fk'] == 'render'):
            P('Precedence', 'render-phase fault scheduled=%r but body rendering %s' % (
                case['fk'] == 'render', 'raised' if obs['renderFailed'] else 'never reached the failing source'))
            return bad, notes
        # how often the re-filled response is rendered again is the framework's business
        notes.append(('D:render_again', '%d renderings raised, specification %d' % (obs['renderFails'], case['fa'])))
    if faulted != faulted_spec:
        # the scheduled fault point was (not) reached: the emission took other steps than the specification's
        P('Precedence', 'fault point %s/%d %s in the specification but %s in the code'
          % (case['fk'], case['fa'], 'fires' if faulted_spec else 'is never reached',
             'fired' if faulted else 'was never reached'))
        return bad, notes
    if obs['errors']:
        P('Protocol', 'protocol monitor: %s' % info['errors'])
    if nstart != sum(1 for e in spec_ev if e['k'] == 'start') or (obs['ev'] and obs['ev'][0]['k'] != 'start'):
        P('ExactlyOneStart', '%d response starts' % nstart)
    complete = not faulted
    bodiless_flagged = False
    if complete:
        if case['fk'] == 'disc':
            if obs['pieces'] != b['full'][:len(obs['pieces'])]:
                P('Precedence', 'body %r is not a prefix of %r' % (obs['pieces'], b['full']))
        elif b['precreq'] and obs['pieces'] != b['full']:
            bodiless_flagged = bool(b['bodiless'] and obs['pieces'])
            P('BodilessHaveNoBytes' if bodiless_flagged else 'Precedence',
              'body consists of %r, the chosen source %r prescribes %r' % (obs['pieces'], b['chosen'], b['full']))
        fin = [i for i, e in enumerate(obs['ev']) if e['k'] == 'eof' or (e['k'] == 'body' and not e['more'])]
        if fin != [len(obs['ev']) - 1]:
            P('OnlyLastHasNoMoreBody', 'final events at positions %r of %d' % (fin, len(obs['ev'])))
    elif b['precreq'] and obs['pieces'] != b['full'][:len(obs['pieces'])]:
        P('Precedence', 'body prefix %r is not a prefix of %r' % (obs['pieces'], b['full']))
    if b['bodiless'] and got_bytes != 0 and not bodiless_flagged:
        P('BodilessHaveNoBytes', '%d body bytes' % got_bytes)
    if nstart == 1:
        st = obs['ev'][0]
        # a stream iterated under the error status makes the body a streamed one (the specification's machine
        # drops the stream, as the code does; the property does not forbid the other choice): D-level only
        streamed_anyway = case['fk'] == 'render' and obs['begun']
        if complete and b['lenreq'] and not streamed_anyway and st['cl'] != got_bytes:
            P('LengthConsistent', 'Content-Length %r (-1 = absent) but %d body bytes were sent (status %r)'
              % (st['cl'], got_bytes, info['status']))
        elif st['cl'] != b['cl']:
            notes.append(('D:content_length', '%r, specification %r' % (st['cl'], b['cl'])))
        if st['ct'] != b['ct']:
            if b['typeless'] and st['ct'] == 'fw':
                P('TypelessHaveNoFrameworkType', 'status %d carries a framework-supplied Content-Type %r'
                  % (b['eff']['code'], [v for k, v in info['headers'] if k == 'content-type']))
            elif not b['typeless'] and st['ct'] == 'none':
                P('OthersHaveType', 'status %r without Content-Type' % info['status'])
            else:
                notes.append(('D:content_type', 'class %r, specification %r' % (st['ct'], b['ct'])))
        if st['sl'] != b['sl']:
            P('StatusLineWellFormed', 'status handed to the server: %r' % (info.get('status_line', info['status']),))
        if info['status'] != b['eff']['code']:
            notes.append(('D:status', 'status %r, specification %r' % (info['status'], b['eff']['code'])))
    if obs['closes'] > 1 or (obs['begun'] and b['hasclose'] and obs['closes'] != 1):
        P('CloseExactlyOnceOnceBegun', 'stream (%s) begun=%r, close() calls on the assigned object=%d (derived iterators '
          'finalised: %d)' % (case['stream'], obs['begun'], obs['closes'], info['iter_closes']))
    # D-level: the exact event sequence (block boundaries, where the empty blocks are), begun / closes
    same_len = len(spec_ev) == len(obs['ev'])
    shape_spec = [(e['k'], e['more'], e['n'] if e['src'] not in ('sse', 'ping') else -1) for e in spec_ev]
    shape_got = [(e['k'], e['more'], e['n'] if (same_len and spec_ev[i]['src'] not in ('sse', 'ping')) else -1)
                 for i, e in enumerate(obs['ev'])] if same_len else None
    if shape_spec != shape_got:
        notes.append(('D:events', 'events %r, specification %r' % ([(e['k'], e['more'], e['n']) for e in obs['ev']], shape_spec)))
    elif obs['begun'] != b['begun'] or obs['closes'] != b['closes'] or obs['pieces'] != spec_pieces:
        notes.append(('D:stream', 'begun/closes/pieces %r/%r/%r, specification %r/%r/%r'
                      % (obs['begun'], obs['closes'], obs['pieces'], b['begun'], b['closes'], spec_pieces)))
    return bad, notes


def check_against(ctx, bs, variant, obs):
    """bs: the behaviours the specification has for this case (more than one only where the design leaves a
    choice open: the fate of a stream after a render-phase fault).  The observation must satisfy the property
    clauses under one of them; D-level mismatches are noted only if no behaviour matches exactly."""
    results = [compare_with_behaviour(b, obs) for b in bs]
    results.sort(key=lambda r: (len(r[0]), len(r[1])))
    bad, notes = results[0]
    case = bs[0]['c']
    for clause, what in bad:
        report(ctx, clause, case, variant, obs, what)
    if not bad:           # the D-level comparison is only meaningful for a response that satisfies the property
        for clause, what in notes:
            ctx.detail(clause, case, what + '  case=' + json.dumps(case) + ' variant=' + json.dumps(variant))
    return bad


# ------------------------------------------------------------------------------------------------
# leg B: random cases beyond the table
# ------------------------------------------------------------------------------------------------

B_CODES = [200, 200, 200, 201, 202, 204, 204, 206, 301, 302, 304, 304, 400, 404, 418, 500, 503, 100, 101, 299, 599, 226]
B_METHODS = ['GET', 'GET', 'GET', 'HEAD', 'HEAD', 'POST', 'PUT', 'DELETE', 'PATCH']


def random_case(rng):
    iface = rng.choice(('wsgi', 'wsgifw', 'asgi', 'asgi'))
    code = rng.choice(B_CODES)
    form = rng.choice(forms_of(code))

    def ln(lo, hi, pnone=0.5, pzero=0.12):
        t = rng.random()
        return -1 if t < pnone else (0 if t < pnone + pzero else rng.randint(lo, hi))
    kind = rng.choice(('none', 'none', 'none', 'iter', 'iterable', 'file', 'file', 'filefull', 'plain'))
    chunks = []
    if kind == 'filefull':
        # data segments of a file-like that honours the size: around the framework's block size and beyond
        for _ in range(rng.choice((0, 1, 1, 2, 2, 3))):
            chunks.append(rng.choice((8192, 8191, 8193, 16384, 5000, 17, 20000, rng.randint(6, 12000))))
    elif kind != 'none':
        for _ in range(rng.choice((0, 1, 1, 2, 2, 3, 4, 5))):
            t = rng.random()
            # None: "no data yet" from a file-like / "the end" from an async iterator or generator (ASGI only)
            chunks.append(-1 if (iface == 'asgi' and t < 0.12) else
                          0 if (kind != 'file' and t < 0.24) else rng.randint(6, 40))
    case = {'iface': iface, 'code': code, 'form': form, 'method': rng.choice(B_METHODS),
            'text': ln(3, 40), 'data': ln(3, 40, 0.6), 'media': ln(5, 30, 0.6, 0.0),
            'stream': kind, 'chunks': chunks,
            'sse': (rng.choice((0, 1, 2, 3, 4, 5)) if iface == 'asgi' and rng.random() < 0.15 else -1), 'sk': [],
            'cl': -1 if rng.random() < 0.6 else rng.randint(0, 60), 'ct': rng.random() < 0.3,
            'fk': 'none', 'fa': 0, 'err': -1}
    if case['sse'] >= 0:
        case['sk'] = [0 if rng.random() < 0.4 else 1 for _ in range(case['sse'])]
    t = rng.random()
    if t < 0.25:
        case['fk'], case['fa'] = 'stream', rng.randint(0, max(len(chunks), case['sse'], 0) + (4 if kind == 'filefull' else 1))
    elif t < 0.5:
        case['fk'], case['fa'] = 'send', rng.randint(0 if iface == 'asgi' else 1, len(chunks) + (6 if kind == 'filefull' else 3))
    elif t < 0.65:
        case['fk'], case['fa'] = 'render', rng.choice((1, 1, 2))
    elif case['sse'] >= 0 and t < 0.85:
        case['fk'], case['fa'] = 'disc', rng.randint(0, case['sse'])       # the client disconnects mid-stream
    variant = {'custom': rng.random() < 0.3, 'extra': rng.random() < 0.4,
               'via': rng.choice(('responder', 'responder', 'mw_request', 'mw_response', 'http_status')),
               'set_stream': rng.random() < 0.5, 'cl_header': rng.random() < 0.5, 'none_end': rng.random() < 0.3,
               'plain_list': rng.random() < 0.5, 'order': [rng.randrange(16) for _ in range(rng.randint(0, 10))]}
    if rng.random() < 0.4:
        variant['hist'] = {'decoy': rng.random() < 0.4, 'media_first': rng.random() < 0.4,
                           'renders': [rng.randrange(12) for _ in range(rng.randint(0, 3))]}
    if case['fk'] == 'render':
        render_variant(case, variant, rng.random() < 0.5)
        variant['err_handler'] = rng.random() < 0.3          # the application's own handler takes the fault
        if rng.random() < 0.6:                                # ... and spells the error's status in one of the accepted ways
            variant['handler_status'] = rng.choice(('503', b'503', b'503 Service Unavailable', 503, '503 Busy', '799', 799))
        if case['fa'] == 1 and rng.random() < 0.25:
            variant['render_mode'] = 'http_error'             # the responder raises an HTTPError with headers of its own
    return case, variant


def media_rendered(case):
    return case['text'] < 0 and case['data'] < 0 and case['media'] >= 0


def render_variant(case, variant, prefer_media):
    """how the render-phase fault is raised: by the media (only where the media is rendered at all) or by
    render_body() of the custom response class"""
    if prefer_media and media_rendered(case) and case['fa'] == 1:     # the handler replaces the media: it raises once
        variant['render_mode'] = 'media'
    else:
        variant['render_mode'] = 'class'
        variant['custom'] = True
    return variant


def judge_and_report(ctx, items, workers=8):
    """items: list of (case, variant, obs).  TLC judges the observations."""
    traces = [{k: v for k, v in obs.items() if k != '_info'} for _, _, obs in items]
    verdicts = ctx.judge('ResponseEmitTrace', traces, workers=workers, timeout=1200, chunk=20000)
    nbad = 0
    for (case, variant, obs), v in zip(items, verdicts):
        if v != 'ok':
            nbad += 1
            clause = v.split('@')[0].replace('P:', '')
            report(ctx, clause, case, variant, obs, 'observation rejected by ResponseEmitTrace: %s  (status %r, headers %r, '
                   'body %s, exc %s)' % (v, obs['_info']['status'], obs['_info']['headers'], obs['_info']['body'],
                                         obs['_info']['exc']))
    return nbad


def run(ctx):
    ctx.rule = ('case = (interface, status code x form, method, lengths of text/data/media, stream kind + blocks, SSE '
                'events, preset Content-Length/Content-Type, fault point: render / stream read j / send j) x harness variant '
                '(response class, cookies + extra headers, who fills the response, how the render fault is raised); non-trivial iff >= 2 body sources are set, or the status is '
                'bodiless / the method HEAD, or a fault point is scheduled; distinct by hash of (case, variant)')
    ctx.trusted_base = ['TLC 1.8 evaluation of spec/ResponseEmit.tla', 'PEP 3333 / ASGI HTTP monitors in engine/drivers.py',
                        'stream doubles and payload tokeniser in checks/c05.py', 'json.loads', 're']
    ctx.assumptions = ['status values are valid (int 100..999, http.HTTPStatus, or "<3 digits> <reason>")',
                       'stream objects are truthy; file-like streams end with b""; a render-phase fault is an Exception '
                       'subclass raised by the media object or by render_body() of a Response subclass',
                       'the WSGI server closes the returned iterable (PEP 3333) - the driver does',
                       'an SSE emitter supersedes text/data/media/stream on ASGI (documented on Response.sse)',
                       '"framework-supplied Content-Type" = a Content-Type the application did not set itself']
    try:
        _run(ctx)
    finally:
        close_loop()


def _run(ctx):
    quick = ctx.quick
    cfg = 'MC_ResponseEmitQ.cfg' if quick else 'MC_ResponseEmit.cfg'
    # ---- leg M: the design -------------------------------------------------------------------
    r = ctx.tlc('MC_ResponseEmit', cfg, coverage=True, workers=8, timeout=1500)
    ctx.require_coverage(r, SPEC_ACTIONS)
    ctx.exhaustive = True
    ctx.progress('leg M done: %d states' % r.distinct)
    # vacuity: each wrong-design switch must break its invariant
    for sw, inv in (('RenderSetsType', 'TypelessHaveNoFrameworkType'), ('BodilessByLine', None),
                    ('ForgetCloseOnFault', 'CloseExactlyOnceOnceBegun'), ('StaleLengthOnRenderFault', 'LengthConsistent'),
                    ('StatusStringAsIs', 'StatusLineWellFormed'), ('ReturnOnDisconnect', 'OnlyLastHasNoMoreBody'),
                    ('CloseDerivedIterator', 'CloseExactlyOnceOnceBegun'), ('StopAtShortBlock', 'Precedence')):
        rv = ctx.tlc('MC_ResponseEmit', 'MC_ResponseEmit_%s.cfg' % sw, workers=4, timeout=300, must_hold=False, count=False)
        if not rv.violated or (inv and rv.violated != inv):
            raise MachineryError('wrong-design switch %s: expected invariant %s to fail, TLC reported %r'
                                 % (sw, inv or '(some)', rv.violated))
        ctx.extra.setdefault('wrong_design_switches', {})[sw] = rv.violated
    ctx.progress('wrong-design switches break their invariants')

    # ---- leg A: every behaviour of the table on the real code -----------------------------------
    ra = ctx.tlc('MC_ResponseEmit', cfg.replace('.cfg', 'E.cfg'), workers=4, timeout=1500, count=False)
    behaviours = ra.json
    if len(behaviours) < 1000:
        raise MachineryError('behaviour export produced only %d behaviours' % len(behaviours))
    ctx.progress('leg A: %d behaviours exported' % len(behaviours))
    # vacuity guard of the stream-object-kind dimension: TLC's table must hold every kind on the interfaces it exists on,
    # fault-free and under a read fault, a send fault at the response start (ASGI) and at a body block, with the stream
    # really begun; short-block and full-block file-likes with more than one block
    have = set()
    for b in behaviours:
        c = b['c']
        if c['stream'] != 'none' and b['chosen'] == 'stream' and not b['bodiless']:
            nblocks = sum(1 for e in b['ev'] if e[0] == 'body' and e[3] == 'stream')
            have.add((c['stream'], c['iface'], c['fk'], 'start' if (c['fk'] == 'send' and c['fa'] == 0) else
                      'begun' if b['begun'] else 'notbegun', 'multi' if nblocks > 1 else 'single'))
    need = []
    for kind in ('iter', 'iterable', 'file', 'filefull'):
        for iface in (('wsgi', 'asgi') if quick and kind == 'iter' else ('wsgi', 'wsgifw', 'asgi')):
            need += [(kind, iface, 'none', 'begun', 'multi'), (kind, iface, 'stream', 'begun', None),
                     (kind, iface, 'send', 'begun', None)]
        need.append((kind, 'asgi', 'send', 'start', None))
    missing = [x for x in need if not any(y[:4] == x[:4] and x[4] in (None, y[4]) for y in have)]
    if missing:
        raise MachineryError('stream object kinds: the exported table lacks %r' % missing[:6])
    ctx.extra['stream_kind_cells'] = len(have)
    nvar = len(VARIANTS)
    replayed = 0
    by_case = {}
    for b in behaviours:                  # > 1 behaviour per case only where the design leaves a choice open
        by_case.setdefault(json.dumps(b['c'], sort_keys=True), []).append(b)
    ctx.extra['spec_cases'] = len(by_case)
    for i, bs in enumerate(by_case.values()):
        case = bs[0]['c']
        # quick: one variant per case (rotating with the seed); thorough: three
        vs = [VARIANTS[(i + ctx.seed) % nvar]] if quick else \
            [VARIANTS[(i + ctx.seed + j * 5) % nvar] for j in range(3)]
        for j, variant in enumerate(vs):
            if case['fk'] == 'render':
                variant = render_variant(case, dict(variant), (i + j + ctx.seed) % 2 == 0)
            else:
                h = HISTORIES[(i // 3 + j + ctx.seed) % len(HISTORIES)]
                if h:
                    variant = dict(variant, hist=h)
            obs = execute(case, variant)
            ctx.case({'case': case, 'variant': variant}, nontrivial=nontrivial(case), key=hash((repr(case), repr(variant))))
            check_against(ctx, bs, variant, obs)
            replayed += 1
    ctx.traces_validated += replayed
    ctx.extra['spec_behaviours'] = len(behaviours)
    ctx.extra['replays'] = replayed
    ctx.progress('leg A done: %d replays' % replayed)

    # ---- leg B: random observations judged by TLC ------------------------------------------------
    n = ctx.pick(6000, 100000)
    items, seen = [], set()
    for _ in range(n):
        case, variant = random_case(ctx.rng)
        obs = execute(case, variant)
        ctx.case({'case': case, 'variant': variant}, nontrivial=nontrivial(case), key=hash((repr(case), repr(variant))))
        key = digest({k: v for k, v in obs.items() if k != '_info'})
        if key in seen:
            continue
        seen.add(key)
        items.append((case, variant, obs))
    ctx.progress('leg B: %d executions, %d distinct observations' % (n, len(items)))
    judge_and_report(ctx, items)
    ctx.extra['observations_judged'] = len(items)
    ctx.progress('leg B done')


def replay(ctx, rec):
    case, variant = rec['case'], rec['variant']
    try:
        obs = execute(case, variant)
        print('observation:', json.dumps({k: v for k, v in obs.items() if k != 'c'}, default=repr))
        v = ctx.judge('ResponseEmitTrace', [{k: x for k, x in obs.items() if k != '_info'}], workers=1)[0]
        print('verdict:', v)
        if v != 'ok':
            report(ctx, v.split('@')[0].replace('P:', ''), case, variant, obs, 'observation rejected: %s' % v)
    finally:
        close_loop()
