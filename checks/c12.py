"""C12 - media round-trips unchanged and request media is parsed at most once.

spec:   spec/MediaCache.tla       one request: handler kind, body kind, value/error cache, stream consumption,
                                  one action per access (get_media(), get_media(default_when_empty=..), .media)
                                  `framing` also says how the request declares its length (explicit Content-Length incl. 0 /
                                  chunked / no header at all / blank header): HandlerDecidesEmpty; the cache keeps the observed
                                  projection [type, title, desc, cause] of the first error: LaterAccessesObserveFirstError
        spec/MC_MediaCache.tla    bounded instance, behaviour export, document / form shapes; instance P: access contexts
                                  (middleware probe, responder, except blocks, error handler) in the order of a request's life
        spec/MediaCacheTrace.tla  trace judge
        spec/MediaCacheResp.tla   response side: assignments / in-place mutation + re-assignment / render_body() /
                                  data / text on one Response; the body sent is the document as LAST assigned
        spec/MC_MediaCacheResp.tla, spec/MediaCacheRespTrace.tla   its bounded instance and trace judge
        spec/MediaCacheForm.tla   form media: everything urlencode(doseq=True) accepts (dict / sequence of pairs, scalar /
                                  list / tuple values, repeated names) -> wire parameters -> the mapping read back
        spec/MC_MediaCacheForm.tla, spec/MediaCacheFormTrace.tla   its bounded instance and trace judge
        spec/MediaCacheFresh.tla  across requests: every request parses its own body into an object of its own
                                  (FreshPerRequest), whatever earlier responders did to theirs; + MC_ / Trace modules
legs:   M  exhaustive TLC check (complete state graph) + coverage guard + wrong-design switches
        A  every TLC behaviour (stack x content type x body kind x 4 accesses) is run as a whole request
           through the raw WSGI / ASGI drivers under several chunkings; valid bodies are what a real app
           rendered from resp.media (TLC-enumerated document shapes) on the other stack; every access is
           compared with the behaviour
        P  TLC behaviours of instance P (simulation in quick, exhaustive depth 3 + simulation in thorough): the accesses of one
           request are made by a probing middleware, by the responder (plain / inside except blocks) and by an error handler;
           every raised error is compared, as an application observes it, with the snapshot taken at the first raise
        B  seeded random documents, corrupted bodies, content types, chunkings, length declarations, access contexts and
           longer access histories on both stacks, judged by TLC (MediaCacheTrace)
Python never decides what get_media must answer: TLC does.  The trusted decoders json.loads /
bytes.decode only classify a byte string as valid / undecodable and give the document a valid body
denotes.
"""

META = {
    'property_id': 'C12',
    'design_ref': 'DESIGN.md section 4, C12',
    'technique': 'TLA+/TLC: model-checked media cache; TLC behaviours replayed as whole WSGI/ASGI requests under '
                 'chunkings; recorded access histories judged by a TLC trace specification',
    'level_text': 'The cache design (value and error remembered, default not remembered, stream consumed by the single '
                  'parse) is model-checked over its complete state graph.  Every model behaviour of 4 accesses for every '
                  'stack x content type x body kind is executed as a real request under several chunkings and compared '
                  'access by access; documents of every TLC-enumerated shape are rendered by a real app and read back on '
                  'the other stack; random documents, corruptions and longer histories are judged by TLC.',
    'level_note': 'Bounded: document shapes to depth 2 exhaustively (scalars drawn from per-category pools), random to depth 4; '
                  'bodies <= a few hundred bytes; histories <= 4 exhaustively, <= 9 randomly.  Documents exclude NaN/Infinity, '
                  'lone surrogates, non-string keys and tuples; form mappings are name -> str | list of >= 2 str with non-empty '
                  'names (what the form parser itself can produce).  Every top-level scalar of the pools and the empty containers (the falsy documents null, false, 0, "", [], {}) '
                  'are sent as bodies of their own; ASGI requests are driven with and without a Content-Length header. Bodies nested '
                  'deeper than the interpreter recursion limit are probed separately; integer literals at the int<->str conversion limit '
                  '(4300 / 4301 / 5000 digits, top level and nested) are part of the body pool.  Response histories: all of length 4 '
                  '(quick) / 5 (thorough), random to 17 statements.  Length declarations: every behaviour with an explicit Content-Length '
                  '(Content-Length: 0 for empty bodies) and, ASGI, chunked; empty bodies additionally with no Content-Length header at all and '
                  'with a blank one, on both stacks, for all 10 content-type kinds (JSON, +json, parameters, subclass, custom, form, '
                  'unsupported) x all 81 access histories of length 4 (first access get_media(default) / get_media() / .media), ASGI with '
                  'single and multiple empty body events; Content-Length values that disagree with the body are not covered (C09). '
                  'Observed error: (type, title, description, __cause__ object and message, to_dict()) of every raised media error is '
                  'compared with a snapshot taken at the first raise, the rendered error document with that snapshot; access contexts '
                  '(middleware probe, plain, except block for an unrelated exception, except block of the media error itself, error '
                  'handler) are simulated by TLC to 5 accesses (quick: ~3 000 behaviours) and enumerated to 3 (thorough: 97 599); '
                  'traceback and __context__ of the error are not part of the projection.  Trusted: TLC, json.loads / bytes.decode as classifiers, '
                  'engine/drivers.py.',
}

import json
import sys

from engine import drivers
from engine.core import MachineryError, digest

CT = {
    'json': 'application/json',
    'json_charset': 'application/json; charset=utf-8',
    'vnd_json': 'application/vnd.api+json; charset=utf-8',
    'form': 'application/x-www-form-urlencoded',
    'form_charset': 'application/x-www-form-urlencoded; charset=utf-8',
    'custom': 'application/x-custom',
    'text': 'text/plain',
    'none': None,
}
# content-type parameters change nothing (falcon's JSON handler is documented as UTF-8): charset spellings, other
# parameters; 'subjson' is a JSONHandler subclass, i.e. the deserialize_async entry point on ASGI instead of the fast path
CHARSETS = ['ISO-8859-1', 'latin1', 'windows-1252', 'us-ascii', 'utf-16', 'hex', 'bogus', 'UTF-8', 'utf-8', '"iso-8859-1"']
PARAM_CTS = ['application/json; charset=%s' % c for c in CHARSETS] + \
            ['application/json; version=2', 'application/json; profile="x"; charset=latin1', 'application/json;charset=ISO-8859-1']
SUBJSON_CTS = ['application/x-subjson', 'application/x-subjson; charset=ISO-8859-1', 'application/x-subjson; charset=utf-16',
               'application/x-subjson; charset=hex', 'application/x-subjson; v=1', 'application/x-subjson; charset=windows-1252',
               'application/x-subjson; charset=us-ascii', 'application/x-subjson; charset=bogus']
NONASCII = 'caf\u00e9 \u00df\u6f22\u5b57 \U0001F600 \u00ff'
BLANKS = [b' ', b'\n', b'\r\n', b'\t \n', b'    ', b'\r', b'\n\n']


def ct_of(ctk, i):
    if ctk == 'json_params':
        return PARAM_CTS[i % len(PARAM_CTS)]
    if ctk == 'subjson':
        return SUBJSON_CTS[i % len(SUBJSON_CTS)]
    return CT[ctk]


# more spellings for the random leg: (content type, handler kind)
CT_RANDOM = [(c, 'json') for c in PARAM_CTS[:7] + SUBJSON_CTS[:4]] + [
    ('application/json', 'json'), ('application/json; charset=utf-8', 'json'), ('application/json;charset=UTF-8', 'json'),
    ('application/json; version=2; charset=utf-8', 'json'), ('application/vnd.api+json', 'json'),
    ('application/vnd.api+json; ext=bulk', 'json'), ('*/*', 'json'), (None, 'json'),
    ('application/x-www-form-urlencoded', 'form'), ('application/x-www-form-urlencoded; charset=utf-8', 'form'),
    ('application/x-custom', 'json'), ('application/x-custom; v=1', 'json'),
    ('text/plain', 'none'), ('application/xml', 'none'), ('application/jsonx', 'none'), ('image/png; q=1', 'none'),
]

# ---- scalar pools per category (MC_MediaCache!Cats) -------------------------------------------
JPOOL = {
    0: [None],
    1: [True, False],
    2: [0, 1, -1, 42, 255, -32768],
    3: [2 ** 63, -2 ** 64 - 1, 10 ** 30, 2 ** 53 + 1, -(10 ** 25) + 7],
    4: [0.5, -1.25, 1e-7, 3.141592653589793, 1e300, 5e-324, 0.1, 1.0, -0.0, 123456789.123456789],
    5: ['a', 'hello world', 'Content-Type', '0', 'null', 'x' * 40],
    6: ['"', '\\', 'a"b\\c', '\n\t\r', '\x00\x1f\x7f', '</script>', '  ', '{"k": [1]}', '\\u0041', "'"],
    7: ['\U0001F600', '\U0001D11Ex', 'a\U00010348b', '\U0010FFFF', '\U0001F468‍\U0001F469'],
    8: [''],
    9: ['é', 'ß漢字', 'é', 'Жизнь', '﻿bom', ' '],
}
FPOOL = {
    0: ['a', 'hello', '42', 'A-Z_z.~'],
    1: ['a b', 'x&y=z', '1+1=2', '100%', 'a,b,c', '%41', 'q?#/;:@', '\n'],
    2: [''],
    3: ['é', '漢字', 'Ж'],
    4: ['\U0001F600', 'a\U00010348'],
}


def inst_top(shape, rng):
    return inst_doc(shape, rng)


def inst_all(shape):
    """every pool value of a top-level scalar shape / the empty containers (MC_MediaCache!Tops)"""
    if shape['k'] == 's':
        return list(JPOOL[shape['c']])
    return [[]] if shape['k'] == 'l' else [{}]


def inst_doc(shape, rng):
    k = shape['k']
    if k == 's':
        return rng.choice(JPOOL[shape['c']])
    items = [inst_doc(s, rng) for s in shape['items']]
    if k == 'l':
        return items
    out = {}
    for i, v in enumerate(items):
        key = rng.choice(JPOOL[rng.choice((5, 6, 7, 8, 9))])
        while key in out:
            key += str(i)
        out[key] = v
    return out


def inst_form(shape, rng):
    out = {}
    for i, vs in enumerate(shape):
        name = rng.choice(FPOOL[rng.choice((0, 1, 3, 4))])
        while name in out:
            name += str(i)
        if vs['k'] == 's':
            out[name] = rng.choice(FPOOL[vs['c']])
        else:
            out[name] = [rng.choice(FPOOL[s['c']]) for s in vs['items']]
    return out


def strict_eq(a, b):
    """== that does not identify True with 1 or 1 with 1.0 (the comparison the round trip deserves)"""
    if type(a) is not type(b):
        return False
    if isinstance(a, dict):
        return set(a.keys()) == set(b.keys()) and all(strict_eq(a[k], b[k]) for k in a)
    if isinstance(a, list):
        return len(a) == len(b) and all(strict_eq(x, y) for x, y in zip(a, b))
    if isinstance(a, float):
        return a == b and (a != 0 or str(a) == str(b))
    return a == b


# ---- the real apps ------------------------------------------------------------------------------
DEFAULT = object()
NOPROJ = {'type': 'none', 'title': 'none', 'desc': 'none', 'cause': 'none'}


class Script:
    def __init__(self):
        self.calls = []          # [(op, default given, context)]
        self.st = None           # per-request observation state (shared by middleware, responder, error handler)
        self.attempted = 0       # accesses the sites of this request set out to make
        self.propagated = None   # the exception the responder let escape
        self.expect = None
        self.has_expect = False
        self.reraise = True
        self.doc = None          # for the rendering GET
        self.ctype = None
        self.events = []
        self.loads = 0


class HookBoom(KeyError):
    """raised by the object_hook of the JSON handler's loads function"""


class CustomBoom(RuntimeError):
    """raised by the user's handler class"""


class Harness:
    def __init__(self):
        import falcon
        import falcon.asgi
        from falcon import media
        self.falcon = falcon
        self.s = Script()
        h = self

        def hook(obj):
            # the documented JSONHandler(loads=partial(json.loads, object_hook=hook)) whose hook fails
            if '__boom__' in obj:
                raise HookBoom('__boom__')
            return obj

        def loads(x):
            h.s.loads += 1
            return json.loads(x, object_hook=hook)

        class SubJSON(media.JSONHandler):
            """a subclass of the JSON handler: same behaviour, but never the optimised (fast path) protocol"""

        class CustomHandler(media.BaseHandler):
            """a user's handler class: JSON semantics, and its own exception for bodies it dislikes"""

            def serialize(self, media, content_type=None):
                return json.dumps(media, ensure_ascii=False).encode()

            def deserialize(self, stream, content_type, content_length):
                data = stream.read()
                h.s.loads += 1
                if not data:
                    raise falcon.MediaNotFoundError('custom')
                if b'__boom__' in data:
                    raise CustomBoom('this handler failed')
                try:
                    return json.loads(data.decode())
                except ValueError as ex:
                    raise falcon.MediaMalformedError('custom') from ex

        def classify(ex):
            if isinstance(ex, falcon.MediaNotFoundError):
                return 'notfound'
            if isinstance(ex, falcon.MediaMalformedError):
                return 'malformed'
            if isinstance(ex, falcon.HTTPUnsupportedMediaType):
                return 'unsupported'
            return 'other'

        class State:
            pass

        def begin():
            st = State()
            st.first_val, st.first_err, st.have_val, st.last_exc = None, None, False, None
            st.first_obs = None
            return st

        def observe(exc):
            """what an application can see of an error: a snapshot (taken when it is raised), compared by == later;
            the cause is compared as an object (exceptions compare by identity) and by its message"""
            c = exc.__cause__
            o = {'type': type(exc), 'cause': c, 'cause_text': None if c is None else (type(c).__name__, str(c)), 'args': repr(exc.args)}
            if isinstance(exc, falcon.HTTPError):
                o.update(title=exc.title, description=exc.description, status=exc.status, doc=json.dumps(exc.to_dict(), sort_keys=True))
            else:
                o.update(text=str(exc))
            return o

        def read_proj(exc):
            """the observation in the vocabulary of MediaCache!ProjOf (a reading, nothing is decided here)"""
            c = exc.__cause__
            p = dict(NOPROJ, type=type(exc).__name__, cause='none' if c is None else 'parser' if isinstance(c, Exception) else 'other')
            if isinstance(exc, (HookBoom, CustomBoom)):
                return dict(p, type='handlers-own', desc='handlers-own')
            if isinstance(exc, falcon.HTTPError):
                t, dsc = exc.title or '', exc.description or ''
                p['title'] = 'invalid-media' if t.startswith('Invalid ') else 'unsupported' if t.startswith('Unsupported') else t
                if isinstance(exc, falcon.MediaNotFoundError):
                    p['desc'] = 'empty-body' if dsc.startswith('Could not parse an empty ') else dsc
                elif isinstance(exc, falcon.MediaMalformedError):
                    p['desc'] = 'could-not-parse+parser-message' if c is not None and str(c) and dsc.startswith('Could not parse ') \
                        and dsc.endswith(' - ' + str(c)) else 'could-not-parse' if dsc.startswith('Could not parse ') else dsc
                else:
                    p['desc'] = 'unsupported' if 'unsupported' in dsc else dsc
            return p

        def record(st, op, d, reads_before, reads_after, val=None, exc=None, cx='plain'):
            e = {'op': op, 'd': d, 'cx': cx, 'out': 'val', 'ek': 'none', 'status': 0, 'same': False, 'eq': False, 'errsame': False,
                 'touched': reads_after > reads_before, 'nparse': h.s.loads, 'info': '', 'psame': True, 'p': dict(NOPROJ)}
            st.last_exc = exc
            if exc is not None:
                if isinstance(exc, (falcon.HTTPError, HookBoom, CustomBoom)):
                    if isinstance(exc, falcon.HTTPError):
                        e['out'], e['ek'] = 'err', classify(exc)
                        e['status'] = int(str(exc.status)[:3])
                    else:
                        # the handler's own failure: not an HTTP error, reaches the client as a 500
                        e['out'], e['ek'], e['status'] = 'err', 'custom', 500
                    e['errsame'] = st.first_err is None or exc is st.first_err
                    e['p'] = read_proj(exc)
                    if e['ek'] != 'unsupported':
                        obs = observe(exc)
                        if st.first_err is None:
                            st.first_obs = obs
                        e['psame'] = obs == st.first_obs
                        if not e['psame']:
                            e['info'] = 'first raise showed %r, this one %r' % (
                                {k: v for k, v in st.first_obs.items() if obs.get(k) != v}, {k: v for k, v in obs.items() if st.first_obs.get(k) != v})
                    if st.first_err is None and e['ek'] != 'unsupported':
                        st.first_err = exc
                else:
                    e['out'], e['info'] = 'exc', repr(exc)
            elif d and val is DEFAULT:
                e['out'] = 'dflt'
            else:
                if not st.have_val:
                    st.have_val, st.first_val = True, val
                    h.s.first_value = val
                e['same'] = val is st.first_val
                e['eq'] = h.s.has_expect and strict_eq(val, h.s.expect)
                if not e['eq']:
                    try:
                        e['info'] = repr(val)[:200]
                    except ValueError:          # an int beyond the int->str conversion limit
                        e['info'] = '<%s not printable>' % type(val).__name__
            h.s.events.append(e)

        # ---- one site of a request's life (middleware / responder / error handler) makes its accesses --------
        def w_access(req, op, d, cx):
            if cx == 'except':
                try:
                    raise LookupError('an unrelated failure that is being handled')
                except LookupError:
                    return req.media if op == 'media' else (req.get_media(default_when_empty=DEFAULT) if d else req.get_media())
            return req.media if op == 'media' else (req.get_media(default_when_empty=DEFAULT) if d else req.get_media())

        def w_site(req, calls):
            st, inp, i = h.s.st, req.env['wsgi.input'], 0
            h.s.attempted += len(calls)
            while i < len(calls):
                op, d, cx = calls[i]
                cx = 'plain' if cx == 'exceptself' else cx        # nothing is being handled here
                i += 1
                b = len(inp.calls)
                try:
                    v = w_access(req, op, d, cx)
                except Exception as ex:  # noqa
                    record(st, op, d, b, len(inp.calls), exc=ex, cx=cx)
                    # accesses made while the error just raised is being handled
                    while i < len(calls) and calls[i][2] == 'exceptself':
                        op2, d2, _ = calls[i]
                        i += 1
                        b = len(inp.calls)
                        try:
                            v2 = w_access(req, op2, d2, 'exceptself')
                        except Exception as ex2:  # noqa
                            record(st, op2, d2, b, len(inp.calls), exc=ex2, cx='exceptself')
                        else:
                            record(st, op2, d2, b, len(inp.calls), val=v2, cx='exceptself')
                else:
                    record(st, op, d, b, len(inp.calls), val=v, cx=cx)

        async def a_access(req, op, d, cx):
            if cx == 'except':
                try:
                    raise LookupError('an unrelated failure that is being handled')
                except LookupError:
                    return (await req.media) if op == 'media' else \
                        (await req.get_media(default_when_empty=DEFAULT) if d else await req.get_media())
            return (await req.media) if op == 'media' else (await req.get_media(default_when_empty=DEFAULT) if d else await req.get_media())

        async def a_site(req, calls):
            st, i = h.s.st, 0
            h.s.attempted += len(calls)
            while i < len(calls):
                op, d, cx = calls[i]
                cx = 'plain' if cx == 'exceptself' else cx
                i += 1
                b = h.reads
                try:
                    v = await a_access(req, op, d, cx)
                except Exception as ex:  # noqa
                    record(st, op, d, b, h.reads, exc=ex, cx=cx)
                    while i < len(calls) and calls[i][2] == 'exceptself':
                        op2, d2, _ = calls[i]
                        i += 1
                        b = h.reads
                        try:
                            v2 = await a_access(req, op2, d2, 'exceptself')
                        except Exception as ex2:  # noqa
                            record(st, op2, d2, b, h.reads, exc=ex2, cx='exceptself')
                        else:
                            record(st, op2, d2, b, h.reads, val=v2, cx='exceptself')
                else:
                    record(st, op, d, b, h.reads, val=v, cx=cx)

        self.begin = begin

        class WProbe:
            """a middleware that looks at the media before the responder does (and swallows what that raises)"""
            def process_request(self, req, resp):
                if req.method == 'POST':
                    w_site(req, [c for c in h.s.calls if c[2] == 'mw'])

        class AProbe:
            async def process_request(self, req, resp):
                if req.method == 'POST':
                    await a_site(req, [c for c in h.s.calls if c[2] == 'mw'])

        def w_errh(req, resp, ex, params):
            """an error handler that looks at the media again, then lets falcon render the error it was given"""
            w_site(req, [c for c in h.s.calls if c[2] == 'errh'])
            if isinstance(ex, falcon.HTTPError):
                raise ex
            resp.status, resp.text = 500, 'the handler failed'

        async def a_errh(req, resp, ex, params):
            await a_site(req, [c for c in h.s.calls if c[2] == 'errh'])
            if isinstance(ex, falcon.HTTPError):
                raise ex
            resp.status, resp.text = 500, 'the handler failed'

        class WRes:
            def on_get(self, req, resp):
                if h.s.ctype is not None:
                    resp.content_type = h.s.ctype
                resp.media = h.s.doc

            def on_post(self, req, resp):
                w_site(req, [c for c in h.s.calls if c[2] not in ('mw', 'errh')])
                st = h.s.st
                if st.last_exc is not None and h.s.reraise:
                    h.s.propagated = st.last_exc
                    raise st.last_exc
                resp.text = 'done'

        class ARes:
            async def on_get(self, req, resp):
                if h.s.ctype is not None:
                    resp.content_type = h.s.ctype
                resp.media = h.s.doc

            async def on_post(self, req, resp):
                await a_site(req, [c for c in h.s.calls if c[2] not in ('mw', 'errh')])
                st = h.s.st
                if st.last_exc is not None and h.s.reraise:
                    h.s.propagated = st.last_exc
                    raise st.last_exc
                resp.text = 'done'

        class WResp:
            def on_get(self, req, resp):
                h.rs.start(resp)
                for op in h.rs.ops:
                    body = h.rs.step(resp, op)
                    if op == 'render':
                        h.rs.rendered(resp.render_body())

        class AResp:
            async def on_get(self, req, resp):
                h.rs.start(resp)
                for op in h.rs.ops:
                    h.rs.step(resp, op)
                    if op == 'render':
                        h.rs.rendered(await resp.render_body())

        self.rs = None
        self.reads = 0

        class CustomResponse(falcon.Response):
            """response_type=...: a trivial subclass"""

        class CustomAResponse(falcon.asgi.Response):
            """response_type=...: a trivial subclass (the ASGI app then awaits render_body() itself)"""

        def wrap(inner):
            async def aapp(scope, receive, send):
                async def recv():
                    h.reads += 1
                    return await receive()
                await inner(scope, recv, send)
            return aapp
        self.apps = {}
        for custom in (False, True, 'sites'):
            if custom == 'sites':
                # the request's other sites: a probing middleware in front, an error handler behind the responder
                wapp, ainner = falcon.App(middleware=[WProbe()]), falcon.asgi.App(middleware=[AProbe()])
                for etype in (Exception, falcon.HTTPError):
                    wapp.add_error_handler(etype, w_errh)
                    ainner.add_error_handler(etype, a_errh)
            else:
                wapp = falcon.App(response_type=CustomResponse) if custom else falcon.App()
                ainner = falcon.asgi.App(response_type=CustomAResponse) if custom else falcon.asgi.App()
            for app in (wapp, ainner):
                for opts in (app.req_options, app.resp_options):
                    opts.media_handlers[falcon.MEDIA_JSON] = media.JSONHandler(loads=loads)
                    opts.media_handlers['application/vnd.api+json'] = media.JSONHandler(loads=loads)
                    opts.media_handlers['application/x-subjson'] = SubJSON(loads=loads)
                    opts.media_handlers['application/x-custom'] = CustomHandler()
            wapp.add_route('/m', WRes())
            ainner.add_route('/m', ARes())
            wapp.add_route('/r', WResp())
            ainner.add_route('/r', AResp())
            self.apps[('wsgi', custom)] = wapp
            self.apps[('asgi', custom)] = wrap(ainner)

    def call(self, stack, req, custom=False):
        app = self.apps[(stack, custom if custom == 'sites' else bool(custom))]
        res = drivers.wsgi_call(app, req) if stack == 'wsgi' else drivers.asgi_call(app, req)
        if res.errors:
            raise MachineryError('protocol monitor: %r' % (res.errors,))
        return res

    def render(self, stack, ctype, doc, custom=False):
        """resp.media = doc on a real app -> (body, Content-Type sent).  resp.media = None means
        "no media", so the body of the document null is written down directly."""
        if doc is None:
            return b'null', ctype or 'application/json', None
        self.s = Script()
        self.s.doc, self.s.ctype = doc, ctype
        res = self.call(stack, drivers.Req('GET', target=b'/m'), custom)
        if res.exc is not None or res.status != 200:
            return None, None, 'rendering failed: status %r exc %r body %r' % (res.status, res.exc, res.body[:100])
        return res.body, res.header('content-type'), None

    def request(self, stack, ctype, body, chunks, calls, expect=None, has_expect=False, reraise=True, framing='length', custom=False):
        """framing: how the request declares its body - 'length' an explicit Content-Length (0 for an empty body), 'chunked'
        Transfer-Encoding: chunked, 'absent' neither header, 'blank' a Content-Length header with a blank value."""
        self.s = Script()
        calls = [tuple(c) if len(c) == 3 else (c[0], c[1], 'plain') for c in calls]
        if any(c[2] in ('mw', 'errh') for c in calls):
            custom = 'sites'
        self.s.calls, self.s.expect, self.s.has_expect, self.s.reraise = calls, expect, has_expect, reraise
        self.s.st = self.begin()
        hs = [] if ctype is None else [('Content-Type', ctype)]
        if framing == 'chunked':
            # no Content-Length: the body ends when the server says so
            if stack != 'asgi':
                raise MachineryError('chunked framing is only expressible on ASGI here')
            hs.append(('Transfer-Encoding', 'chunked'))
        elif framing == 'length':
            hs.append(('Content-Length', str(len(body))))
        elif framing in ('absent', 'blank'):
            if body:
                raise MachineryError('a request that declares no body has none')
            if framing == 'blank':
                hs.append(('Content-Length', ''))
        else:
            raise MachineryError('unknown framing %r' % (framing,))
        res = self.call(stack, drivers.Req('POST', target=b'/m', headers=hs, body=body, chunks=chunks), custom)
        evs = self.s.events
        wire = -1
        if res.exc is not None:
            wire = 599
        elif evs and evs[-1]['out'] in ('err', 'exc') and reraise:
            wire = res.status
        elif res.status != 200:
            wire = res.status
        # what the client was shown, against the snapshot of the first error
        self.wirebody = 'na'
        st = self.s.st
        if self.s.propagated is not None and isinstance(self.s.propagated, self.falcon.HTTPError) and st.first_obs is not None \
                and 'doc' in st.first_obs and res.exc is None:
            try:
                shown = json.dumps(json.loads(res.body.decode('utf-8')), sort_keys=True)
            except ValueError:
                shown = repr(res.body)
            self.wirebody = 'same' if shown == st.first_obs['doc'] else 'diff'
            self.wireinfo = 'client got %s, the first error renders as %s' % (shown[:300], st.first_obs['doc'][:300])
        return evs, wire


# ---- response-side histories (MediaCacheResp) --------------------------------------------------
class RespScript:
    """Statements made on one Response.  Every document carries its version number, so the trusted
    decoder can tell which version a body is a rendering of; a snapshot is taken at every assignment."""

    def __init__(self, ops, kind):
        self.ops, self.kind = list(ops), kind        # kind: 'dict' | 'list' | 'form' | 'falsy'
        self.ver = 0
        self.snap = {}
        self.events = []

    def start(self, resp):
        if self.kind == 'form':
            resp.content_type = 'application/x-www-form-urlencoded'

    FALSY = ([], {}, 0, False, '', 0.0)     # documents like any other; version v is FALSY[v - 1] (at most 6 versions)

    def make(self, v):
        if self.kind == 'falsy':
            import copy
            if v > len(self.FALSY):
                raise MachineryError('falsy response histories have at most %d versions' % len(self.FALSY))
            return copy.deepcopy(self.FALSY[v - 1])
        if self.kind == 'dict':
            return {'ver': v, 'items': [v, 'é\U0001F600'], 'n': None, 'nested': {'k': [v]}}
        if self.kind == 'list':
            return [v, {'k': 'v"\\'}, [v]]
        return {'ver': str(v), 'k': 'x y&z=%', 'l': ['1', str(v)]}

    def mutate(self, d, v):
        if self.kind == 'falsy':
            raise MachineryError('a falsy document cannot be mutated in place and stay falsy')
        if self.kind == 'dict':
            d['ver'] = v
            d['items'].append(v)
            d['nested']['k'][0] = v
            d['added%d' % v] = True
        elif self.kind == 'list':
            d[0] = v
            d[2].append(v)
            d.append('v%d' % v)
        else:
            d['ver'] = str(v)
            d['l'].append(str(v))
            d['added%d' % v] = 'y'

    def step(self, resp, op):
        import copy
        e = {'op': op, 'kind': 'none', 'v': 0}
        if op == 'new':
            self.ver += 1
            d = self.make(self.ver)
            resp.media = d
            self.snap[self.ver] = copy.deepcopy(d)
            e['v'] = self.ver
        elif op == 'mutsame':
            self.ver += 1
            d = resp.media
            self.mutate(d, self.ver)
            resp.media = d
            self.snap[self.ver] = copy.deepcopy(d)
            e['v'] = self.ver
        elif op == 'same':
            resp.media = resp.media
        elif op == 'none':
            resp.media = None
        elif op == 'setdata':
            resp.data = b'DATA'
        elif op == 'cleardata':
            resp.data = None
        elif op == 'settext':
            resp.text = 'TEXT'
        elif op == 'cleartext':
            resp.text = None
        elif op != 'render':
            raise MachineryError('unknown response statement %r' % (op,))
        self.events.append(e)

    def rendered(self, body):
        self.events[-1]['kind'], self.events[-1]['v'] = self.read(body)

    def read(self, body):
        """trusted reading of a body: which kind, and for media which version"""
        import urllib.parse
        if body is None or body == b'':
            return 'none', 0
        if body == b'TEXT':
            return 'text', 0
        if body == b'DATA':
            return 'data', 0
        try:
            if self.kind == 'form':
                return 'media', int(urllib.parse.parse_qs(body.decode('ascii'))['ver'][0])
            d = json.loads(body.decode('utf-8'))
            if self.kind == 'falsy':
                return 'media', [i + 1 for i, f in enumerate(self.FALSY) if strict_eq(f, d)][0]
            return 'media', int(d['ver'] if self.kind == 'dict' else d[0])
        except Exception:  # noqa
            return 'garbled', -1


def run_response(H, stack, ops, kind, custom=False):
    """-> (events, sent [kind, v], eq): one GET whose responder makes the statements; the body that reached the
    client is read with the trusted decoder and, if it is media, sent back as a request on the other stack."""
    rs = H.rs = RespScript(ops, kind)
    res = H.call(stack, drivers.Req('GET', target=b'/r'), custom)
    if res.exc is not None or res.status != 200:
        return rs.events, {'kind': 'failed', 'v': res.status or 0}, False, 'status %r exc %r' % (res.status, res.exc)
    k, v = rs.read(res.body)
    eq = True
    info = ''
    if k == 'media':
        other = 'asgi' if stack == 'wsgi' else 'wsgi'
        evs, wire = H.request(other, res.header('content-type'), res.body, [3] if other == 'asgi' else None, [('get', False)],
                              rs.snap.get(v), v in rs.snap)
        eq = bool(evs) and evs[0]['out'] == 'val' and evs[0]['eq']
        info = '' if eq else 'sent %r, snapshot %r' % (res.body[:200], rs.snap.get(v))
    return rs.events, {'kind': k, 'v': v}, eq, info


# ---- form media: everything urlencode(doseq=True) accepts (MediaCacheForm) --------------------------
FORM_CATS = {
    0: ['a', 'hello', 'A-Z_z.~', 'v'],
    1: ['a b', 'x&y=z', '1+1=2', '100%', 'a,b,c', '%41', 'q?#/;:@'],
    2: [''],
    3: ['é', '漢字', 'Ж'],
    4: ['\U0001F600', 'a\U00010348'],
    5: [0, 7, -12, 10 ** 20],
    6: [True, False],
    7: [b'raw', 'café'.encode('utf-8'), b'a b&c=d'],
    8: [0.5, -1.25, 1e-07, 3.0],
}
FORM_NAMES = ['n1', 'a b&=', 'é', 7, b'bk', 'x', 'Name', '%zz', 1.5]


def form_text(v):
    """trusted reading of what one scalar is on the wire: bytes as they are, everything else str()"""
    return v.decode('utf-8') if isinstance(v, bytes) else str(v)


def build_form(media, scal, names):
    """abstract media (MediaCacheForm) -> the Python object handed to resp.media"""
    items = []
    for it in media['items']:
        v = it['v']
        xs = [scal[x] for x in v['items']]
        items.append((names[it['n']], xs[0] if v['k'] == 's' else list(xs) if v['k'] == 'l' else tuple(xs)))
    return dict(items) if media['form'] == 'dict' else items


def form_expected(back, scal, names):
    return {form_text(names[e['n']]): (form_text(scal[e['xs'][0]]) if len(e['xs']) == 1 else [form_text(scal[x]) for x in e['xs']])
            for e in back}


def form_roundtrip(H, rng, media, scal, names, i):
    """-> (out, value read back, info): rendered by a real app, read back on the other stack"""
    obj = build_form(media, scal, names)
    rstack = ('wsgi', 'asgi')[i % 2]
    qstack = ('wsgi', 'asgi')[(i // 2) % 2]
    ct = ('application/x-www-form-urlencoded', 'application/x-www-form-urlencoded; charset=utf-8')[(i // 4) % 2]
    body, sct, err = H.render(rstack, ct, obj, custom=(i // 8) % 2)
    if err:
        return 'renderfail', None, '%s: %s' % (rstack, err), obj
    framing = 'chunked' if qstack == 'asgi' and i % 3 == 0 else 'length'
    evs, wire = H.request(qstack, sct, body, [5] if qstack == 'asgi' else None, [('get', False), ('media', False)], framing=framing)
    H.last_form_body = body
    if len(evs) != 2 or evs[0]['out'] != 'val' or not evs[1]['same']:
        return 'readfail', None, 'read back on %s: %r (wire %s) body %r' % (qstack, [(e['out'], e['ek'], e['info']) for e in evs], wire, body[:200]), obj
    return 'ok', H.s.first_value, 'body %r' % (body[:300],), obj


def leg_form(ctx, H):
    rng = ctx.rng
    # ---- M + A: every media of the bound, TLC says what is read back
    r = ctx.tlc('MC_MediaCacheForm', 'MC_MediaCacheForm.cfg', coverage=True, timeout=600, workers=4)
    ctx.require_coverage(r, ['Serialize', 'Deserialize'])
    cases = [j for j in r.json if 'media' in j]
    if len(cases) != 3393:
        raise MachineryError('form cases incomplete: %d' % len(cases))
    for i, c in enumerate(cases):
        scal = {cat: rng.choice(vals) for cat, vals in FORM_CATS.items()}
        names = dict(zip((1, 2), rng.sample(FORM_NAMES, 2)))
        out, got, info, obj = form_roundtrip(H, rng, c['media'], scal, names, i)
        want = form_expected(c['back'], scal, names)
        case = {'leg': 'form-A', 'media': repr(obj), 'abstract': c['media'], 'expected': want}
        ctx.case(case, nontrivial=True, key=('form', i))
        if out != 'ok':
            ctx.violation('P:exc', case, 'documented form media failed (%s): %s' % (out, info))
        elif not strict_eq(got, want):
            ctx.violation('P:form', case, 'read back %r, expected %r; %s' % (got, want, info))
    ctx.traces_validated += len(cases)
    # ---- B: random bigger medias, judged by TLC
    traces, infos = [], []
    for i in range(ctx.pick(400, 12000)):
        table, texts = [], {}

        def sid(v):
            t = form_text(v)
            if t not in texts:
                texts[t] = len(table)
                table.append(v)
            elif type(table[texts[t]]) is not type(v):
                return sid(t + '~')         # 7 and '7' read back alike: keep the table's texts distinct per id
            return texts[t]
        nn = rng.randint(1, 4)
        nms = dict(zip(range(1, nn + 1), rng.sample(FORM_NAMES, nn)))
        pairs = rng.random() < 0.5
        items = []
        for k in range(rng.randint(0, 5)):
            n = rng.randint(1, nn) if pairs else k + 1
            if n > nn:
                break
            kind = rng.choice('ssslt')
            xs = [sid(rng.choice(FORM_CATS[rng.randrange(9)])) for _ in range(1 if kind == 's' else rng.randint(0, 4))]
            items.append({'n': n, 'v': {'k': kind, 'items': xs}})
        media = {'form': 'pairs' if pairs else 'dict', 'items': items}
        scal = dict(enumerate(table))
        out, got, info, obj = form_roundtrip(H, rng, media, scal, nms, i)
        back, single = [], []
        if out == 'ok':
            if not isinstance(got, dict):
                out = 'readfail'
            else:
                rn = {form_text(v): k for k, v in nms.items()}
                for k, v in got.items():
                    vs = v if isinstance(v, list) else [v]
                    back.append({'n': rn.get(k, -1), 'xs': [texts.get(x, -1) if isinstance(x, str) else -2 for x in vs]})
                    single.append(not isinstance(v, list))
        ctx.case({'leg': 'form-B', 'media': repr(obj)}, nontrivial=True, key=('formb', i))
        traces.append({'media': media, 'out': out, 'back': back, 'single': single})
        infos.append({'leg': 'form-B', 'media': repr(obj), 'abstract': media, 'read_back': repr(got), 'info': info})
    verdicts = ctx.judge('MediaCacheFormTrace', traces, timeout=900, chunk=4000)
    for case, v in zip(infos, verdicts):
        if v != 'ok':
            ctx.violation(v.split('@')[0], case, 'form round trip judged %s: media %s read back %s; %s' % (v, case['media'], case['read_back'], case['info']))
    ctx.extra['form_medias'] = len(cases)
    ctx.extra['random_form_medias'] = len(traces)
    ctx.progress('form legs done: %d medias, %d random' % (len(cases), len(traces)))


# ---- across requests: FreshPerRequest (MediaCacheFresh) ------------------------------------------------
FRESH_KINDS = {
    # handler kind -> (content type, documents by payload id)
    'json': ('application/json', {1: {'token': 'abc', 'tags': ['x', 'y'], 'n': {'k': [1]}}, 2: [1, {'a': ['b']}, 'caf\u00e9'], 3: {'only': []}}),
    'subjson': ('application/x-subjson', {1: {'t': ['p'], 'u': 'v'}, 2: [[0], 'w'], 3: {'z': {'y': 1}}}),
    'custom': ('application/x-custom', {1: {'c': [1, 2], 'd': 'e'}, 2: [{'f': 'g'}, 2], 3: {'h': [None]}}),
    'form': ('application/x-www-form-urlencoded', {1: {'token': 'abc', 'tags': ['x', 'y'], 'k': 'v'}, 2: {'a': ['1', '2'], 'b': '\u00e9'},
                                                   3: {'q': 's t', 'r': ['u', 'v', 'w']}}),
}


def edit_in_place(obj, n):
    """what a responder may do to the media it was given: pop / insert a key, append to a list"""
    if isinstance(obj, dict):
        if obj:
            k = next(iter(obj))
            v = obj.pop(k)
            if isinstance(v, list):
                v.append('edited%d' % n)
        obj['edited%d' % n] = 'x'
        for v in obj.values():
            if isinstance(v, list):
                v.append('tail%d' % n)
    elif isinstance(obj, list):
        for v in obj:
            if isinstance(v, (list, dict)):
                edit_in_place(v, n)
        obj.append('edited%d' % n)


def run_fresh_history(H, kind, events, route):
    """events: [('get', p) | ('edit', r)]; route(i) -> (stack, custom app?) of the i-th request.
    -> logged events [op, p / r, fresh, eq] and infos"""
    import copy
    ct, docs = FRESH_KINDS[kind]
    kept, out, infos = [], [], []
    for i, (op, x) in enumerate(events):
        if op == 'edit':
            edit_in_place(kept[x - 1], i)
            out.append({'op': 'edit', 'r': x, 'p': 0, 'fresh': True, 'eq': True})
            infos.append('')
            continue
        stack, custom = route(len(kept))
        body = H.fresh_bodies[(kind, x)]
        evs, wire = H.request(stack, ct, body, [4] if stack == 'asgi' else None, [('get', False), ('media', False)],
                              copy.deepcopy(docs[x]), True, custom=custom)
        if len(evs) != 2 or evs[0]['out'] != 'val':
            out.append({'op': 'get', 'r': 0, 'p': x, 'fresh': False, 'eq': False})
            infos.append('request %d on %s failed: %r wire %s' % (len(kept) + 1, stack, [(e['out'], e['ek'], e['info']) for e in evs], wire))
            kept.append(object())
            continue
        obj = H.s.first_value
        out.append({'op': 'get', 'r': 0, 'p': x, 'fresh': all(obj is not k for k in kept), 'eq': bool(evs[0]['eq'])})
        infos.append('%s%s got %s' % (stack, '/custom-response' if custom else '', evs[0]['info'] or 'the document'))
        kept.append(obj)
    return out, infos


def leg_fresh(ctx, H):
    rng = ctx.rng
    r = ctx.tlc('MC_MediaCacheFresh', 'MC_MediaCacheFresh.cfg', coverage=True, timeout=300, workers=4)
    ctx.require_coverage(r, ['XRequest', 'XEdit'])
    rw = ctx.tlc('MC_MediaCacheFresh', 'MC_MediaCacheFreshW.cfg', must_hold=False, count=False, timeout=300, workers=2)
    if not rw.violated:
        raise MachineryError('wrong-design switch Memoised=TRUE did not violate FreshPerRequest')
    # the bodies: what a real app renders from the documents (the same bytes every time a payload is sent)
    H.fresh_bodies = {}
    for kind, (ct, docs) in FRESH_KINDS.items():
        for p, d in docs.items():
            body, sct, err = H.render('wsgi', ct, d)
            if err:
                raise MachineryError('cannot render payload %r: %s' % (d, err))
            H.fresh_bodies[(kind, p)] = body
    ra = ctx.tlc('MC_MediaCacheFresh', 'MC_MediaCacheFreshA.cfg', timeout=300, workers=4, count=False)
    behs = list({digest(j): j for j in ra.json if 'ev' in j}.values())
    if len(behs) < 400:
        raise MachineryError('fresh behaviours incomplete: %d' % len(behs))
    routes = [lambda i: (('wsgi', 'asgi')[i % 2], False), lambda i: (('asgi', 'wsgi')[i % 2], i % 3 == 0),
              lambda i: ('wsgi', i % 2 == 1), lambda i: ('asgi', i % 2 == 0)]
    n = 0
    for bi, b in enumerate(behs):
        events = [('get', e['p']) if e['op'] == 'get' else ('edit', e['r']) for e in b['ev']]
        for ki, kind in enumerate(FRESH_KINDS):
            got, infos = run_fresh_history(H, kind, events, routes[(bi + ki) % 4])
            n += 1
            case = {'leg': 'fresh-A', 'handler': kind, 'events': events, 'route': (bi + ki) % 4}
            ctx.case(case, nontrivial=len(events) >= 2, key=('fresh', bi, kind))
            for i, (g, w) in enumerate(zip(got, b['ev'])):
                if g['op'] != 'get':
                    continue
                if g['fresh'] != w['fresh']:
                    ctx.violation('P:shared', dict(case, step=i + 1), 'request %d was handed an object an earlier request holds (%s)' % (i + 1, infos[i]))
                    break
                if g['eq'] != w['eq']:
                    ctx.violation('P:stale', dict(case, step=i + 1), 'media of request %d is not the decoding of its body: %s' % (i + 1, infos[i]))
                    break
    ctx.traces_validated += n
    # ---- B: longer random histories
    traces, cases = [], []
    for i in range(ctx.pick(300, 8000)):
        kind = rng.choice(list(FRESH_KINDS))
        events, nreq = [], 0
        for _ in range(rng.randint(2, 12)):
            if nreq and rng.random() < 0.4:
                events.append(('edit', rng.randint(1, nreq)))
            else:
                events.append(('get', rng.choice((1, 1, 2, 3))))
                nreq += 1
        choice = [(rng.choice(('wsgi', 'asgi')), rng.random() < 0.5) for _ in range(nreq + 1)]
        got, infos = run_fresh_history(H, kind, events, lambda k: choice[k])
        ctx.case({'leg': 'fresh-B', 'handler': kind, 'events': events}, nontrivial=True, key=('freshb', i))
        traces.append({'ev': got})
        cases.append({'leg': 'fresh-B', 'handler': kind, 'events': events, 'route': choice, 'infos': infos})
    verdicts = ctx.judge('MediaCacheFreshTrace', traces, timeout=900, chunk=4000)
    for case, v in zip(cases, verdicts):
        if v == 'ok':
            continue
        if v.startswith('H:'):
            raise MachineryError('harness produced an invalid fresh history: %s' % v)
        at = int(v.split('@')[1])
        ctx.violation(v.split('@')[0], case, 'history judged %s: %s' % (v, case['infos'][at - 1] if at else ''))
    ctx.extra['fresh_histories'] = n
    ctx.extra['random_fresh_histories'] = len(traces)
    ctx.progress('fresh legs done: %d histories, %d random' % (n, len(traces)))


# ---- leg P: access contexts and the observed error (MC_MediaCache instance P) -------------------------
P_DOCS = {'json': [{'k': [1, 'caf\u00e9'], 'n': None}, [1, {'a': 'b'}, 'x'], {'deep': {'er': [True, 2.5]}}],
          'form': [{'a': '1', 'b': ['x', 'y']}, {'q': 's t'}, {'n': '\u00e9', 'm': ['1', '2', '3']}]}


def leg_p(ctx, H):
    """TLC behaviours of instance P: accesses made by a middleware, by the responder (plain, inside an except block for an
    unrelated exception, inside the except block of the media error itself) and by an error handler."""
    rng = ctx.rng
    if ctx.quick:
        rp = ctx.tlc('MC_MediaCache', 'MC_MediaCachePS.cfg', coverage=True, timeout=300, workers=4, count=False,
                     simulate={'num': 260}, depth=6, seed=ctx.seed % 100000 + 1)
        need = 1500
    else:
        rp = ctx.tlc('MC_MediaCache', 'MC_MediaCacheP.cfg', coverage=True, timeout=900, workers=4, count=False)
        need = 97599
    ctx.require_coverage(rp, ['PMiddleware', 'PResponder', 'PInExcept', 'PInExceptSelf', 'PErrorHandler'])
    behs = list({digest(j): j for j in rp.json if 'ev' in j}.values())
    if not ctx.quick:
        rs = ctx.tlc('MC_MediaCache', 'MC_MediaCachePS.cfg', timeout=600, workers=4, count=False, simulate={'num': 3000}, depth=6,
                     seed=ctx.seed % 100000 + 1)
        behs += list({digest(j): j for j in rs.json if 'ev' in j}.values())
    if len(behs) < need:
        raise MachineryError('context behaviours incomplete: %d' % len(behs))
    behs.sort(key=digest)
    rendered = {}
    n = 0
    for bi, b in enumerate(behs):
        stack, ctk, handler, bk, framing = b['stack'], b['ctype'], b['handler'], b['body'], b['framing']
        ctype = ct_of(ctk, bi)
        doc = P_DOCS['form' if handler == 'form' else 'json'][bi % 3]
        if bk == 'hookfail':
            doc = boomify(doc, rng)
        key = (handler == 'form', bi % 3) if bk != 'hookfail' else None
        if key in rendered:
            sbody = rendered[key]
        else:
            sbody, sct, err = H.render(('wsgi', 'asgi')[bi % 2], ctype if handler == 'form' else 'application/json', doc)
            if err:
                raise MachineryError('cannot render %r: %s' % (doc, err))
            if key is not None:
                rendered[key] = sbody
        expect, has_expect = None, False
        if bk == 'empty':
            body = b''
            if handler == 'form':
                expect, has_expect = {}, True
        elif bk == 'valid':
            body, expect, has_expect = sbody, doc, True
        elif bk == 'truncated':
            body = truncate_json(sbody, rng)
        elif bk == 'blank':
            body = BLANKS[bi % len(BLANKS)]
        elif bk == 'hookfail':
            body = sbody
        else:
            body = badenc_form(sbody, rng) if handler == 'form' else badenc_json(sbody, rng)
        calls = [(w['op'], w['d'], w['cx']) for w in b['ev']]
        ch = rng.choice(chunkings(len(body), rng, 3, stack))
        case = {'leg': 'P', 'stack': stack, 'framing': framing, 'ctype': ctype, 'content_type': ctype, 'body_kind': bk, 'doc': doc,
                'body': list(body), 'chunks': ch, 'spec': b['ev']}
        evs, wire = H.request(stack, ctype, body, ch, calls, expect, has_expect, framing=framing)
        n += 1
        ctx.case(case, nontrivial=True, key=('P', bi))
        if len(evs) != len(calls) or [e['cx'] for e in evs] != [c[2] for c in calls]:
            ctx.violation('P:exc', case, 'the sites of the request did not make their accesses: %r of %r (wire %s)'
                          % ([(e['cx'], e['out'], e['info']) for e in evs], calls, wire))
            continue
        bad = False
        for i, (e, w) in enumerate(zip(evs, b['ev'])):
            if compare_access(ctx, e, w, dict(case, access=i + 1, event={k: v for k, v in e.items()}), i > 0, w['v'] in ('doc', 'empty')):
                bad = True
                break
        if not bad:
            check_wire(ctx, H, b['ev'], wire, case)
    ctx.traces_validated += n
    ctx.extra['context_behaviours'] = n
    ctx.progress('leg P done: %d behaviours with access contexts' % n)


RESP_KINDS = ('dict', 'falsy', 'list', 'form')


def leg_resp(ctx, H):
    rng = ctx.rng
    # ---- M: the design, and its wrong-design switch
    r = ctx.tlc('MC_MediaCacheResp', 'MC_MediaCacheResp.cfg', coverage=True, timeout=300, workers=4)
    ctx.require_coverage(r, ['XAssignNew', 'XMutateAssignSame', 'XAssignSame', 'XAssignNone', 'XRender', 'XSetData', 'XSetText'])
    rw = ctx.tlc('MC_MediaCacheResp', 'MC_MediaCacheRespW.cfg', must_hold=False, count=False, timeout=300, workers=2)
    if not rw.violated:
        raise MachineryError('wrong-design switch SetterInvalidates=FALSE did not violate any invariant')
    # ---- A: every behaviour of the bound, on both stacks
    ra = ctx.tlc('MC_MediaCacheResp', 'MC_MediaCacheRespA.cfg' if ctx.quick else 'MC_MediaCacheRespA5.cfg', timeout=600, workers=4, count=False)
    behs = list({digest(j): j for j in ra.json if 'ev' in j}.values())
    if len(behs) < (5900 if ctx.quick else 47000):
        raise MachineryError('response behaviours incomplete: %d' % len(behs))
    n = 0
    for bi, b in enumerate(behs):
        ops = [e['op'] for e in b['ev']]
        custom = b['rtype'] == 'custom'
        for si, stack in enumerate(('wsgi', 'asgi')):
            kind = RESP_KINDS[(bi // 2 + si) % 4]
            if kind == 'falsy' and 'mutsame' in ops:
                kind = 'dict'
            evs, sent, eq, info = run_response(H, stack, ops, kind, custom)
            n += 1
            case = {'leg': 'resp-A', 'stack': stack, 'response_type': b['rtype'], 'kind': kind, 'ops': ops, 'spec': b}
            ctx.case(case, nontrivial=len(ops) >= 2, key=('resp', bi, stack))
            if sent['kind'] == 'failed':
                ctx.violation('P:exc', case, 'response failed: %s' % info)
                continue
            bad = False
            for i, (e, w) in enumerate(zip(evs, b['ev'])):
                if w['op'] == 'render' and (e['kind'] != w['kind'] or (w['kind'] == 'media' and e['v'] != w['v'])):
                    ctx.violation('P:render', dict(case, step=i + 1), 'render_body() gave %s v%s, spec %s v%s' % (e['kind'], e['v'], w['kind'], w['v']))
                    bad = True
                    break
            if bad:
                continue
            w = b['sent']
            if sent['kind'] != w['kind'] or (w['kind'] == 'media' and sent['v'] != w['v']):
                ctx.violation('P:sent', case, 'the client got %s v%s; the document last assigned is %s v%s' % (sent['kind'], sent['v'], w['kind'], w['v']))
            elif not eq:
                ctx.violation('P:eq', case, 'the body does not deserialise to the document as assigned: %s' % info)
    ctx.traces_validated += n
    ctx.extra['response_behaviours'] = len(behs)
    # ---- B: longer random histories, judged by TLC
    traces, cases = [], []
    for i in range(ctx.pick(600, 20000)):
        ops, have = [], False
        for _ in range(rng.randint(3, 14)):
            u = rng.random()
            if u < 0.22:
                op = 'new'
            elif u < 0.42:
                op = 'mutsame' if have else 'new'
            elif u < 0.48:
                op = 'same' if have else 'render'
            elif u < 0.54:
                op = 'none'
            elif u < 0.80:
                op = 'render'
            else:
                op = rng.choice(('setdata', 'cleardata', 'settext', 'cleartext', 'cleardata', 'cleartext'))
            have = True if op in ('new', 'mutsame') else False if op == 'none' else have
            ops.append(op)
        if rng.random() < 0.7:
            ops += rng.choice((['cleardata', 'cleartext'], ['cleartext', 'cleardata', 'render']))
        stack, kind = ('wsgi', 'asgi')[i % 2], rng.choice(RESP_KINDS)
        if kind == 'falsy':
            if ops.count('new') + ops.count('mutsame') > 6:
                kind = 'list'
            else:
                ops = ['new' if o == 'mutsame' else o for o in ops]
        custom = (i // 2) % 2 == 1
        evs, sent, eq, info = run_response(H, stack, ops, kind, custom)
        case = {'leg': 'resp-B', 'stack': stack, 'response_type': 'custom' if custom else 'default', 'kind': kind, 'ops': ops}
        ctx.case(case, nontrivial=True, key=('respb', i))
        if sent['kind'] == 'failed':
            ctx.violation('P:exc', case, 'response failed: %s' % info)
            continue
        traces.append({'rtype': case['response_type'], 'ev': evs, 'sent': sent, 'eq': eq})
        cases.append(dict(case, events=evs, sent=sent, info=info))
    verdicts = ctx.judge('MediaCacheRespTrace', traces, timeout=900, chunk=4000)
    for case, v in zip(cases, verdicts):
        if v == 'ok':
            continue
        if v.startswith('H:'):
            raise MachineryError('harness produced an invalid response history: %s %r' % (v, case['ops']))
        ctx.violation(v.split('@')[0], case, 'response history judged %s: sent %r %s' % (v, case['sent'], case['info']))
    ctx.extra['random_response_histories'] = len(traces)
    ctx.progress('response legs done: %d behaviours x 2 stacks, %d random histories' % (len(behs), len(traces)))


# ---- bodies ------------------------------------------------------------------------------------
def trusted_json(body):
    """(valid, value) by the trusted decoders"""
    try:
        return True, json.loads(body.decode('utf-8'))
    except (ValueError, RecursionError):
        return False, None


def has_special_float(v):
    if isinstance(v, float):
        return v != v or v in (float('inf'), float('-inf'))
    if isinstance(v, list):
        return any(has_special_float(x) for x in v)
    if isinstance(v, dict):
        return any(has_special_float(x) for x in v.values())
    return False


def boomify(doc, rng):
    """a document on which the handlers of this harness fail with their own exception"""
    return rng.choice(({'a': doc, '__boom__': 1}, [doc, {'x': {'__boom__': []}}], {'outer': [{'__boom__': None}], 'd': doc}))


def truncate_json(body, rng):
    for _ in range(8):
        cut = body[:rng.randrange(0, len(body))] if len(body) > 1 else b''
        if cut and not trusted_json(cut)[0]:
            return cut
    return b'[' + body            # an unclosed array around it


def badenc_json(body, rng):
    text = body.decode('utf-8')
    cands = [text.encode('utf-16'), text.encode('utf-32'), b'\xff\xfe' + body, body[:len(body) // 2] + b'\x80' + body[len(body) // 2:],
             body + b'\xc3', ('"café ' + text.replace('"', '') + '"').encode('latin-1', 'replace'), b'\xef\xbb\xbf' + body]
    rng.shuffle(cands)
    for c in cands:
        if not trusted_json(c)[0]:
            return c
    raise MachineryError('no undecodable variant for %r' % (body,))


def badenc_form(body, rng):
    return rng.choice([body + b'\xff', b'caf\xc3\xa9=1&' + body, body[:len(body) // 2] + b'\x80' + body[len(body) // 2:],
                       'n=é'.encode('latin-1')])


def chunkings(n, rng, k, stack='asgi'):
    if stack == 'wsgi':
        return [None]        # a PEP 3333 wsgi.input is a blocking file-like: read(n) is never short before EOF
    out = [None]
    pool = [[1], [2], [3, 1], [n // 2] if n > 1 else [1], [max(1, n - 1)], [0, 1], [7], [n], [n + 5]]
    rng.shuffle(pool)
    for c in pool[:k - 1]:
        out.append(c)
    return out


# ---- comparing one access with the behaviour ----------------------------------------------------
def compare_access(ctx, e, w, case, first_parse_done, check_eq):
    """e: observed event, w: TLC's record.  Same clauses as MediaCacheTrace."""
    if e['out'] == 'exc':
        return ctx.violation('P:exc', case, 'a non-HTTP exception escaped get_media: %s' % e['info'])
    if e['out'] != w['out']:
        return ctx.violation('P:out', case, 'access %s(d=%s): spec %s/%s, falcon %s/%s %s' % (w['op'], w['d'], w['out'], w['ek'], e['out'], e['ek'], e['info']))
    if e['out'] == 'err' and e['ek'] != w['ek']:
        return ctx.violation('P:kind', case, 'error kind: spec %s, falcon %s' % (w['ek'], e['ek']))
    if e['out'] == 'err' and e['status'] != w['status']:
        return ctx.violation('P:status', case, 'status: spec %s, falcon %s' % (w['status'], e['status']))
    if e['out'] == 'val' and not e['same']:
        return ctx.violation('P:same', case, 'a later access returned a different object')
    if e['out'] == 'val' and check_eq and not e['eq']:
        return ctx.violation('P:eq', case, 'value differs from the document: %s' % e['info'])
    if e['touched'] and not w['touched']:
        return ctx.violation('P:touch', case, 'the body stream was read again')
    if e['nparse'] > 1:
        return ctx.violation('P:reparse', case, 'the handler parsed %d times' % e['nparse'])
    if e['out'] == 'err' and w['ek'] == 'custom' and not e['errsame']:
        return ctx.violation('P:errsame', case, "the handler's own exception was not re-raised as the same object")
    if e['out'] == 'err' and w['ek'] != 'unsupported' and not e['psame']:
        return ctx.violation('P:proj', case, 'a later access raised an error the application observes differently from the first one '
                             '(LaterAccessesObserveFirstError): %s' % e['info'])
    if e['out'] == 'err' and w['ek'] != 'unsupported' and not e['errsame']:
        ctx.detail('D:errid', case, 'equal error but a different exception object')
    if e['out'] == 'err' and w['ek'] in ('notfound', 'malformed') and e['p'] != w['p']:
        ctx.detail('D:projkind', case, 'the error is not what the handler documents: spec %r, observed %r' % (w['p'], e['p']))
    return False


EVKEYS = ('op', 'd', 'cx', 'out', 'ek', 'status', 'same', 'eq', 'errsame', 'touched', 'nparse', 'psame', 'p')


def check_wire(ctx, H, b_ev, wire, case):
    """the error that propagated: its status, and its rendering against the snapshot of the first error"""
    lw = b_ev[-1]
    if lw['out'] == 'err' and wire != lw['status']:
        return ctx.violation('P:wire', case, 'error reached the client as %s, spec says %s' % (wire, lw['status']))
    if lw['out'] == 'err' and lw['ek'] in ('notfound', 'malformed') and H.wirebody == 'diff':
        return ctx.violation('P:wirebody', case, 'the propagated error was rendered differently from the first error: %s' % H.wireinfo)
    return False


def run(ctx):
    rng = ctx.rng
    ctx.rule = ('case = (stack, content type, body bytes, chunking, access history); non-trivial iff >= 2 accesses or the body '
                'is not a valid serialisation; distinct by hash of the case')
    ctx.trusted_base = ['TLC evaluation of spec/MediaCache.tla', 'json.loads / bytes.decode as classifiers of byte strings',
                        'engine/drivers.py (PEP 3333 / ASGI drivers and protocol monitors)']
    ctx.assumptions = ['documents: JSON values without NaN/Infinity, lone surrogates, non-string keys, tuples; the body of a top-level '
                       'null is written directly as b"null" (resp.media = None means no media)',
                       'form mappings in the JSON-like legs: non-empty names -> str | list of >= 2 str; the form legs (MediaCacheForm) cover dicts and '
                       'sequences of pairs with str/int/bool/float/bytes scalars, lists and tuples, repeated names: read back as str() of '
                       'the scalars (bytes as UTF-8), one string for a name seen once, the list of strings otherwise',
                       'a handler failure that is not a media error (object_hook of JSONHandler(loads=...), a user handler class) is cached '
                       'like any other: identity of the re-raised exception is P there',
                       'Empty(body) is Len(body) = 0: whitespace-only JSON bodies are undecodable (400 malformed, no default), whitespace '
                       'around a document is still the document',
                       'content-type parameters (charset=ISO-8859-1/latin1/windows-1252/us-ascii/utf-16/hex/bogus, version, profile) never '
                       'change what is parsed; exercised with non-ASCII documents through JSONHandler (ASGI fast path) and a JSONHandler '
                       'subclass (deserialize / deserialize_async)',
                       'a request that declares no body (Content-Length: 0, blank, or no length header at all) has none; what an empty body '
                       'means is the handler\'s decision on every access (HandlerDecidesEmpty)',
                       '"the same error" = what an application observes: type, title, description, __cause__ (object and message), to_dict(), '
                       'the rendered error document; compared with a snapshot taken at the first raise (P:proj, P:wirebody); that the first '
                       'error is what the handler documents (title / parser message in the description / cause kind) is detail (D:projkind)',
                       'FreshPerRequest: identity is demanded for container documents (dict / list) only',
                       'every leg runs with the default Response classes and with response_type=<trivial subclass> on both stacks',
                       'whether the first access touches the stream for an empty body is not demanded; later accesses must not',
                       'identity of a re-raised cached error is model detail (D); its kind and status are demanded (P)',
                       'a 415 for an unsupported content type is raised before anything is cached (every access raises it anew)',
                       'chunkings are exercised on ASGI receive events (including empty events); a PEP 3333 wsgi.input is a '
                       'blocking file-like whose read(n) is never short before EOF (short raw reads are C07 territory)',
                       'truncated form bodies have no defined value: a mapping or a malformed error are both accepted (random leg only)']

    # ---- leg M ----------------------------------------------------------------------------------
    r = ctx.tlc('MC_MediaCache', 'MC_MediaCache.cfg', coverage=True, timeout=300, workers=4)
    ctx.require_coverage(r, ['XGetMedia', 'XGetMediaDefault', 'XMediaProperty'])
    for cfg in ('MC_MediaCacheW1.cfg', 'MC_MediaCacheW2.cfg', 'MC_MediaCacheW3.cfg', 'MC_MediaCacheW4.cfg'):
        rw = ctx.tlc('MC_MediaCache', cfg, must_hold=False, count=False, timeout=300, workers=2)
        if not rw.violated:
            raise MachineryError('wrong-design switch %s did not violate any invariant' % cfg)
    ctx.extra['wrong_design_switches_caught'] = 4
    ctx.exhaustive = True
    ctx.progress('leg M done')

    # ---- leg A ----------------------------------------------------------------------------------
    ra = ctx.tlc('MC_MediaCache', 'MC_MediaCacheA.cfg', timeout=600, workers=4, count=False)
    docs = [j['docs'] for j in ra.json if 'docs' in j][0]
    forms = [j['forms'] for j in ra.json if 'forms' in j][0]
    tops = [j['tops'] for j in ra.json if 'tops' in j][0]
    tops.sort(key=digest)
    topvals = [v for sh in tops for v in inst_all(sh)]       # null, false, true, 0, "", [], {}, ... every pool scalar
    behs = list({digest(j): j for j in ra.json if 'ev' in j}.values())
    # 3 declared framings x every content type x body kind, + absent / blank Content-Length (empty bodies only) on both stacks
    if len(behs) != (3 * (7 * 7 + 2 * 3 + 4) + 4 * 10) * 81 or len(docs) < 700 or len(forms) < 200 or len(tops) != 12:
        raise MachineryError('behaviour export incomplete: %d behaviours, %d docs, %d forms' % (len(behs), len(docs), len(forms)))
    docs.sort(key=digest)
    forms.sort(key=digest)
    H = Harness()
    nchunk = ctx.pick(3, 6)
    ndoc = nform = nvalid = 0
    replays = 0
    for bi, b in enumerate(behs):
        stack, ctk, handler, bk, framing = b['stack'], b['ctype'], b['handler'], b['body'], b['framing']
        ctype = ct_of(ctk, bi)
        other = 'asgi' if stack == 'wsgi' else 'wsgi'
        expect, has_expect = None, False
        # the document of this request and its serialisation by a real app (on the other stack)
        if handler == 'form':
            shape = forms[nform % len(forms)]
            nform += 1
            doc = inst_form(shape, rng)
            rstack, rct = other, ctype
        else:
            if handler == 'json' and bk == 'valid' and nvalid % 2 == 0:
                # every second valid JSON request carries a top-level scalar / empty container
                doc = topvals[(nvalid // 2) % len(topvals)]
            else:
                shape = docs[ndoc % len(docs)]
                ndoc += 1
                doc = inst_top(shape, rng)
            nvalid += handler == 'json' and bk == 'valid'
            rstack, rct = (other if bi % 3 else stack), (ctype if handler == 'json' else 'application/json')
        if ctk in ('json_params', 'subjson', 'json_charset'):
            doc = [doc, NONASCII]          # parameters must not matter: make sure there is something to get wrong
        if bk == 'hookfail':
            doc = boomify(doc, rng)
        sbody, sct, err = (b'', rct, None) if bk in ('empty', 'blank') else H.render(rstack, rct, doc, custom=bi % 2)
        case0 = {'leg': 'A', 'stack': stack, 'framing': framing, 'ctype': ctype, 'body_kind': bk, 'doc': doc, 'spec': b['ev']}
        if err:
            ctx.violation('P:serialize', case0, err)
            continue
        if bk == 'empty':
            body = b''
            if handler == 'form':
                expect, has_expect = {}, True
        elif bk == 'valid':
            body, expect, has_expect = sbody, doc, True
        elif bk == 'truncated':
            body = truncate_json(sbody, rng)
        elif bk == 'hookfail':
            body = sbody
        elif bk == 'blank':
            body = BLANKS[bi % len(BLANKS)]
        elif bk == 'padded':
            body, expect, has_expect = BLANKS[bi % len(BLANKS)] + sbody + BLANKS[(bi // 7) % len(BLANKS)], doc, True
        else:
            body = badenc_form(sbody, rng) if handler == 'form' else badenc_json(sbody, rng)
        # "the same content type": what the rendering app sent (unless this case is about another one)
        send_ct = ctype if (handler == 'none' or ctk == 'none' or bk not in ('valid', 'padded')) else sct
        calls = [(w['op'], w['d'], w['cx']) for w in b['ev']]
        for ch in chunkings(len(body), rng, nchunk, stack):
            case = dict(case0, body=list(body), chunks=ch, content_type=send_ct)
            evs, wire = H.request(stack, send_ct, body, ch, calls, expect, has_expect, framing=framing, custom=(bi // 2) % 2)
            replays += 1
            ctx.case(case, nontrivial=True, key=(bi, str(ch)))
            if len(evs) != len(calls):
                ctx.violation('P:exc', case, 'responder did not complete: %d of %d accesses (wire %s)' % (len(evs), len(calls), wire))
                continue
            bad = False
            for i, (e, w) in enumerate(zip(evs, b['ev'])):
                if compare_access(ctx, e, w, dict(case, access=i + 1, event=e), i > 0, w['v'] in ('doc', 'empty')):
                    bad = True
                    break
            if not bad:
                check_wire(ctx, H, b['ev'], wire, case)
    ctx.traces_validated += replays
    ctx.extra['behaviours_replayed'] = len(behs)
    ctx.extra['replays'] = replays
    ctx.extra['doc_shapes'] = len(docs)
    ctx.extra['form_shapes'] = len(forms)
    ctx.progress('leg A done: %d behaviours, %d requests' % (len(behs), replays))

    # ---- leg A2: every document / form shape round-trips, all chunkings for small bodies -----------
    nrt = 0
    items = [('top', v) for v in topvals] + [('doc', sh) for sh in docs] + [('form', sh) for sh in forms]
    for si, (kind, shape) in enumerate(items):
        isform = kind == 'form'
        for rep in range(4 if kind == 'top' else ctx.pick(1, 4)):
            doc = shape if kind == 'top' else inst_form(shape, rng) if isform else inst_top(shape, rng)
            # every top-level scalar / empty container is rendered on both stacks by the default and by a custom response_type
            rstack = ('wsgi', 'asgi')[rep % 2 if kind == 'top' else (si + rep) % 2]
            rcustom = bool(rep // 2) if kind == 'top' else bool((si // 3 + rep) % 2)
            qstack = ('wsgi', 'asgi')[(si // 2 + rep) % 2]
            ctk = rng.choice(('form', 'form_charset')) if isform else \
                rng.choice(('json', 'json_charset', 'vnd_json', 'none', 'json_params', 'subjson', 'json_params', 'subjson'))
            ctv = ct_of(ctk, si + rep)
            if ctk in ('json_params', 'subjson') and kind != 'top':
                doc = {'d': doc, NONASCII: [NONASCII]}
            sbody, sct, err = H.render(rstack, ctv, doc, custom=rcustom)
            framing = 'chunked' if qstack == 'asgi' and (si + rep) % 4 < 2 else 'length'
            case = {'leg': 'A-roundtrip', 'render_stack': rstack, 'render_custom_response_type': rcustom, 'stack': qstack, 'framing': framing, 'ctype': ctv, 'doc': doc}
            if err:
                ctx.violation('P:serialize', case, err)
                continue
            chs = chunkings(len(sbody), rng, ctx.pick(3, 6), qstack)
            for ch in chs:
                evs, wire = H.request(qstack, None if ctk == 'none' else sct, sbody, ch, [('get', False), ('media', False), ('get', True)],
                                      doc, True, framing=framing)
                nrt += 1
                c2 = dict(case, body=list(sbody), chunks=ch)
                ctx.case(c2, nontrivial=True, key=('rt', si, rep, str(ch)))
                for e in evs:
                    if e['out'] != 'val':
                        ctx.violation('P:out', dict(c2, event=e), 'valid body was not deserialised: %s %s %s' % (e['out'], e['ek'], e['info']))
                        break
                    if not e['eq']:
                        ctx.violation('P:eq', dict(c2, event=e), 'round trip changed the document: got %s' % e['info'])
                        break
                    if not e['same']:
                        ctx.violation('P:same', dict(c2, event=e), 'second access returned another object')
                        break
    ctx.traces_validated += nrt
    ctx.extra['roundtrips'] = nrt
    ctx.progress('leg A round trips done: %d' % nrt)

    leg_p(ctx, H)
    # ---- leg B ----------------------------------------------------------------------------------
    leg_b(ctx, H)
    leg_resp(ctx, H)
    leg_form(ctx, H)
    leg_fresh(ctx, H)
    probe_deep_nesting(ctx, H)


def rand_doc(rng, depth):
    u = rng.random()
    if depth == 0 or u < 0.35:
        c = rng.randrange(10)
        if rng.random() < 0.3:
            if c in (5, 6, 7, 9):       # a random string: any scalar values except surrogates
                return ''.join(chr(rng.choice((rng.randrange(0, 0x80), rng.randrange(0x80, 0xD800), rng.randrange(0xE000, 0x110000))))
                               for _ in range(rng.randint(0, 6)))
            if c in (2, 3):
                return rng.randrange(-10 ** 40, 10 ** 40) if c == 3 else rng.randrange(-1000, 1000)
            if c == 4:
                return rng.choice((rng.random(), rng.uniform(-1e10, 1e10), float(rng.randrange(-99, 99)), rng.random() * 10 ** rng.randint(-300, 300)))
        return rng.choice(JPOOL[c])
    n = rng.randint(0, 4)
    if u < 0.7:
        return [rand_doc(rng, depth - 1) for _ in range(n)]
    out = {}
    for i in range(n):
        k = rand_doc(rng, 0)
        k = k if isinstance(k, str) else 'k%d' % i
        out[k] = rand_doc(rng, depth - 1)
    return out


def rand_form(rng):
    out = {}
    for i in range(rng.randint(0, 4)):
        def s():
            if rng.random() < 0.3:
                return ''.join(chr(rng.choice((rng.randrange(0x20, 0x7f), rng.randrange(0x20, 0x7f), rng.randrange(0xA0, 0xD800),
                                               rng.randrange(0x10000, 0x110000)))) for _ in range(rng.randint(0, 8)))
            return rng.choice(FPOOL[rng.randrange(5)])
        name = s() or 'n%d' % i
        while name in out:
            name += 'x'
        out[name] = s() if rng.random() < 0.6 else [s() for _ in range(rng.randint(2, 4))]
    return out


def bigint_jobs():
    """JSON bodies whose integer literals sit at CPython's int <-> str conversion limit: the trusted decoder
    says whether the interpreter can parse them (then: that value) or not (then: an undecodable body)."""
    limit = sys.get_int_max_str_digits() if hasattr(sys, 'get_int_max_str_digits') else 0
    if not limit:
        return
    for nd in (limit, limit + 1, limit + 700):
        digits = b'7' * nd
        for shape, body in (('top', digits), ('negative', b'-' + digits), ('in-list', b'[1, ' + digits + b', "x"]'),
                            ('nested', b'{"a": {"b": [-' + digits + b']}, "c": null}')):
            for stack, framing in (('wsgi', 'length'), ('asgi', 'length'), ('asgi', 'chunked')):
                for ci, calls in enumerate(([('get', False), ('media', False), ('get', True)], [('get', True), ('get', False)])):
                    ctype = ('application/json', 'application/vnd.api+json; charset=utf-8')[ci]
                    case = {'leg': 'B', 'stack': stack, 'ctype': ctype, 'handler': 'json', 'special': 'integer literal of %d digits, %s' % (nd, shape)}
                    yield (stack, ctype, 'json', body, 'badenc', None, False, calls, [1500] if stack == 'asgi' else None, framing, True, case)


def random_job(ctx, H, i):
    rng = ctx.rng
    stack = ('wsgi', 'asgi')[i % 2]
    ctype, handler = rng.choice(CT_RANDOM)
    rct = ctype if handler != 'none' and ctype not in (None, '*/*') else ('application/json' if handler != 'form' else ctype)
    doc = rand_form(rng) if handler == 'form' else rand_doc(rng, rng.randint(0, 4))
    if handler == 'json' and ctype and ('charset' in ctype or 'subjson' in ctype):
        doc = [doc, NONASCII]
    u = rng.random()
    hookfail = handler == 'json' and 0.93 < u
    if hookfail:
        doc = boomify(doc, rng)
    rcustom = rng.random() < 0.5
    sbody, sct, err = H.render(('wsgi', 'asgi')[rng.randrange(2)], rct, doc, custom=rcustom)
    case = {'leg': 'B', 'stack': stack, 'ctype': ctype, 'handler': handler, 'doc': doc, 'render_custom_response_type': rcustom}
    if err:
        ctx.violation('P:serialize', case, err)
        return None
    expect, has_expect = None, False
    if hookfail:
        body, bk = sbody, 'hookfail'
    elif u < 0.18:
        body, bk = b'', 'empty'
        if handler == 'form':
            expect, has_expect = {}, True
    elif u < 0.5 or handler == 'none':
        body, bk, expect, has_expect = sbody, 'valid', doc, True
    elif handler == 'form':
        if u < 0.75 and len(sbody) > 1:
            body, bk = sbody[:rng.randrange(1, len(sbody))], 'cut'
        else:
            body, bk = badenc_form(sbody, rng), 'badenc'
    elif u < 0.58:
        body, bk = rng.choice(BLANKS) * rng.randint(1, 3), 'blank'
    elif u < 0.66:
        body, bk, expect, has_expect = rng.choice(BLANKS) + sbody + rng.choice(BLANKS + [b'']), 'padded', doc, True
    else:
        body = truncate_json(sbody, rng) if u < 0.8 else badenc_json(sbody, rng)
        bk = 'truncated' if u < 0.8 else 'badenc'
    calls = []
    sites = rng.random() < 0.5       # half of the requests: accesses in a middleware / except blocks / an error handler too
    for _ in range(rng.choice((1, 2, 2, 3, 3, 4, 5, 7, 9))):
        u = rng.random()
        cx = rng.choice(('mw', 'plain', 'plain', 'except', 'except', 'exceptself', 'exceptself', 'errh', 'errh')) if sites else 'plain'
        calls.append(('media', False, cx) if u < 0.3 else ('get', u < 0.65, cx))
    calls.sort(key=lambda c: {'mw': 0, 'errh': 2}.get(c[2], 1))      # the order of a request's life
    L = len(body)
    ch = rng.choice((None, [1], [2], [rng.randint(1, L + 1)], [rng.randint(0, 3) for _ in range(rng.randint(1, 4))] + [1],
                     [L], [L + 3], [max(1, L // 3)]))
    if stack == 'wsgi':
        ch = None
    framing = 'chunked' if stack == 'asgi' and rng.random() < 0.5 else 'length'
    if not body and rng.random() < 0.6:
        framing = rng.choice(('absent', 'blank'))
    return (stack, ctype, handler, body, bk, expect, has_expect, calls, ch, framing, rng.random() < 0.8 or sites, case)


def leg_b(ctx, H):
    n = ctx.pick(2500, 200000)
    traces, cases, seen = [], [], set()

    def jobs():
        for j in bigint_jobs():
            yield j
        for i in range(n):
            j = random_job(ctx, H, i)
            if j is not None:
                yield j
    for i, (stack, ctype, handler, body, bk, expect, has_expect, calls, ch, framing, reraise, case) in enumerate(jobs()):
        doc = case.get('doc')
        if handler == 'json' and body and bk != 'hookfail':
            # the trusted decoder has the last word on what the bytes are
            ok, val = trusted_json(body)
            if ok and has_special_float(val):
                continue
            bk = 'valid' if ok else bk
            if ok:
                expect, has_expect = val, True
            elif bk in ('valid', 'padded'):
                raise MachineryError('falcon serialised %r to bytes the trusted decoder rejects: %r' % (doc, body))
        if handler == 'form' and body and bk != 'badenc':
            try:
                body.decode('ascii')
            except UnicodeDecodeError:
                raise MachineryError('form serialisation is not ASCII: %r' % (body,))
        evs, wire = H.request(stack, ctype, body, ch, calls, expect, has_expect, reraise=reraise, framing=framing)
        case.update(body=list(body), body_kind=bk, chunks=ch, calls=calls, framing=framing)
        ctx.case(case if len(body) < 2000 else dict(case, body='(%d bytes)' % len(body)), nontrivial=len(calls) >= 2 or bk != 'valid', key=i)
        if len(evs) != H.s.attempted:
            ctx.violation('P:exc', case, 'responder did not complete: %d of %d accesses (wire %s)' % (len(evs), H.s.attempted, wire))
            continue
        if not evs:
            continue
        t = {'stack': stack, 'framing': framing, 'handler': handler, 'body': bk, 'wire': wire if wire != 200 else -1, 'wirebody': H.wirebody,
             'ev': [{k: e[k] for k in EVKEYS} for e in evs]}
        k = digest(t)
        if k not in seen:
            seen.add(k)
            traces.append(t)
            cases.append((case, evs))
    verdicts = ctx.judge('MediaCacheTrace', traces, timeout=900, chunk=4000)
    for t, (case, evs), v in zip(traces, cases, verdicts):
        if v == 'ok':
            continue
        clause, at = v.split('@')
        if clause.startswith('D:'):
            ctx.detail(clause.split('#')[0], case, 'trace judged %s' % clause)
        else:
            e = evs[max(0, int(at) - 1)] if evs else {}
            ctx.violation(clause, dict(case, events=evs, wire=t['wire']), 'access %s: %s' % (at, {k: e.get(k) for k in ('op', 'd', 'out', 'ek', 'status', 'same', 'eq', 'touched', 'nparse', 'info')}))
    ctx.extra['random_requests'] = n
    ctx.extra['distinct_traces_judged'] = len(traces)
    ctx.progress('leg B done: %d requests, %d distinct traces' % (n, len(traces)))


def probe_deep_nesting(ctx, H):
    """A body that is undecodable only because of its nesting depth is still an undecodable body."""
    n = sys.getrecursionlimit() * 2
    for stack in ('wsgi', 'asgi'):
        for body, bk in ((b'[' * n, 'truncated'), (b'[' * n + b']' * n, 'undecodable-by-depth'), (b'{"a":' * n + b'1' + b'}' * n, 'undecodable-by-depth')):
            evs, wire = H.request(stack, 'application/json', body, None, [('get', False), ('get', False)])
            case = {'leg': 'deep-nesting', 'stack': stack, 'body_prefix': body[:8].decode(), 'depth': n, 'body_kind': bk}
            ctx.case(case, nontrivial=True, key=('deep', stack, bk))
            ok = evs and all(e['out'] == 'err' and e['ek'] == 'malformed' and e['status'] == 400 for e in evs) and wire == 400
            if not ok:
                e = evs[0] if evs else {}
                ctx.violation('P:exc', case, 'a %d-deep JSON body gave %s %s -> HTTP %s instead of a 400 malformed-media error'
                              % (n, e.get('out'), e.get('info'), wire))
    ctx.traces_validated += 6


def replay(ctx, case):
    H = Harness()
    print(json.dumps({k: v for k, v in case.items() if k not in ('body', 'spec')}, indent=1, default=repr)[:3000])
    leg = case.get('leg')
    if leg == 'deep-nesting':
        probe_deep_nesting(ctx, H)
        return
    body = bytes(case['body'])
    stack = case['stack']
    ct = case.get('content_type', case.get('ctype'))
    if leg in ('A', 'P'):
        calls = [(w['op'], w['d'], w.get('cx', 'plain')) for w in case['spec']]
        has = case['body_kind'] in ('valid',) or (case['body_kind'] == 'empty' and 'form' in (ct or ''))
        expect = case['doc'] if case['body_kind'] == 'valid' else {}
        evs, wire = H.request(stack, ct, body, case['chunks'], calls, expect, has, framing=case.get('framing', 'length'))
        for i, (e, w) in enumerate(zip(evs, case['spec'])):
            print(i + 1, 'falcon', e)
            print(i + 1, 'spec  ', w)
            compare_access(ctx, e, w, case, i > 0, w['v'] in ('doc', 'empty'))
        print('wire', wire, H.wirebody)
        if len(evs) == len(case['spec']):
            check_wire(ctx, H, case['spec'], wire, case)
    else:
        calls = [tuple(c) for c in case.get('calls', [('get', False), ('media', False)])]
        evs, wire = H.request(stack, ct, body, case.get('chunks'), calls, case.get('doc'), True, framing=case.get('framing', 'length'))
        for e in evs:
            print(e)
        print('wire', wire)
        bk = case.get('body_kind', 'valid')
        handler = case.get('handler') or ('form' if 'form' in (ct or '') else 'json')
        t = {'stack': stack, 'framing': case.get('framing', 'length'), 'handler': handler, 'body': bk, 'wire': wire if wire != 200 else -1,
             'wirebody': H.wirebody, 'ev': [{k: e[k] for k in EVKEYS} for e in evs]}
        v = ctx.judge('MediaCacheTrace', [t], workers=1)
        print('verdict', v)
        if v[0] != 'ok' and v[0].startswith('P:'):
            ctx.violation(v[0].split('@')[0], case, 'replayed: %s' % v[0])
