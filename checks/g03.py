"""G03 - growth item: the calls falcon's own test suite makes to the pure functions and buffered readers / body
streams, judged by the trace judges that already exist (C10, C08, C11, C14, C07) - unchanged.

recorder: engine/suite_recorder_fn.py   pytest plugin (-p engine.suite_recorder_fn), no change to /repo; wraps the pure
                                        functions at their definition site and the reader / stream classes in place
judges:   spec/UriTrace.tla          family U  decode / encode / encode_value / *_check_escaped / parse_host       (C10)
          spec/QueryStringTrace.tla  family Q  parse_query_string / to_query_str                                  (C08)
          spec/MediaTypesTrace.tla   family M  mediatypes.quality / best_match                                    (C11)
          spec/CursorTrace.tla       family C  sync and async BufferedReader histories, delimit() sub-readers     (C14)
          spec/BodyStreamTrace.tla   family B  WSGI BoundedStream / ASGI request stream histories                 (C07)
this file: runs the suite under the recorder (source mode, in place on /repo/tests, falcon from $FALCON_ROOT), dedupes,
          keeps what each judge's model can express (expressible_*: explicit, documented, every skip counted by reason,
          never accepted) and lets TLC judge them.  The judges' event formats are NOT written down here a second time:
          a recorded function call is made again through the event builder of the check that owns the judge (c10.call,
          c08.parse_event / render_event: they add the extra calls the judge asks for) and the outcome the suite saw is
          put in the place of the builder's own; results are projected with c11's helpers; reader / stream traces are
          assembled on c14._ev / c07._ev / c07.classify, and format_guard() compares their field sets with what
          c14.run_history / c07.run_case write before anything is judged.  Python decides
          nothing about correctness: it copies observations into the judges' vocabulary (code points, byte lists, the
          abstract syntax of an Accept header) and reads the verdict TLC prints.

Not a listed property: nothing here can fail C01..C20.  It extends what the five specifications cover to every call
the repository's tests make (checked against the whole specification, not only the assertion the author wrote).
"""
META = {
    'property_id': 'G03',
    'design_ref': 'DESIGN.md section 3, growth path (judging the calls of the repository\'s own tests)',
    'technique': 'falcon\'s own suite run under a recording pytest plugin; every recorded call of the uri / query-string / '
                 'media-type functions and every reader / body-stream history judged by TLC with the existing trace '
                 'judges UriTrace, QueryStringTrace, MediaTypesTrace, CursorTrace, BodyStreamTrace',
    'level_text': 'Every call any test of /repo/tests makes (directly or through the framework) to falcon.uri, '
                  'parse_query_string / to_query_str, mediatypes.quality / best_match, and every operation history of a '
                  'BufferedReader (sync, async, delimited sub-readers) or request body stream (WSGI, ASGI) is recorded '
                  'with the data its source delivered and judged by the trace judge of the property that owns it.',
    'level_note': 'Conformance of recorded behaviour only (leg B); the inputs are the ones the suite\'s authors chose. '
                  'Records outside a judge\'s modelled domain are counted as skipped by reason (expressible_* below), '
                  'never accepted. Source data is known as far as the source returned it. Trusted: TLC, the recorder '
                  '(copies, decides nothing), the Accept-header reader and the conversions of this file.',
}

import collections
import glob
import json
import math
import os
import re
import shutil
import subprocess
import sys
import tempfile

from engine.core import MachineryError, digest

REPO = '/repo'
VERIF = os.path.dirname(os.path.dirname(os.path.abspath(__file__)))
EXPECT_PASSED = 3440

# quick tier: a fixed subset of the suite's files (the ones that call the five families most)
QUICK_FILES = [
    'tests/test_utils.py', 'tests/test_mediatypes.py', 'tests/test_query_params.py', 'tests/test_buffered_reader.py',
    'tests/asgi/test_buffered_reader.py', 'tests/test_boundedstream.py', 'tests/asgi/test_boundedstream_asgi.py',
    'tests/test_request_body.py', 'tests/asgi/test_request_body_asgi.py', 'tests/test_media_multipart.py',
    'tests/test_media_urlencoded.py', 'tests/test_media_handlers.py', 'tests/test_request_media.py',
    'tests/test_request_attrs.py', 'tests/test_request_forwarded.py', 'tests/test_request_access_route.py',
    'tests/test_response_media.py', 'tests/asgi/test_response_media_asgi.py', 'tests/test_headers.py',
    'tests/test_httperror.py', 'tests/test_static.py', 'tests/test_before_hooks.py', 'tests/test_after_hooks.py',
    'tests/test_error_handlers.py', 'tests/test_hello.py', 'tests/asgi/test_hello_asgi.py', 'tests/test_recipes.py',
    'tests/test_wsgiref_inputwrapper_with_size.py',
]

# what the judges are fed (capacity of TLC on sequences, not a property of falcon)
TEXT_MAX = 2000          # code points of a uri / query string
DATA_MAX = 4096          # bytes behind a reader / stream
EV_MAX = 2500            # events of one history
XSS = {'JAVA_TOOL_OPTIONS': '-Xss512m'}     # deep recursion over long strings / byte strings

FAMILIES = (('U', 'uri functions (UriTrace, C10)'), ('Q', 'query strings (QueryStringTrace, C08)'),
            ('M', 'media types (MediaTypesTrace, C11)'), ('C', 'buffered readers (CursorTrace, C14)'),
            ('B', 'body streams (BodyStreamTrace, C07)'))


# ------------------------------------------------------------------------------------------------
# running the suite under the recorder, loading what it wrote
# ------------------------------------------------------------------------------------------------

def run_suite(ctx, files, outdir, workers=8, timeout=1500):
    env = dict(os.environ)
    env.update({'PYTHONPATH': os.path.join(VERIF, 'tools', 'srcmode'), 'PYTHONDONTWRITEBYTECODE': '1',
                'FALCON_ROOT': os.environ.get('FALCON_ROOT', REPO), 'SUITE_RECORD_FN_DIR': outdir, 'PYTHONHASHSEED': '0'})
    env.pop('SUITE_RECORD_FILE', None)
    missing = [f for f in files if not os.path.exists(os.path.join(REPO, f))]
    if missing:
        raise MachineryError('test files of the quick tier are missing: %s' % missing)
    cmd = [sys.executable, '-m', 'pytest', '-q', '-p', 'no:cacheprovider', '-p', 'engine.suite_recorder_fn',
           '--timeout=900', '--continue-on-collection-errors', '-n', str(workers)] + list(files)
    ctx.progress('running falcon\'s suite under the recorder: %s' % ' '.join(cmd[2:12]))
    try:
        p = subprocess.run(cmd, cwd=REPO, env=env, stdout=subprocess.PIPE, stderr=subprocess.STDOUT, text=True,
                           errors='replace', timeout=timeout)
    except subprocess.TimeoutExpired:
        raise MachineryError('falcon\'s suite did not finish within %d s under the recorder' % timeout)
    tail = p.stdout.strip().splitlines()[-1] if p.stdout.strip() else ''
    counts = {k: int(v) for v, k in re.findall(r'(\d+) (passed|failed|skipped|errors?|warnings?)', tail)}
    failed = re.findall(r'^FAILED (\S+)', p.stdout, re.M)
    return {'summary': tail, 'passed': counts.get('passed', 0), 'failed': counts.get('failed', 0),
            'skipped': counts.get('skipped', 0), 'errors': counts.get('errors', counts.get('error', 0)),
            'failed_tests': failed[:40], 'rc': p.returncode}


def load(outdir):
    fns, hists, counts, metas, errs = [], [], collections.Counter(), [], []
    for path in sorted(glob.glob(os.path.join(outdir, '*.jsonl'))):
        with open(path, encoding='utf-8') as f:
            for line in f:
                try:
                    d = json.loads(line)
                except ValueError:
                    errs.append(line[:200])
                    continue
                k = d.get('kind')
                if k == 'fn':
                    fns.append(d)
                elif k == 'hist':
                    hists.append(d)
                elif k == 'count':
                    counts.update(d['counts'])
                elif k == 'meta':
                    metas.append(d)
                else:
                    errs.append(json.dumps(d)[:300])
    return fns, hists, counts, metas, errs


# ------------------------------------------------------------------------------------------------
# small helpers: typed copies back to values, text as code points
# ------------------------------------------------------------------------------------------------

def cps(s):
    return [ord(c) for c in s]


def asc(s):
    """ASCII-only, character-wise injective rendering (TLC compares non-ASCII strings unreliably in big batches)"""
    return s.encode('unicode_escape').decode('ascii')


def is_text(x):
    return isinstance(x, str)


def has_surrogate(s):
    return any(0xD800 <= ord(c) <= 0xDFFF for c in s)


def as_bytes(x):
    """{"b": latin-1 text} -> list of byte values; None if the recorder did not keep the bytes"""
    if isinstance(x, dict) and set(x) == {'b'} and isinstance(x['b'], str):
        return [ord(c) for c in x['b']]
    return None


def bind(rec, names, defaults):
    """positional + keyword arguments of a recorded call -> dict by parameter name; None if they do not fit"""
    args, kw = rec.get('args', []), rec.get('kw', {})
    if len(args) > len(names) or any(k not in names for k in kw):
        return None
    out = dict(defaults)
    for n, v in zip(names, args):
        out[n] = v
    for k, v in kw.items():
        if k in names[:len(args)]:
            return None
        out[k] = v
    if any(n not in out for n in names):
        return None
    return out


def exc_kind(rec):
    """'none' | 'value' (falcon.errors.InvalidMediaType / InvalidMediaRange, the documented errors) | 'other'"""
    ex = rec.get('exc')
    if ex is None:
        return 'none'
    return 'value' if 'falcon.errors.InvalidMediaType' in ex.get('mro', []) else 'other'


class Family:
    """accounting of one family: recorded calls, distinct records, skips by reason, judged, violations by clause"""

    def __init__(self, key, title):
        self.key, self.title = key, title
        self.calls = 0
        self.records = 0
        self.skipped = collections.Counter()
        self.items = {}              # digest of the judge's input -> (judge input, record, [tests])
        self.judged = 0
        self.ok = 0
        self.violations = collections.Counter()
        self.details = collections.Counter()

    def skip(self, reason):
        self.skipped[reason] += 1

    def add(self, judged_input, rec):
        k = digest(judged_input)
        if k in self.items:
            self.items[k][2].append(rec.get('node', ''))
        else:
            self.items[k] = (judged_input, rec, [rec.get('node', '')])

    def summary(self):
        return {'calls_recorded': self.calls, 'distinct_records': self.records, 'expressible': self.records - sum(self.skipped.values()),
                'judged_distinct': self.judged, 'accepted': self.ok, 'skipped_by_reason': dict(self.skipped),
                'violations_by_clause': dict(self.violations), 'detail_notes_by_clause': dict(self.details)}


# ------------------------------------------------------------------------------------------------
# family U: falcon.util.uri.decode / encode / encode_value / *_check_escaped / parse_host  ->  UriTrace
# ------------------------------------------------------------------------------------------------
URI_FNS = ('decode', 'encode', 'encode_value', 'encode_check_escaped', 'encode_value_check_escaped', 'parse_host')


def judged_form(e):
    """an event as the judges read it: without the builders' own annotations"""
    return {k: v for k, v in e.items() if k not in ('exc', 'meta', 'shown')}


def expressible_uri(rec):
    """-> (event for UriTrace, None) or (None, reason).

    The event is built by C10's own builder (checks/c10.py: call), i.e. the recorded call is made again on the tree under
    test together with the extra calls UriTrace asks for (f(f(s)), the authority with ":8042" and with ":", decode of
    the encoder's output); what the SUITE's call returned is then put in the place of the builder's own observation of
    the same call (for a pure function the two are the same; a difference is counted in `differs`).
    Inside the model of UriOps: the argument is a str of Unicode scalar values (the model's text is a sequence of code
    points with a UTF-8 form; lone surrogates have none), at most TEXT_MAX long (TLC capacity); decode's flag is a bool;
    parse_host's default is None or an int.  Whether a parse_host argument is an authority at all is decided by the
    judge itself (UriOps!AuthorityShape; verdict H:input is counted as a skip)."""
    from checks import c10
    fn = rec['fn']
    if fn == 'decode':
        a = bind(rec, ['encoded_uri', 'unquote_plus'], {'unquote_plus': True})
        s = a and a['encoded_uri']
    elif fn == 'parse_host':
        a = bind(rec, ['host', 'default_port'], {'default_port': None})
        s = a and a['host']
    else:
        a = bind(rec, ['uri'], {})
        s = a and a['uri']
    if a is None:
        return None, 'arguments do not fit the signature (a TypeError of the call itself)'
    if not is_text(s):
        return None, 'argument is not a str'
    if has_surrogate(s):
        return None, 'lone surrogate in the argument (no UTF-8 form; outside UriOps\' text)'
    if len(s) > TEXT_MAX:
        return None, 'argument longer than %d code points (TLC capacity)' % TEXT_MAX
    plus = False
    default = None
    if fn == 'decode':
        if not isinstance(a['unquote_plus'], bool):
            return None, 'unquote_plus is not a bool'
        plus = a['unquote_plus']
    if fn == 'parse_host':
        d = a['default_port']
        if d is not None and (not isinstance(d, int) or isinstance(d, bool)):
            return None, 'default_port is not an int'
        # the builder's default is one no authority can carry, so that "the default came back" is unambiguous
        default = None if d is None else c10.BIG_DEFAULT
    e = c10.call(fn, s, plus, default)
    own = (e['err'], e['out'], e['port'])
    blank = {k: ([] if isinstance(v, list) else v) for k, v in e.items()}

    def failed():
        x = dict(blank, fn=fn, s=e['s'], plus=e['plus'], err=True, port=-1)
        return judged_form(x), None
    if 'exc' in rec:                 # the property promises totality on text: judged (P:total)
        return failed()
    res = rec.get('res')
    if fn == 'parse_host':
        t = res.get('t') if isinstance(res, dict) else None
        if not (isinstance(t, list) and len(t) == 2 and is_text(t[0])):
            return failed()
        host, port = t
        if has_surrogate(host):
            return None, 'lone surrogate in the result'
        d = a['default_port']
        if port is None or (d is not None and port == d and e['port'] == -1 and not e['err']):
            p = -1                   # the suite's default came back, and the builder saw no port in the text either
        elif isinstance(port, int) and not isinstance(port, bool) and 0 <= port < 2 ** 31:
            p = port
        else:
            p = -2                   # not a port number: no specification value equals it
        e['err'] = False
        e['out'], e['port'] = cps(host), p
    else:
        if not is_text(res):
            return failed()
        if has_surrogate(res):
            return None, 'lone surrogate in the result'
        e['err'] = False
        e['out'] = cps(res)
    x = judged_form(e)
    if own != (e['err'], e['out'], e['port']):
        x = dict(x)
        DIFFERS['U'] += 1
    return x, None


DIFFERS = collections.Counter()      # recorded outcome differs from the builder's own observation of the same call


# ------------------------------------------------------------------------------------------------
# family Q: parse_query_string / to_query_str  ->  QueryStringTrace
# ------------------------------------------------------------------------------------------------

def expressible_query(rec):
    """-> (event for QueryStringTrace, None) or (None, reason).

    Events are built by C08's own builders (checks/c08.py: parse_event / render_event, the call made again on the tree
    under test); the mapping / text the SUITE's call returned is then put in the place of the builder's observation.
    parse: the query string is a str of scalar values <= TEXT_MAX, both options are bools.
    render: the mapping is None or a dict of str names whose values are text, or objects with a documented rendering
    (C08: int and float through str(), a scalar bool as true / false), or lists of text / int / float.  None, a bool
    inside a list and other objects have no counterpart in the mapping QueryStringOps!Render speaks of."""
    from checks import c08
    if rec['fn'] == 'parse_query_string':
        a = bind(rec, ['query_string', 'keep_blank', 'csv'], {'keep_blank': False, 'csv': False})
        if a is None:
            return None, 'arguments do not fit the signature'
        q = a['query_string']
        if not is_text(q):
            return None, 'query string is not a str'
        if has_surrogate(q):
            return None, 'lone surrogate in the query string'
        if len(q) > TEXT_MAX:
            return None, 'query string longer than %d code points (TLC capacity)' % TEXT_MAX
        if not isinstance(a['keep_blank'], bool) or not isinstance(a['csv'], bool):
            return None, 'option is not a bool'
        e, _ = c08.parse_event('func', q, a['keep_blank'], a['csv'])
        own = (e['err'], e['entries'])
        e['err'], e['entries'] = False, []
        res = rec.get('res')
        d = res.get('d') if isinstance(res, dict) else None
        if 'exc' in rec or not isinstance(d, list):
            e['err'] = True
        else:
            try:
                params = {}
                for k, v in d:
                    if isinstance(k, str) and has_surrogate(k) or any(isinstance(x, str) and has_surrogate(x)
                                                                      for x in (v if isinstance(v, list) else [v])):
                        return None, 'lone surrogate in the result'
                    params[k] = v
                e['entries'] = c08.entries_of(params)
            except TypeError:            # the mapping holds something that is no text: no reading of q gives that
                e['err'] = True
        if own != (e['err'], e['entries']):
            DIFFERS['Q'] += 1
        return judged_form(e), None
    a = bind(rec, ['params', 'comma_delimited_lists', 'prefix'], {'comma_delimited_lists': True, 'prefix': True})
    if a is None:
        return None, 'arguments do not fit the signature'
    if not isinstance(a['comma_delimited_lists'], bool) or not isinstance(a['prefix'], bool):
        return None, 'option is not a bool'
    p = a['params']
    if p is None:
        items = []
    elif isinstance(p, dict) and set(p) == {'d'}:
        items = p['d']
    else:
        return None, 'params is not a dict'

    def text_of(v, scalar):
        """the documented rendering of a value (C08: str(); true / false for a scalar bool)"""
        if is_text(v):
            return v
        if isinstance(v, bool):
            return ('true' if v else 'false') if scalar else None
        if isinstance(v, int):
            return str(v)
        if isinstance(v, dict) and set(v) == {'f'}:
            return str(float(v['f']))
        return None
    m = []
    typed = False
    for k, v in items:
        if not is_text(k):
            return None, 'parameter name is not a str'
        if isinstance(v, list):
            vs = [text_of(x, False) for x in v]
            shape = 'list'
        else:
            vs = [text_of(v, True)]
            shape = 'scalar'
        if any(x is None for x in vs):
            return None, 'parameter value without a documented rendering (None, a bool inside a list, an object)'
        typed = typed or not all(is_text(x) for x in (v if isinstance(v, list) else [v]))
        if has_surrogate(k) or any(has_surrogate(x) for x in vs):
            return None, 'lone surrogate in the mapping'
        m.append({'k': cps(k), 'v': [cps(x) for x in vs], 'shape': shape})
    if sum(len(x['k']) + sum(len(y) for y in x['v']) for x in m) > TEXT_MAX:
        return None, 'mapping longer than %d code points (TLC capacity)' % TEXT_MAX
    e, _ = c08.render_event(m, a['comma_delimited_lists'], a['prefix'])
    own = (e['err'], e['q'])
    res = rec.get('res')
    if 'exc' in rec or not is_text(res):
        e['err'], e['q'] = True, []
    else:
        e['err'], e['q'] = False, cps(res)
    if own != (e['err'], e['q']):
        DIFFERS['Q'] += 1
    return judged_form(e), None


# ------------------------------------------------------------------------------------------------
# family M: mediatypes.quality / best_match  ->  MediaTypesTrace
# ------------------------------------------------------------------------------------------------
# The judge works on the ABSTRACT syntax of an Accept header (ranges [t, s, pm, q]); C11 renders abstract headers to
# strings, here the direction is the opposite: a reader of the strict media-range grammar C11's renderer generates
# (RFC 9110 12.5.1 without the corners listed in C11's level_note).  Anything else is skipped with the reason.
TOKEN = r"[!#$%&'*+\-.^_`|~0-9A-Za-z]+"
RE_MEMBER = re.compile(r'[ \t]*(%s)/(%s)[ \t]*((?:;[ \t]*%s=(?:%s|"[^",;\\"]*")[ \t]*)*)\Z' % (TOKEN, TOKEN, TOKEN, TOKEN))
RE_PARAM = re.compile(r';[ \t]*(%s)=(?:(%s)|"([^",;\\"]*)")[ \t]*' % (TOKEN, TOKEN))
RE_QVALUE = re.compile(r'(?:0(?:\.[0-9]{0,7})?|1(?:\.0{0,7})?)\Z')      # as C11's renderer writes weights: up to 7 digits


class Outside(Exception):
    pass


def read_qvalue(v):
    """millionths (MediaTypesOps!QONE == 1000000), or -2 (QBAD: certainly not a real in [0, 1]); Outside for spellings
    neither grammar settles"""
    if RE_QVALUE.match(v):
        digits = (v.split('.', 1) + [''])[1]
        if len(digits) == 7 and digits[6] != '0':
            raise Outside('q value is not a multiple of 0.000001')
        return int(v[0]) * 1000000 + int((digits + '000000')[:6])
    try:
        f = float(v)
    except ValueError:
        return -2
    if math.isnan(f) or math.isinf(f) or f < 0 or f > 1:
        return -2
    raise Outside('q value outside the qvalue grammar yet readable as a real in [0, 1] (%r)' % v)


def read_params(text, allow_q):
    pm, q, seen = [], -1, set()
    params = RE_PARAM.findall(text)
    for i, (name, tok, quoted) in enumerate(params):
        n = name.lower()
        v = tok if tok else quoted
        if n == 'q' and allow_q:
            if i != len(params) - 1:
                raise Outside('parameters after q (accept-ext)')
            q = read_qvalue(v)
            continue
        if n == 'q':
            raise Outside('media type with a q parameter')
        if n in seen:
            raise Outside('repeated parameter name')
        seen.add(n)
        pm.append({'n': asc(n), 'v': asc(v)})
    return pm, q


def read_type(text, allow_q):
    m = RE_MEMBER.match(text)
    if not m:
        raise Outside('not in the strict type/subtype;name=value grammar')
    t, s, rest = m.group(1), m.group(2), m.group(3)
    if t != t.lower() or s != s.lower():
        raise Outside('upper-case type or subtype (case folding is outside MediaTypesOps\' vocabulary)')
    if t == '!' or s == '!':
        raise Outside('type spelled "!" (the judge\'s marker for a member without slash)')
    pm, q = read_params(rest, allow_q)
    return {'t': asc(t), 's': asc(s), 'pm': pm}, q


def read_header(h):
    """Accept-style header text -> abstract ranges"""
    if '"' in h and re.search(r'"[^"]*[,;\\][^"]*"', h):
        raise Outside('quoted parameter value holding a comma, semicolon or backslash')
    if h.strip(' \t') == '':
        raise Outside('empty header (the model\'s headers have at least one member)')
    members = h.split(',')
    out = []
    for mem in members:
        head = mem.split(';', 1)[0].strip(' \t')
        if '/' not in head:
            if head == '*':
                raise Outside('bare "*" member (falcon reads it as */* on purpose; not in the grammar)')
            if head == '' and (len(members) == 1 or mem.strip(' \t') != ''):
                raise Outside('member without a type')
            out.append({'t': '!', 's': '!', 'pm': [], 'q': -1})       # NOSLASH: a member without "type/subtype"
            continue
        mt, q = read_type(mem, True)
        out.append(dict(mt, q=q))
    return out


def quality_units(x):
    """the recorded float in the judge's unit, by C11's own projection (checks/c11.py: _millionths)"""
    from checks import c11
    if not (isinstance(x, dict) and 'f' in x):
        return -7
    try:
        return c11._millionths(float(x['f']))
    except (ValueError, OverflowError):
        return -7


def expressible_media(rec):
    """-> (event for MediaTypesTrace, None) or (None, reason).  The header and the media types must be readable by the
    strict grammar above (lower-case type/subtype, token or simple quoted parameter values, q last and a multiple of
    0.000001 or clearly bad); candidates are well-formed media types without q.  Results are projected with C11's own
    helpers (_millionths, _index)."""
    from checks import c11
    if rec['fn'] == 'quality':
        a = bind(rec, ['media_type', 'header'], {})
        cands = a and [a['media_type']]
    else:
        a = bind(rec, ['media_types', 'header'], {})
        c = a and a['media_types']
        if isinstance(c, dict) and ('t' in c or 's' in c) and isinstance(c.get('t', c.get('s')), list):
            c = c.get('t', c.get('s'))
        cands = c
    if a is None:
        return None, 'arguments do not fit the signature'
    if not is_text(a['header']):
        return None, 'header is not a str'
    if isinstance(cands, dict) and cands.get('o', '').endswith('generator'):
        return None, 'candidates given as a one-shot iterator (cannot be copied without consuming it)'
    if not isinstance(cands, list) or not all(is_text(x) for x in cands):
        return None, 'candidates are not a list / tuple / set of str'
    if len(a['header']) > 600 or len(cands) > 12:
        return None, 'header or candidate list beyond what the judge is fed'
    try:
        hdr = read_header(a['header'])
    except Outside as ex:
        return None, 'header: %s' % (str(ex).split(' (')[0] if str(ex).startswith('q value outside') else ex)
    try:
        abstract = []
        for c in cands:
            if '/' not in c.split(';', 1)[0]:
                raise Outside('no type/subtype')
            abstract.append(read_type(c, False)[0])
    except Outside as ex:
        return None, 'candidate media type: %s' % ex
    kind = exc_kind(rec)
    e = {'op': 'quality' if rec['fn'] == 'quality' else 'best', 'hdr': hdr, 'cands': abstract, 'res': 0, 'exc': kind}
    if kind == 'none':
        res = rec.get('res')
        if rec['fn'] == 'quality':
            e['res'] = quality_units(res)
        else:
            e['res'] = c11._index(cands, res) if (res is None or is_text(res)) else -1
    return e, None


# ------------------------------------------------------------------------------------------------
# family C: BufferedReader histories  ->  CursorTrace
# ------------------------------------------------------------------------------------------------
SKIP_FLAGS = {
    'too_large': 'more bytes than the recorder keeps per history',
    'too_many_events': 'more events than the recorder keeps per history',
    'unknown_start': 'object made before the recorder saw it (or alive across tests): initial state unknown',
    'closed_subreader_used_again': 'sub-reader used again after its parent had moved on (C14 assumes it is not)',
    'call_during_iteration': 'another call between the chunks of an iteration over a reader (the documentation forbids mixing)',
    'partial_iteration': 'iteration over a reader abandoned half-way (Cursor knows complete loops only)',
    'source_returned_non_bytes': 'the source returned something that is not bytes',
    'iteration_yielded_non_bytes': 'the iteration yielded something that is not bytes',
}


def flags_reason(h):
    for f in h.get('flags', []):
        if f in SKIP_FLAGS:
            return SKIP_FLAGS[f]
        if f.startswith('receive_raised:'):
            return 'receive() itself raised (%s)' % f.split(':', 1)[1]
    return None


def event_reason(e, sized_ops, negative_ok=False):
    if 'badargs' in e:
        return 'call with arguments outside the public signature (private _size, wrong arity)'
    if 'indicator_exc' in e:
        return 'tell / eof raised'
    if 'badres' in e:
        return 'result is not bytes'
    n = e.get('n')
    if e['op'] in sized_ops:
        if not isinstance(n, int) or isinstance(n, bool):
            return 'size argument is not an int'
        if n < -1 and not negative_ok:
            return 'size argument < -1 (Cursor knows None / -1 and sizes >= 0)'
    return None


def expressible_reader(h):
    """-> (trace for CursorTrace, None) or (None, reason).

    Inside Cursor's model: the whole history is known (object seen from its construction, all bytes kept, complete
    iterations only); sizes are None/-1 or >= 0; delimiters have 1..chunk-size bytes (documented precondition); no call
    raised anything but DelimiterError (precondition errors and failing destinations are not cursor behaviour); the
    source is honest (never returns more than it was asked for - a mock that does makes "pulled" meaningless); data and
    history small enough for TLC.  A delimit() whose sub-reader was never used is dropped (see below); a parent used
    before a sub-reader that WAS used is exhausted is rejected by the judge itself as outside its domain (H:endsub).  data = every byte the source returned: a correct reader decides from those bytes
    alone, so the cursor over them gives the same answers as the cursor over the source's full content."""
    from checks import c14
    r = flags_reason(h)
    if r:
        return None, r
    kind = 'sync' if h['cls'] == 'reader.sync' else 'async'
    ctor = h['ctor']
    cs = ctor.get('cs')
    if cs is None or cs == 0:
        cs = ctor.get('default_cs')
    if not isinstance(cs, int) or isinstance(cs, bool) or cs <= 0:
        return None, 'chunk size is not a positive int'
    data = as_bytes(h.get('data'))
    if data is None:
        return None, SKIP_FLAGS['too_large']
    if kind == 'sync':
        maxlen = ctor.get('maxlen')
        if not isinstance(maxlen, int) or isinstance(maxlen, bool) or maxlen < 0:
            return None, 'max_stream_len is not an int >= 0'
        for ask in h['src']:
            if len(ask) > 2 or not isinstance(ask[0], int) or ask[1] < 0:
                return None, 'the source raised'
            if ask[0] >= 0 and ask[1] > ask[0]:
                return None, 'the source returned more bytes than it was asked for (a mock that lies about lengths)'
        maxlen = min(maxlen, 2 ** 31 - 1)
        data = data[:maxlen]
    else:
        maxlen = len(data)
    if len(data) > DATA_MAX or len(h['ev']) > EV_MAX:
        return None, 'data > %d bytes or > %d events (TLC capacity)' % (DATA_MAX, EV_MAX)
    evs = []
    recorded = []
    for e in h['ev']:
        # a sub-reader that was made and never used (the multipart parser abandons the stream of a part the application
        # did not read) has not touched the cursor; Cursor has no action for abandoning it: its delimit / endsub pair
        # is not part of the history the judge sees
        if e['op'] == 'endsub' and recorded and recorded[-1]['op'] == 'delimit' and 'exc' not in recorded[-1]:
            recorded.pop()
            continue
        recorded.append(e)
    for e in recorded:
        r = event_reason(e, ('read', 'peek', 'read_until', 'readline', 'readlines'))
        if r:
            return None, r
        if 'exc' in e:
            return None, 'a call raised %s (not DelimiterError: outside the cursor model)' % e['exc']['type'].rsplit('.', 1)[-1]
        d = as_bytes(e['d'])
        if d is None:
            return None, 'delimiter is not bytes'
        if e['op'] in ('read_until', 'pipe_until', 'delimit') and not 1 <= len(d) <= cs:
            return None, 'delimiter length outside 1..chunk size (documented precondition)'
        if e['op'] == 'readlines':
            lines = [as_bytes(x) for x in e['lines']]
            if any(x is None for x in lines):
                return None, SKIP_FLAGS['too_large']
            res = [b for x in lines for b in x]
        else:
            lines = []
            res = as_bytes(e['res'])
            if res is None:
                return None, SKIP_FLAGS['too_large']
        n = e['n'] if isinstance(e['n'], int) else -1
        x = c14._ev(e['op'], min(n, 2 ** 31 - 1), bytes(d), bool(e['c']))       # C14's own event skeleton
        x.update(res=res if not e['err'] else [], err=bool(e['err']), lines=lines, tell=e['tell'], eof=e['eof'],
                 pulled=e['pulled'])
        evs.append(x)
    return {'kind': kind, 'data': data, 'cs': cs, 'maxlen': maxlen, 'ev': evs}, None


# ------------------------------------------------------------------------------------------------
# family B: request body streams  ->  BodyStreamTrace
# ------------------------------------------------------------------------------------------------

def expressible_stream(h):
    """-> (trace for BodyStreamTrace, None) or (None, reason).

    The trace head (cl, alt0, refok, dzero, drefuse) comes from C07's own abstraction of a Content-Length header
    (checks/c07.py: classify) applied to the decimal text of the length the stream was constructed with, the events
    from C07's event skeleton (_ev).  WSGI: stream_len is an int >= 0; `sent` = every byte wsgi.input returned to the
    stream (reach / rawpos are counted on the recorder's forwarding proxy); wsgi.input is honest (a sized read never
    returns more than asked).  ASGI: content_length None or an int >= 0; the event script = first_event + every event
    receive() returned, each an http.request (body absent or bytes, more_body absent or a bool) or an http.disconnect;
    iteration is stepwise (iternext / iterbreak).  Both: sizes are ints (negative ones included), whole history
    known, small enough for TLC."""
    from checks import c07
    r = flags_reason(h)
    if r:
        return None, r
    wsgi = h['cls'] == 'stream.wsgi'
    iface = 'wsgi' if wsgi else 'asgi'
    ctor = h['ctor']
    cl = ctor.get('cl')
    if cl is None:
        if wsgi:
            return None, 'stream_len is None'
        head = c07.classify(None, iface)
    elif not isinstance(cl, int) or isinstance(cl, bool) or cl < 0:
        return None, 'content length is not an int >= 0'
    elif cl > c07.CAP:
        return None, 'content length > %d (C07 caps the numbers it hands to TLC)' % c07.CAP
    else:
        head = c07.classify(str(cl), iface)
    if len(h['ev']) > EV_MAX:
        return None, '> %d events (TLC capacity)' % EV_MAX
    evs = []
    for e in h['ev']:
        r = event_reason(e, ('read', 'readline', 'readlines'), negative_ok=True)
        if r:
            return None, r
        if e['op'] in ('readlines',):
            lines = [as_bytes(x) for x in e['lines']]
            if any(x is None for x in lines):
                return None, SKIP_FLAGS['too_large']
            res = [b for x in lines for b in x]
        else:
            lines = []
            res = as_bytes(e['res'])
            if res is None:
                return None, SKIP_FLAGS['too_large']
        n = e['n'] if isinstance(e['n'], int) else -1
        x = c07._ev(e['op'], max(min(n, 2 ** 31 - 1), -(2 ** 31) + 1))
        x.update(res=res if not e['err'] else [], lines=lines, stop=bool(e['stop']), err=e['err'], eof=e['eof'],
                 tell=e['tell'], recv=e['recv'], reach=min(e['reach'], c07.BIG), rawpos=e['rawpos'])
        evs.append(x)
    t = dict(head, iface=iface, sent=[], evs=[], first=False, short=False, ev=evs)
    if wsgi:
        sent = as_bytes(h.get('data'))
        if sent is None:
            return None, SKIP_FLAGS['too_large']
        if len(sent) > DATA_MAX:
            return None, 'body > %d bytes (TLC capacity)' % DATA_MAX
        pos = 0
        for ask in h['src']:
            name, size, got = ask[0], ask[1], ask[2]
            if len(ask) > 3 or got < 0:
                return None, 'wsgi.input raised or returned something that is not bytes'
            if isinstance(size, int) and size >= 0 and name in ('read', 'readline') and got > size:
                return None, 'wsgi.input returned more bytes than it was asked for (a mock that lies about lengths)'
            if name == 'read':
                left = len(sent) - pos
                if got < (left if not isinstance(size, int) or size < 0 else min(size, left)):
                    t['short'] = True
            pos += got
        t['sent'] = sent
        return t, None
    total = 0
    for i, ev in enumerate(h['src']):
        if ev.get('t') not in ('req', 'disc') or 'mbraw' in ev:
            return None, 'receive() returned an event outside the model (%s)' % (ev.get('type') or ev.get('o') or 'odd body / more_body')
        body = as_bytes(ev['body'])
        if body is None:
            return None, SKIP_FLAGS['too_large']
        total += len(body)
        t['evs'].append({'t': ev['t'], 'body': body, 'hb': bool(ev['hb']), 'mb': ev['mb']})
    if total > DATA_MAX or len(t['evs']) > EV_MAX:
        return None, 'body > %d bytes or > %d receive events (TLC capacity)' % (DATA_MAX, EV_MAX)
    t['first'] = bool(ctor.get('first'))
    if ctor.get('first_given') and not ctor.get('first'):
        return None, 'first_event given but empty'
    return t, None


# ------------------------------------------------------------------------------------------------
# TLC as judge
# ------------------------------------------------------------------------------------------------

def judge_events(ctx, module, events, per, env=None, cap=300, chunk=1500, timeout=1500):
    """One verdict per event of a judge whose traces are lists of independent events ('ok' or '<clause>'; None = not
    judged because more than `cap` events followed failing ones).  Events are batched `per` to a trace; the events
    behind a failing one are judged again one by one."""
    verdict = [None] * len(events)
    groups = [list(range(i, min(i + per, len(events)))) for i in range(0, len(events), per)]
    for _ in (1, 2):
        if not groups:
            break
        vs = ctx.judge(module, [{'ev': [events[j] for j in g]} for g in groups], env=env, workers=8, timeout=timeout,
                       chunk=chunk)
        nxt = []
        for g, v in zip(groups, vs):
            if v == 'ok':
                for j in g:
                    verdict[j] = 'ok'
                continue
            clause, _, idx = v.rpartition('@')
            idx = int(idx)
            if clause.startswith('D:') and '#' in clause:          # MediaTypesTrace: a D note, the trace itself passed
                cl, _, at = clause.partition('#')
                for j in g:
                    verdict[j] = 'ok'
                verdict[g[int(at) - 1]] = cl
                nxt += [[j] for j in g[int(at):]]
                continue
            for j in g[:idx - 1]:
                verdict[j] = 'ok'
            verdict[g[idx - 1]] = clause
            nxt += [[j] for j in g[idx:]]
        groups = nxt[:cap]
    return verdict


def describe_fn(rec):
    def short(x):
        s = json.dumps(x, default=repr)
        return s if len(s) <= 160 else s[:157] + '...'
    out = '%s(%s%s)' % (rec['fn'], ', '.join(short(x) for x in rec.get('args', [])),
                        ''.join(', %s=%s' % (k, short(v)) for k, v in rec.get('kw', {}).items()))
    if 'exc' in rec:
        return out + ' raised %s: %s' % (rec['exc']['type'], rec['exc']['msg'][:120])
    return out + ' -> ' + short(rec.get('res'))


def describe_hist(h, idx, judged):
    """the failing event as the judge saw it (bytes shown as text)"""
    evs = judged.get('ev', []) if isinstance(judged, dict) else []
    e = dict(evs[idx - 1]) if 0 < idx <= len(evs) else {}
    for k in ('res', 'd'):
        if isinstance(e.get(k), list):
            e[k] = bytes(e[k][:80]).decode('latin-1')
    e.pop('lines', None)
    return '%s %s, event %d of %d: %s' % (h['cls'], json.dumps(h['ctor'])[:160], idx, len(evs), json.dumps(e)[:300])


H_REASONS = {
    'H:input': 'parse_host argument is not an authority (judge: UriOps!AuthorityShape fails, H:input)',
    'H:endsub': 'parent reader used before its delimit() sub-reader was exhausted (judge: H:endsub; C14 assumes it is not)',
}


def settle(ctx, fam, items, verdicts, describe):
    """verdicts -> accounting, VIOLATION lines (P clauses), NOTE lines (D clauses), skips (H clauses: the judge itself
    says the input is outside its domain)"""
    for (judged_input, rec, nodes), v in zip(items, verdicts):
        if v is None:
            fam.skip('not judged: behind more than 300 failing events of the same batch')
            continue
        clause, _, at = v.partition('@')
        if clause.startswith('H:'):
            fam.skip(H_REASONS.get(clause, 'judge: outside its input domain (%s)' % clause))
            if os.environ.get('G03_DUMP'):
                with open(os.environ['G03_DUMP'], 'a') as f:
                    f.write(json.dumps({'family': fam.key, 'verdict': v, 'tests': nodes[:3], 'what': describe(rec, int(at) if at else 0, judged_input)}) + '\n')
            continue
        fam.judged += 1
        ctx.case({'family': fam.key, 'tests': nodes[:2], 'verdict': v}, nontrivial=True, key=(fam.key, digest(judged_input)))
        if clause == 'ok':
            fam.ok += 1
            continue
        tests = sorted(set(nodes))
        case = {'family': fam.key, 'tests': tests[:6], 'record': rec if len(json.dumps(rec)) < 20000 else '(large)',
                'judged': judged_input if len(json.dumps(judged_input)) < 20000 else '(large)'}
        what = '%s: %s; first seen in %s' % (fam.title, describe(rec, int(at) if at else 0, judged_input), nodes[0])
        if clause.startswith('D:'):
            fam.details[clause] += 1
            ctx.detail('%s:%s' % (fam.key, clause), case, what)
        else:
            fam.violations[clause] += 1
            ctx.violation('%s:%s' % (fam.key, clause), case, what)


# ------------------------------------------------------------------------------------------------
# the check
# ------------------------------------------------------------------------------------------------

def format_guard():
    """The reader / stream histories cannot be made again (their sources are gone), so their traces are assembled here
    on the skeletons of C14 / C07.  If the owning check starts to write another set of fields than this file does, say
    so in plain words instead of letting TLC fail on a missing record field."""
    from checks import c07, c14
    probs = []
    # C14: one tiny history on the real sync reader
    t, _ = c14.run_history('sync', b'ab', 2, 2, [1 << 30], [('read', 1)])
    mine, why = expressible_reader({'cls': 'reader.sync', 'flags': [], 'ctor': {'maxlen': 2, 'cs': 2, 'default_cs': 2},
                                    'data': {'b': 'ab'}, 'src': [[2, 2]],
                                    'ev': [{'op': 'read', 'n': 1, 'd': {'b': ''}, 'c': False, 'res': {'b': 'a'}, 'err': False,
                                            'lines': [], 'tell': -1, 'eof': -1, 'pulled': 2}]})
    if mine is None:
        probs.append('reader sample not expressible: %s' % why)
    else:
        if set(mine) != set(t):
            probs.append('CursorTrace trace fields: c14 %s, g03 %s' % (sorted(t), sorted(mine)))
        if set(mine['ev'][0]) != set(t['ev'][0]):
            probs.append('CursorTrace event fields: c14 %s, g03 %s' % (sorted(t['ev'][0]), sorted(mine['ev'][0])))
    # C07: one tiny case per interface on the real streams
    for iface, case, hist in (
            ('wsgi', {'iface': 'wsgi', 'clhdr': '2', 'sent': [97, 98], 'hist': [['read', 1, None]]},
             {'cls': 'stream.wsgi', 'flags': [], 'ctor': {'cl': 2}, 'data': {'b': 'a'}, 'src': [['read', 1, 1]],
              'ev': [{'op': 'read', 'n': 1, 'res': {'b': 'a'}, 'lines': [], 'stop': False, 'err': '', 'eof': 0, 'tell': -1,
                      'recv': 0, 'reach': 1, 'rawpos': 1}]}),
            ('asgi', {'iface': 'asgi', 'clhdr': None, 'first': False, 'hist': [['read', 1]],
                      'evs': [{'t': 'req', 'body': [97], 'hb': True, 'mb': 1}]},
             {'cls': 'stream.asgi', 'flags': [], 'ctor': {'cl': None, 'first': False, 'first_given': False},
              'src': [{'t': 'req', 'body': {'b': 'a'}, 'hb': True, 'mb': 1}],
              'ev': [{'op': 'read', 'n': 1, 'res': {'b': 'a'}, 'lines': [], 'stop': False, 'err': '', 'eof': 1, 'tell': 1,
                      'recv': 1, 'reach': 0, 'rawpos': 0}]})):
        t, _ = c07.run_case(case)
        mine, why = expressible_stream(hist)
        if mine is None:
            probs.append('%s stream sample not expressible: %s' % (iface, why))
            continue
        if set(mine) != set(t):
            probs.append('BodyStreamTrace trace fields (%s): c07 %s, g03 %s' % (iface, sorted(t), sorted(mine)))
        if set(mine['ev'][0]) != set(t['ev'][0]):
            probs.append('BodyStreamTrace event fields (%s): c07 %s, g03 %s' % (iface, sorted(t['ev'][0]), sorted(mine['ev'][0])))
        if iface == 'asgi' and t['evs'] and mine['evs'] and set(t['evs'][0]) != set(mine['evs'][0]):
            probs.append('BodyStreamTrace receive-event fields: c07 %s, g03 %s' % (sorted(t['evs'][0]), sorted(mine['evs'][0])))
    if probs:
        raise MachineryError('the trace formats of the owning checks have moved away from what checks/g03.py assembles:\n  '
                             + '\n  '.join(probs))


def run(ctx):
    ctx.rule = ('case = one distinct call of a uri / query-string / media-type function, or one reader / body-stream '
                'history, made by a test of /repo/tests; distinct by hash of the judge\'s input; every judged case counts '
                'as non-trivial (it is an input a test author chose)')
    ctx.trusted_base = ['TLC 1.8 evaluation of spec/UriTrace, QueryStringTrace, MediaTypesTrace, CursorTrace, BodyStreamTrace (unchanged)',
                        'engine/suite_recorder_fn.py (transparent wrappers; copies, decides nothing)',
                        'event builders of checks/c10.py, c08.py, c07.py, c14.py and the projections of c11.py (reused, not copied)',
                        'conversions of checks/g03.py: code points, byte lists, documented renderings of typed query values, '
                        'the strict Accept-header reader (inverse of C11\'s renderer)']
    ctx.assumptions = ['the suite is run in place on /repo/tests with falcon imported from $FALCON_ROOT (source mode)',
                       'a reader\'s / stream\'s data is what its source returned while it was observed; a correct reader '
                       'decides from those bytes alone',
                       'records outside expressible_* are skipped and counted by reason, never accepted']
    scratch = tempfile.mkdtemp(prefix='g03-')
    try:
        _run(ctx, os.path.join(scratch, 'records'))
    finally:
        shutil.rmtree(scratch, ignore_errors=True)


def _run(ctx, outdir):
    files = QUICK_FILES if ctx.quick else ['tests']
    if os.environ.get('G03_RECORDS'):          # development aid only: judge an existing record directory again
        outdir = os.environ['G03_RECORDS']
        suite = {'summary': 'not run (G03_RECORDS)', 'passed': EXPECT_PASSED, 'failed': 0, 'failed_tests': []}
    else:
        suite = run_suite(ctx, files, outdir, workers=8, timeout=ctx.pick(600, 1800))
    ctx.extra['suite'] = suite
    print('G03 suite under the recorder: %s' % suite['summary'])
    fns, hists, counts, metas, errs = load(outdir)
    if errs:
        raise MachineryError('unreadable recorder lines: %r' % errs[:3])
    rec_errors = [e for m in metas for e in m.get('errors', [])]
    late = sorted(set(x for m in metas for x in m.get('late_patched', [])))
    if rec_errors:
        raise MachineryError('the recorder reported internal errors: %r' % rec_errors[:5])
    if len(fns) < 200 or len(hists) < 50:
        raise MachineryError('only %d calls / %d histories recorded (plugin not loaded?): %s' % (len(fns), len(hists), suite['summary']))
    unchanged = os.environ.get('FALCON_ROOT', REPO) == REPO
    if suite['failed']:
        msg = 'suite under the recorder: %d tests failed, e.g. %s' % (suite['failed'], suite['failed_tests'][:5])
        if unchanged:
            raise MachineryError(msg + ' (the recorder must be transparent on the unchanged tree)')
        print('NOTE ' + msg)
    if unchanged and not ctx.quick and suite['passed'] != EXPECT_PASSED:
        raise MachineryError('suite under the recorder: %s, expected %d passed' % (suite['summary'], EXPECT_PASSED))
    ctx.extra['recorder'] = {'late_patched': late, 'processes': len(metas)}
    ctx.progress('%d distinct function records, %d histories' % (len(fns), len(hists)))

    format_guard()
    fam = {k: Family(k, t) for k, t in FAMILIES}
    fam['U'].calls = sum(counts.get(f, 0) for f in URI_FNS)
    fam['Q'].calls = counts.get('parse_query_string', 0) + counts.get('to_query_str', 0)
    fam['M'].calls = counts.get('quality', 0) + counts.get('best_match', 0)
    fam['C'].calls = counts.get('hist:reader.sync', 0) + counts.get('hist:reader.async', 0)
    fam['B'].calls = counts.get('hist:stream.wsgi', 0) + counts.get('hist:stream.asgi', 0)
    for k, n in counts.items():
        if k.startswith('hist_empty:reader'):
            fam['C'].skipped['object never used (no public call)'] += n
            fam['C'].records += n
        elif k.startswith('hist_empty:stream'):
            fam['B'].skipped['object never used (no public call)'] += n
            fam['B'].records += n

    for rec in fns:
        fn = rec['fn']
        if fn in URI_FNS:
            f, (x, why) = fam['U'], expressible_uri(rec)
        elif fn in ('parse_query_string', 'to_query_str'):
            f, (x, why) = fam['Q'], expressible_query(rec)
        elif fn in ('quality', 'best_match'):
            f, (x, why) = fam['M'], expressible_media(rec)
        else:
            raise MachineryError('unknown recorded function %r' % fn)
        f.records += 1
        if x is None:
            f.skip(why)
        else:
            f.add(x, rec)
    for h in hists:
        if h['cls'].startswith('reader.'):
            f, (x, why) = fam['C'], expressible_reader(h)
        else:
            f, (x, why) = fam['B'], expressible_stream(h)
        f.records += 1
        if x is None:
            f.skip(why)
        else:
            f.add(x, h)

    # ---- judging ------------------------------------------------------------------------------------------
    for key, module, per, env in (('U', 'UriTrace', 25, XSS), ('Q', 'QueryStringTrace', 25, XSS), ('M', 'MediaTypesTrace', 25, None)):
        f = fam[key]
        items = list(f.items.values())
        verdicts = judge_events(ctx, module, [x for x, _, _ in items], per, env=env)
        settle(ctx, f, items, verdicts, lambda rec, at, x: describe_fn(rec))
        ctx.progress('family %s: %d distinct events judged by %s' % (key, len(items), module))
    for key, module in (('C', 'CursorTrace'), ('B', 'BodyStreamTrace')):
        f = fam[key]
        items = list(f.items.values())
        verdicts = ctx.judge(module, [x for x, _, _ in items], env=XSS, workers=8, timeout=1500, chunk=400)
        settle(ctx, f, items, verdicts, describe_hist)
        ctx.progress('family %s: %d distinct histories judged by %s' % (key, len(items), module))
    selftest(ctx, fam)
    ctx.extra['recorded_outcome_differs_from_rebuilt'] = dict(DIFFERS)
    if DIFFERS:
        print('G03 NOTE: for %s recorded calls the outcome in the suite differs from the outcome of the same call made again '
              'by the builder (the recorded outcome was judged)' % dict(DIFFERS))

    ctx.extra['families'] = {k: fam[k].summary() for k, _ in FAMILIES}
    for k, title in FAMILIES:
        s = fam[k].summary()
        print('G03 family %s (%s): calls recorded=%d distinct records=%d expressible=%d judged=%d accepted=%d violations=%s notes=%s'
              % (k, title, s['calls_recorded'], s['distinct_records'], s['expressible'], s['judged_distinct'], s['accepted'],
                 s['violations_by_clause'] or 0, s['detail_notes_by_clause'] or 0))
        for reason, n in sorted(s['skipped_by_reason'].items(), key=lambda kv: -kv[1]):
            print('G03   %s skipped %5d  %s' % (k, n, reason))
    if late:
        print('G03 NOTE: names patched after their importers had bound them: %s' % late)


def selftest(ctx, fam):
    """Vacuity guard: accepted observations of this very run, falsified in one field each, must be rejected by the
    clause that speaks about that field (otherwise a conversion or a judge has become vacuous)."""
    import copy
    cases = []          # (module, env, input, expected clause)

    def first(key, pred):
        for x, rec, _ in fam[key].items.values():
            if pred(x):
                return copy.deepcopy(x)
        return None
    x = first('U', lambda e: e['fn'] == 'decode' and not e['err'] and 37 in e['s'] and e['out'] and e['out'] != e['s'])
    if x:
        x['out'][-1] = x['out'][-1] + 1
        cases.append(('UriTrace', XSS, {'ev': [x]}, 'P:decode'))
    x = first('U', lambda e: e['fn'] == 'encode_value' and not e['err'] and 37 in e['out'])
    if x:
        i = x['out'].index(37)
        x['out'][i + 1:i + 3] = [50, 48] if x['out'][i + 1:i + 3] != [50, 48] else [50, 49]
        cases.append(('UriTrace', XSS, {'ev': [x]}, 'P:roundtrip'))
    x = first('U', lambda e: e['fn'] == 'parse_host' and not e['err'] and e['port'] > 0 and 91 not in e['s'])
    if x:
        x['port'] += 1
        cases.append(('UriTrace', XSS, {'ev': [x]}, 'P:port'))
    x = first('Q', lambda e: e['op'] == 'parse' and not e['err'] and len(e['entries']) >= 2)
    if x:
        x['entries'] = x['entries'][:-1]
        cases.append(('QueryStringTrace', XSS, {'ev': [x]}, 'P:params'))
    x = first('Q', lambda e: e['op'] == 'render' and not e['err'] and len(e['m']) >= 1 and e['q'] and e['m'][0]['v'] and e['m'][0]['v'][0])
    if x:
        x['q'] = x['q'][:-1] + [x['q'][-1] + 1 if x['q'][-1] in (48, 97) else 48]
        cases.append(('QueryStringTrace', XSS, {'ev': [x]}, 'P:roundtrip'))
    from checks import c11
    x = first('M', lambda e: e['op'] == 'quality' and e['exc'] == 'none' and e['res'] == c11.QONE)
    if x:
        x['res'] = c11.QONE // 2
        cases.append(('MediaTypesTrace', None, {'ev': [x]}, 'P:quality'))
    x = first('M', lambda e: e['op'] == 'best' and e['exc'] == 'none' and e['res'] >= 1 and len(e['cands']) >= 2)
    if x:
        x['res'] = 0
        cases.append(('MediaTypesTrace', None, {'ev': [x]}, 'P:best'))
    for kind in ('sync', 'async'):
        x = first('C', lambda t: t['kind'] == kind and any(e['res'] and e['op'] != 'peek' for e in t['ev']))
        if x:
            i = next(k for k, e in enumerate(x['ev']) if e['res'] and e['op'] != 'peek')
            x['ev'][i]['res'][-1] ^= 1
            if x['ev'][i]['op'] == 'readlines':
                x['ev'][i]['lines'][-1][-1] ^= 1
            cases.append(('CursorTrace', XSS, x, 'P:res'))
    x = first('C', lambda t: t['kind'] == 'async' and any(e['tell'] > 0 for e in t['ev']))
    if x:
        i = next(k for k, e in enumerate(x['ev']) if e['tell'] > 0)
        x['ev'][i]['tell'] += 1
        cases.append(('CursorTrace', XSS, x, 'P:tell'))
    for iface in ('wsgi', 'asgi'):
        x = first('B', lambda t: t['iface'] == iface and any(e['res'] for e in t['ev']))
        if x:
            i = next(k for k, e in enumerate(x['ev']) if e['res'])
            x['ev'][i]['res'][-1] ^= 1
            cases.append(('BodyStreamTrace', XSS, x, 'P:prefix'))
    x = first('B', lambda t: t['iface'] == 'wsgi' and t['ev'])
    if x:
        x['ev'][-1]['reach'] = 1000000
        cases.append(('BodyStreamTrace', XSS, x, 'P:overask'))
    if len(cases) < 10 and not ctx.violations:
        raise MachineryError('self-test: only %d falsified observations could be built from this run' % len(cases))
    bad = []
    for module in sorted(set(c[0] for c in cases)):
        mine = [c for c in cases if c[0] == module]
        got = ctx.judge(module, [c[2] for c in mine], env=mine[0][1], workers=2, timeout=600)
        ctx.traces_validated -= len(mine)
        bad += [(module, want, g) for (_, _, _, want), g in zip(mine, got) if g.split('@')[0] != want]
    if bad:
        raise MachineryError('self-test: falsified observations were not rejected as expected (judge, expected, got): %r' % bad)
    ctx.extra['selftest_falsified_rejected'] = len(cases)
    ctx.progress('self-test: %d falsified observations rejected by the clauses that speak about them' % len(cases))


class NotReexecutable(Exception):
    pass


def dec(x):
    """typed copy -> the value (function arguments only)"""
    if x is None or isinstance(x, (bool, int, str)):
        return x
    if isinstance(x, list):
        return [dec(y) for y in x]
    if isinstance(x, dict):
        if 'o' in x:
            raise NotReexecutable(x['o'])
        if 'b' in x:
            return x['b'].encode('latin-1')
        if 't' in x:
            return tuple(dec(y) for y in x['t'])
        if 's' in x:
            return [dec(y) for y in x['s']]
        if 'f' in x:
            return float(x['f'])
        if 'd' in x:
            return {dec(k): dec(v) for k, v in x['d']}
    raise NotReexecutable(repr(x)[:60])


def reexecute(rec):
    """the recorded call made again on the current tree -> a record as the recorder would write it"""
    from engine import suite_recorder_fn as R
    import falcon.util.mediatypes
    import falcon.util.misc
    import falcon.util.uri
    name = rec['fn']
    mod = falcon.util.misc if name == 'to_query_str' else falcon.util.mediatypes if name in ('quality', 'best_match') \
        else falcon.util.uri
    f = getattr(mod, name)
    f = getattr(f, '_suite_recorder_original', f)
    a, k = [dec(x) for x in rec.get('args', [])], {n: dec(v) for n, v in rec.get('kw', {}).items()}
    new = {'kind': 'fn', 'fn': name, 'args': rec.get('args', []), 'kw': rec.get('kw', {}), 'node': 'replay'}
    try:
        res = f(*a, **k)
    except Exception as ex:
        new['exc'] = R._exc(ex)
        return new
    new['res'] = R.enc(res)
    return new


def replay(ctx, case):
    """A recorded function call is made again on the current tree and judged; a reader / stream history is judged again
    as it was recorded (its source is not available any more)."""
    fam_key = case['family']
    module = {'U': 'UriTrace', 'Q': 'QueryStringTrace', 'M': 'MediaTypesTrace', 'C': 'CursorTrace', 'B': 'BodyStreamTrace'}[fam_key]
    x = case['judged']
    rec = case.get('record')
    print('tests:', case.get('tests'))
    print('record:', json.dumps(rec, default=repr)[:2000])
    if fam_key in 'UQM' and isinstance(rec, dict):
        try:
            now = reexecute(rec)
            print('now:   ', describe_fn(now))
            x2, why = {'U': expressible_uri, 'Q': expressible_query, 'M': expressible_media}[fam_key](now)
            if x2 is None:
                print('the call as made now is outside the judge\'s domain: %s' % why)
                return
            x = x2
        except NotReexecutable as ex:
            print('the call cannot be made again (argument %s); judging the recorded observation' % ex)
    if x == '(large)':
        print('the judged input was too large to be stored in the replay file')
        return
    trace = {'ev': [x]} if fam_key in 'UQM' else x
    v = ctx.judge(module, [trace], env=XSS if fam_key != 'M' else None, workers=1)[0]
    print('verdict:', v)
    clause = v.split('@')[0]
    if clause != 'ok' and clause.startswith('P:'):
        ctx.violation('%s:%s' % (fam_key, clause), case, 'rejected again: %s' % v)
