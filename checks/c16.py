"""C16 - static routes never leave their directory and serve exactly the requested bytes.

spec:   spec/StaticRouteOps.tla   property layer (PVerdict) + design layer (Expected) over atom strings
        spec/StaticRoute.tla      one request through the designed pipeline as a state machine + invariants
        spec/MC_StaticRoute.tla   bounded instances, case export, file-system export
        spec/StaticRouteTrace.tla trace judge
legs:   M  exhaustive TLC: remainders assembled from a traversal grammar of tokens x fallback
           configurations; every (size, Range, If-Modified-Since) combination; conditional requests under every
           process time zone (DecisionIndependentOfZone); Range positions as magnitude classes with a symbolic
           Huge (MC_StaticRouteHuge.cfg); the wrong designs must fail
        A  every request of the small instances, with the outcome TLC computed for it, replayed on the
           real static route (raw WSGI and ASGI drivers, raw and percent-encoded spellings, a real
           temp tree built from the specification's file-system constant, open() audit); cases with a Huge
           position once per concrete numeral (2^31 .. 10^30)
        B  seeded random requests beyond the bound (longer traversal paths, name mutations, larger
           Range numbers) recorded from the real route and judged by TLC (StaticRouteTrace)
"""
import asyncio
import email.utils
import os
import random
import re
import shutil
import sys
import threading
import time

META = {
    'property_id': 'C16',
    'design_ref': 'DESIGN.md section 4, C16',
    'technique': 'TLA+ specification of path sanitising, file resolution, Range and If-Modified-Since handling '
                 'model-checked with TLC; TLC-exported requests replayed on the real static route with an open() '
                 'audit; recorded requests judged by TLC',
    'level_text': 'The designed pipeline (spec/StaticRouteOps.tla) is model-checked exhaustively against the property '
                  'layer (containment of every path handed to open(), must-serve / may-serve, slice, Content-Range, '
                  'Content-Length, 416, 304) for all remainders of up to 4-5 grammar tokens x 3 fallback '
                  'configurations, all (size<=6, first<=7, last<=7, suffix<=7) x If-Modified-Since cases and all '
                  'If-Modified-Since offsets (0, +-1 s, +-(UTC offset) +-1 s, far) under 8 process time zones; every '
                  'such request is replayed on the real route over WSGI and ASGI on a real directory tree with '
                  'sys.addaudithook recording which files were opened, and seeded random requests beyond the bound '
                  'are judged by TLC.',
    'level_note': 'Bounded: one fixed directory tree (files of sizes 0..6, a subdirectory, a sibling directory sharing '
                  'the root\'s name prefix, outside files), no symlinks, POSIX only; GET only. The process time zone is '
                  'switched with TZ + time.tzset() around every request (zones whose offsets the C library does not '
                  'reproduce are skipped and listed). Character classes are '
                  'represented by atoms and rendered by the harness (trusted: atom rendering, urllib unquote in the '
                  'drivers, os.path.realpath, re for Content-Range, email.utils.formatdate). Attempted opens count '
                  'as opens. Error-response bodies are not modelled. Interpreter-internal opens of .py/.pyc files '
                  '(lazy imports) are ignored and counted. Range positions of any magnitude: a position is a small number '
                  '(exhaustive 0..7 on sizes 0..6) or the symbolic class Huge (two ranks, so every order of two Huge '
                  'numbers occurs); TLC decides Huge first / last / both / suffix on files of size 0, 1, 2, 3, 6 and a missing '
                  'file (MC_StaticRouteHuge.cfg: DecisionDependsOnlyOnMagnitudeClass, HugeDecidedAsJustBeyond, '
                  'HugeNeverFails, HugeFirstUnsatisfiable, HugeLastClamped, HugeSuffixWhole; wrong design BigPositions = '
                  'FALSE, seek before compare, fails five of them). Every such case is replayed with Huge written as each '
                  'of 2^31, 2^32, 2^63-1, 2^63, 10^19, 2^64, 10^20, 10^25, 10^30 (leading zeros, WSGI, ASGI on a '
                  'third of them in quick / all in thorough); random requests draw from 29 numerals up to 10^100. Not '
                  'covered: numerals longer than the interpreter\'s int-from-string limit (4300 digits), signs, '
                  'white space inside the range-spec.',
}

from engine import drivers
from engine.core import MachineryError, digest

# every file's mtime is EPOCHS[e] + 0.5 s (September 2001 / January 2002: both sides of a DST switch); an
# If-Modified-Since delta of 0 means equal after dropping the fraction
NOW0 = int(time.time())
# the server clock is an environment dimension: files dated in the past and in the future of it
EPOCHS = {'past': 1000000000, 'past2': 1010000000, 'future1d': NOW0 + 86400, 'future10y': NOW0 + 315360000}
T0 = EPOCHS['past']
BADLM = -999999998
PREFIXES = ('/static', '/s/t', '/static/')

# ---------------------------------------------------------------------------------------------
# open() audit (audit hooks cannot be removed: one hook, switched on per request)

_AUDIT = {'on': False, 'log': [], 'skip': set()}


def _hook(event, args):
    # process-wide: the harness's own background threads (running TLC) are excluded by thread id
    if _AUDIT['on'] and event == 'open' and threading.get_ident() not in _AUDIT['skip']:
        _AUDIT['log'].append(args[0])


_hook_installed = []


def install_hook():
    if not _hook_installed:
        sys.addaudithook(_hook)
        _hook_installed.append(1)


# ---------------------------------------------------------------------------------------------
# the world: a real tree built from the specification's FS constant, apps, renderers

BAD_CHARS = [b'%00', b'%01', b'%09', b'%0A', b'%0D', b'%1F', b'%1B', b'%C2%80', b'%C2%85', b'%C2%9F', b'%EF%BF%BD',
             b'%C0', b'%FF', b'%C0%AF', b'%ED%A0%80', b'~', b'%7E', b'%3F', b'<', b'%3C', b'>', b':', b'%3A', b'*',
             b'|', b'%7C', b"'", b'%27', b'"', b'%22']
SP_CHARS = [b'%20', b' ', b'%C2%A0', b'%E2%80%83', b'%E3%80%80']
U_CHARS = ['\u00e9', '\uff0e', '\uff0f', '\uff3c', '\u2025', '\x7f', '%', '+', ';', '=', '&', '@', '$', ',', '!', '(',
           ')', '[', ']', '{', '}', '^', '`', '\u202e', '\u200b', '\ufeff', '\u2215', '\u00b7', '\u2024']
UNIT_RANGES = ['items=0-1', 'lines=-1', 'seconds=5-', 'none=x', 'Bytes2=0-0']
BAD_RANGES = ['bytes 0-1', 'bytes=0-0,2-3', 'bytes=-', 'bytes=x-1', 'bytes=3', 'bytes=', 'bytes=1-x', 'bytes=--1',
              '0-1', 'bytes=0-0,-1']
BAD_DATES = ['garbage', 'Tue, 35 Nov 1994 12:45:26 GMT', '12345']
# the numerals the specification's position class Huge is instantiated with (ascending): beyond every file size,
# beyond 32-bit and 64-bit integers, beyond any offset seek() accepts
HUGE = sorted([2 ** 31, 2 ** 32, 2 ** 63 - 1, 2 ** 63, 2 ** 64, 10 ** 19, 10 ** 20, 10 ** 25, 10 ** 30])
HUGE_MORE = sorted(set(HUGE + [2 ** 31 + 1, 2 ** 32 - 1, 2 ** 32 + 1, 2 ** 53, 2 ** 62, 2 ** 63 + 1, 2 ** 64 - 1, 2 ** 64 + 1,
                               2 ** 65, 2 ** 127, 2 ** 128, 10 ** 10, 10 ** 12, 10 ** 15, 10 ** 18, 10 ** 21, 10 ** 40,
                               10 ** 100, 4294967296 * 3 + 1, 18446744073709551616 + 2]))
ZEROS = ('', '', '0', '00', '0' * 25)


def numerals(r, rng, pool=HUGE_MORE, pick=None):
    """the two position numerals of a Range: small numbers as they are, Huge ones from the pool with the order
    the ranks (ha, hb) say; pick = index into the pool instead of a random choice"""
    ha, hb = r.get('ha', 0), r.get('hb', 0)
    if ha and hb:
        i = rng.randrange(len(pool) - 1) if pick is None else pick % (len(pool) - 1)
        lo, hi = pool[i], pool[i + 1 if pick is not None or rng.random() < 0.5 else rng.randrange(i + 1, len(pool))]
        x, y = (lo, lo) if ha == hb else (lo, hi) if ha < hb else (hi, lo)
    else:
        h = pool[rng.randrange(len(pool)) if pick is None else pick % len(pool)]
        x, y = (h if ha else r['a']), (h if hb else r['b'])
    z = lambda: rng.choice(ZEROS) if (pick is None or ha or hb) else ''
    return z() + str(x), z() + str(y)


class World:
    def __init__(self, fs, rng):
        import falcon  # noqa: F401  (source importer installed by the CLI)
        self.fs = fs
        self.widths = fs['widths']
        # same length every time (the width table depends on it); a concurrent run with the same seed must not collide
        pick = rng
        for _attempt in range(50):
            name = 'c16' + ''.join(pick.choice('abcdefghijklmnopqrstuvwxyz0123456789') for _ in range(8))
            self.base = os.path.join('/tmp', name)
            try:
                os.mkdir(self.base, 0o700)
                break
            except FileExistsError:
                pick = random.SystemRandom()
        else:
            raise MachineryError('cannot create a scratch directory under /tmp')
        self.names = {'base': name, 'L': 'L' * 171, 'M': 'M' * 170}
        for a, w in self.widths.items():
            if a in ('/', '.', 'sp', 'bsl', 'bad', 'u'):
                continue
            self.names.setdefault(a, a)
            if len(self.names[a]) != w:
                raise MachineryError('atom %r renders with %d characters, the specification says %d'
                                     % (a, len(self.names[a]), w))
        for f in sorted(fs['files'], key=lambda f: len(f['path'])):
            if len(f['path']) <= len(fs['root']) - 1:       # '/', '/tmp' and the scratch directory itself
                continue
            p = self.abspath(f['path'])
            if f['size'] < 0:
                os.mkdir(p)
            else:
                with open(p, 'wb') as fh:
                    fh.write(bytes(f['content']))
                os.utime(p, (T0 + 0.5, T0 + 0.5))
        self.root = self.abspath(fs['root'])
        self.rootreal = os.path.realpath(self.root)
        self.fbout = self.abspath(fs['fbout'])
        self.sibling = self.abspath(fs['sibling'])
        self.fbin_rel = '/'.join(self.segstr(s) for s in fs['fbin'][len(fs['root']):])
        self.apps = {}
        self.nolm = fs['nolm']
        self.files = [self.abspath(f['path']) for f in fs['files'] if f['size'] >= 0]
        self.epoch = 'past'
        self.mpath = self.abspath(fs['mfile'])
        self.mversions = [bytes(x) for x in fs['mversions']]
        self.mstate = 0
        for k, nm in fs['clocks'].items():
            if (NOW0 - EPOCHS[k] > 0) != (nm > 0):
                raise MachineryError('clock %r is on the other side of now than the specification says' % k)
        self.tz0 = os.environ.get('TZ')
        # process time zones: usable iff the C library really gives the offsets the specification lists
        self.zones, self.zone_requests = {}, {}
        for z, offs in fs['zones'].items():
            os.environ['TZ'] = z
            time.tzset()
            if [time.localtime(EPOCHS[e]).tm_gmtoff for e in ('past', 'past2')] == list(offs):
                self.zones[z] = list(offs)
        self.set_zone('UTC')
        if 'UTC' not in self.zones or len([z for z, o in self.zones.items() if o[0]]) < 3:
            raise MachineryError('fewer than three non-UTC process time zones are usable here: %r' % self.zones)
        self.loop = asyncio.new_event_loop()
        self.ignored = 0
        self.proto_errors = 0
        self.pyroots = tuple(os.path.realpath(p) + os.sep for p in
                             {sys.prefix, sys.base_prefix, os.environ.get('FALCON_ROOT', '/repo'),
                              os.path.dirname(os.path.dirname(os.path.abspath(__file__)))})

    def set_zone(self, z):
        os.environ['TZ'] = z
        time.tzset()

    def set_epoch(self, e):
        if e != self.epoch:
            for p in self.files + ([self.mpath] if self.mstate else []):
                os.utime(p, (EPOCHS[e] + 0.5, EPOCHS[e] + 0.5))
            self.epoch = e

    def set_m(self, m):
        """the mutable file root/m: 0 absent, 1 / 2 present in one of two versions"""
        if m != self.mstate:
            if m == 0:
                os.unlink(self.mpath)
            else:
                with open(self.mpath, 'wb') as fh:
                    fh.write(self.mversions[m - 1])
                os.utime(self.mpath, (EPOCHS[self.epoch] + 0.5, EPOCHS[self.epoch] + 0.5))
            self.mstate = m

    def segstr(self, seg):
        return ''.join('.' if a == '.' else self.names[a] for a in seg)

    def abspath(self, path):
        return '/' + '/'.join(self.segstr(s) for s in path)

    def close(self):
        try:
            self.loop.run_until_complete(self.loop.shutdown_default_executor())
            self.loop.close()
        except Exception:
            pass
        shutil.rmtree(self.base, ignore_errors=True)
        if self.tz0 is None:
            os.environ.pop('TZ', None)
        else:
            os.environ['TZ'] = self.tz0
        time.tzset()

    # ---- apps ------------------------------------------------------------------------------
    def app(self, iface, fb, dl, pv, dv, lifo=0, fresh=False):
        key = (iface, fb, dl, pv, dv, lifo)
        if fresh:
            self.app(*key)             # warmed up once; then a new app = a new route object with no history
        if fresh or key not in self.apps:
            import falcon
            import falcon.asgi
            import pathlib
            a = falcon.App() if iface == 'wsgi' else falcon.asgi.App()
            d = (self.root, self.root + '/', pathlib.Path(self.root))[dv]
            kw = {}
            if fb == 'in':
                kw['fallback_filename'] = self.fbin_rel
            elif fb == 'out':
                kw['fallback_filename'] = self.fbout
            if lifo:
                # an earlier registration of the same prefix must be overridden by the later one (documented LIFO
                # order); the decoy serves the sibling directory, so a wrong order shows up as an outside open
                a.add_static_route(PREFIXES[pv], self.sibling)
            a.add_static_route(PREFIXES[pv], d, downloadable=bool(dl), **kw)
            if fresh:
                return a
            self.apps[key] = a
            # warm-up: let the interpreter do its lazy imports before anything is audited
            pre = PREFIXES[pv].rstrip('/').encode()
            for tgt, hs in ((b'/f3', ()), (b'/f3', [('Range', 'bytes=1-1')]), (b'/f3', [('Range', 'bytes=9-')]),
                            (b'/f3', [('Range', 'bytes=x')]), (b'/nope', ()), (b'/..', ()),
                            (b'/f3', [('If-Modified-Since', email.utils.formatdate(T0 + 5, usegmt=True))]),
                            (b'/f3', [('If-Modified-Since', 'garbage')])):
                self.call(a, iface, drivers.Req(target=pre + tgt, headers=hs), False)
        return self.apps[key]

    def call(self, app, iface, req, fw):
        if iface == 'wsgi':
            return drivers.wsgi_call(app, req, file_wrapper=drivers.FileWrapper if fw else None)
        return self.loop.run_until_complete(drivers.asgi_call_async(app, req))

    # ---- rendering ---------------------------------------------------------------------------
    def render(self, atoms, mode, rng):
        """atoms -> target bytes (after the prefix).  mode: 'raw' | 'enc' | 'mix'.  Returns (bytes, escaped?)"""
        out = []
        esc = False
        for a in atoms:
            enc = mode == 'enc' or (mode == 'mix' and rng.random() < 0.4)
            if a == '/':
                b = rng.choice((b'%2F', b'%2f')) if enc else b'/'
            elif a == '.':
                b = rng.choice((b'%2E', b'%2e')) if enc else b'.'
            elif a == 'sp':
                b = rng.choice(SP_CHARS) if mode != 'raw' else rng.choice(SP_CHARS[:2])
            elif a == 'bsl':
                b = rng.choice((b'%5C', b'%5c')) if enc else b'\\'
            elif a == 'bad':
                b = rng.choice(BAD_CHARS)
            elif a == 'u':
                b = ''.join('%%%02X' % x for x in rng.choice(U_CHARS).encode('utf-8')).encode()
            else:
                s = self.names[a]
                b = ''.join('%%%02X' % ord(ch) for ch in s).encode() if (enc and len(s) < 20) else s.encode()
            esc = esc or b'%' in b
            out.append(b)
        return b''.join(out), esc

    @staticmethod
    def headers(c, rng, pick=None):
        hs = []
        r = c['range']
        k = r['k']
        if k != 'none':
            sa, sb = numerals(r, rng, HUGE_MORE if pick is None else HUGE, pick)
            v = {'fl': 'bytes=%s-%s' % (sa, sb), 'f': 'bytes=%s-' % sa, 's': 'bytes=-%s' % sa,
                 'unit': rng.choice(UNIT_RANGES), 'bad': rng.choice(BAD_RANGES)}[k]
            hs.append((rng.choice(('Range', 'range', 'RANGE')), v))
        i = c['ims']
        if i['k'] == 'date':
            hs.append(('If-Modified-Since', email.utils.formatdate(EPOCHS[c['clock']] + i['d'], usegmt=True)))
        elif i['k'] == 'bad':
            hs.append(('If-Modified-Since', rng.choice(BAD_DATES)))
        return hs

    # ---- one request, projected ---------------------------------------------------------------
    def loc(self, p, fb):
        try:
            real = os.path.realpath(os.fsdecode(p))
        except Exception:
            return 'out'
        if real == self.rootreal or real.startswith(self.rootreal + os.sep):
            return 'in'
        if fb == 'out' and real == os.path.realpath(self.fbout):
            return 'fb'
        if real.endswith(('.py', '.pyc')) and real.startswith(self.pyroots):
            self.ignored += 1           # the interpreter importing something lazily
            return None
        return 'out'

    def observe(self, c, v, app=None):
        """Run abstract request c in concrete variant v on the real route; returns the projected observation."""
        if app is None:
            app = self.app(v['iface'], c['fb'], v['dl'], v['pv'], v['dv'], v.get('lifo', 0))
        pre = PREFIXES[v['pv']].rstrip('/')
        target = pre.encode() + (b'' if c['head'] == 'bare' else b'/' + v['target'].encode('latin-1'))
        req = drivers.Req(target=target, headers=[tuple(h) for h in v['headers']])
        self.set_epoch(c['clock'])
        self.set_zone(c['zone'])
        self.zone_requests[c['zone']] = self.zone_requests.get(c['zone'], 0) + 1
        _AUDIT['log'] = log = []
        _AUDIT['on'] = True
        try:
            r = self.call(app, v['iface'], req, v['fw'])
        finally:
            _AUDIT['on'] = False
            self.set_zone('UTC')
        if r.errors:
            self.proto_errors += 1
        opens = [x for x in (self.loc(p, c['fb']) for p in log if not isinstance(p, int)) if x]
        st = r.status if isinstance(r.status, int) else 0
        crh = r.header_all('content-range')
        if not crh:
            cr = [-1, -1, -1]
        else:
            m = re.match(r'^bytes (\d{1,9})-(\d{1,9})/(\d{1,9})$', crh[0])
            m2 = re.match(r'^bytes \*/(\d{1,9})$', crh[0])
            cr = [int(x) for x in m.groups()] if m and len(crh) == 1 else \
                [-2, -2, int(m2.group(1))] if m2 and len(crh) == 1 else [-3, -3, -3]
        clh = r.header_all('content-length')
        served = st in (200, 206, 304)
        clen = -1 if (not clh or not served) else \
            int(clh[0]) if len(clh) == 1 and re.match(r'^\d{1,9}$', clh[0]) else -3
        lm = self.nolm
        lmh = r.header_all('last-modified')
        if served and lmh:
            try:
                dt = email.utils.parsedate_to_datetime(lmh[0])
                lm = int(dt.timestamp()) - EPOCHS[self.epoch] if len(lmh) == 1 and dt.tzinfo is not None else BADLM
                if abs(lm) > 2 * 10 ** 9:
                    lm = BADLM
            except Exception:
                lm = BADLM
        return {'status': st, 'body': list(r.body) if served else [], 'cr': cr, 'clen': clen, 'opens': opens,
                'exc': r.exc is not None, 'lm': lm}, r


def variant(world, c, rng, iface=None, mode=None, pick=None):
    tb, esc = world.render(c['path'], mode or rng.choice(('raw', 'enc', 'mix')), rng)
    return {'iface': iface or rng.choice(('wsgi', 'asgi')), 'dl': rng.randrange(2), 'pv': rng.randrange(len(PREFIXES)),
            'dv': rng.randrange(3), 'fw': rng.randrange(2), 'lifo': rng.randrange(2), 'target': tb.decode('latin-1'),
            'headers': World.headers(c, rng, pick), 'escaped': esc}


def nontrivial(c, v):
    return any(a in ('.', 'sp', 'bsl', 'bad') for a in c['path']) or v['escaped'] or c['range']['k'] != 'none'


# ---------------------------------------------------------------------------------------------
# leg B: seeded random requests beyond the exhaustive bound

IN_NAMES = [['f3'], ['f0'], ['f6'], ['f1'], ['f5', '.', 't'], ['sub'], ['g2'], ['f3'], ['sub']]
OUT_NAMES = [['base'], ['tmp'], ['root'], ['root', 'x'], ['s4'], ['o5'], ['fb3']]
GHOSTS = [['x'], ['u'], ['m'], ['f3', 'x'], ['x', 'x'], ['L'], ['M'], ['t'], ['f5', '.'], ['u', 'u'], ['.', '.', '.'],
          ['.', '.', 'x'], ['.', 'f3'], ['f5', 't']]
DD = ['.', '.']


def rand_seg(rng):
    t = rng.random()
    if t < 0.25:
        return list(DD)
    if t < 0.32:
        return ['.']
    if t < 0.37:
        return []
    if t < 0.62:
        return list(rng.choice(IN_NAMES))
    if t < 0.80:
        return list(rng.choice(OUT_NAMES))
    if t < 0.88:
        return list(rng.choice(GHOSTS))
    s = list(rng.choice(IN_NAMES + OUT_NAMES + [DD]))
    s.insert(rng.choice((0, len(s), rng.randint(0, len(s)))), rng.choice(('.', 'sp', 'bsl', 'bad', 'u', 'sp', 'bad')))
    return s


def rand_path(rng):
    t = rng.random()
    up = lambda k: [list(DD) for _ in range(k)]
    if t < 0.08:
        segs = up(rng.randint(1, 4)) + [['root', 'x'], ['s4']]
    elif t < 0.14:
        segs = up(rng.randint(1, 4)) + [rng.choice((['o5'], ['fb3'], ['root'], ['base']))]
    elif t < 0.20:
        segs = [['sub']] + up(rng.randint(1, 4)) + [rng.choice((['o5'], ['f3'], ['root', 'x'], ['root']))] + \
               rng.choice(([], [['s4']], [['f3']]))
    elif t < 0.27:
        segs = [[], ['tmp'], ['base']] + rng.choice(([['root', 'x'], ['s4']], [['o5']], [['root'], ['f3']], [['fb3']],
                                             [['root', 'x']], [['root']]))
    elif t < 0.31:
        segs = up(rng.randint(1, 3)) + [['root']] + rng.choice(([['f3']], [['sub'], ['g2']], [], [['x']]))
    elif t < 0.35:
        segs = rng.choice(([['L', 'L', 'M']], [['L', 'L', 'L']], [['L'], ['L'], ['M']], [['L', 'L', 'M', 'x']],
                           [['L'], ['L'], ['L']], [['L'], ['.', '.'], ['f3']]))
    elif t < 0.40:
        segs = [['.'] for _ in range(rng.randint(1, 5))] + [list(rng.choice(IN_NAMES))]
    elif t < 0.55:
        segs = [list(rng.choice(IN_NAMES))] if rng.random() < 0.6 else [['sub'], ['g2']]
        if rng.random() < 0.5:                                   # mutation of an existing name
            s = segs[-1]
            s.insert(rng.choice((0, len(s))), rng.choice(('.', 'sp', 'bsl', 'bad', 'u', 'x')))
    else:
        segs = [rand_seg(rng) for _ in range(rng.randint(1, 7))]
    t = rng.random()
    if t < 0.08:
        segs = [[]] + segs
    elif t < 0.16:
        segs = segs + [[]]
    elif t < 0.19:
        segs = segs + [['.']]
    elif t < 0.22:
        segs[-1] = segs[-1] + ['sp']
    elif t < 0.24:
        segs[0] = ['sp'] + segs[0]
    out = []
    for i, s in enumerate(segs):
        if i:
            out.append('/')
        out.extend(s)
    return out


def rand_num(rng):
    t = rng.random()
    return rng.randint(0, 9) if t < 0.9 else rng.choice((10, 100, 65536, 10 ** 9))


def rand_pos(rng):
    """(small number, rank): rank 0 = the small number; rank 1, 2 = Huge (rendered by numerals())"""
    return (0, rng.choice((1, 1, 2))) if rng.random() < 0.18 else (rand_num(rng), 0)


def rand_case(rng, zones, zones_off):
    t = rng.random()
    k = 'none' if t < 0.35 else 'fl' if t < 0.60 else 'f' if t < 0.72 else 's' if t < 0.84 else \
        'unit' if t < 0.90 else 'bad'
    pa, pb = (rand_pos(rng) if k in ('fl', 'f', 's') else (0, 0)), (rand_pos(rng) if k == 'fl' else (0, 0))
    r = {'k': k, 'a': pa[0], 'b': pb[0], 'ha': pa[1], 'hb': pb[1]}
    zone = rng.choice(zones)
    clock = rng.choice(('past', 'past2', 'future1d', 'future10y'))
    t = rng.random()
    if t < 0.5:
        ims = {'k': 'none', 'd': 0}
    elif t < 0.56:
        ims = {'k': 'bad', 'd': 0}
    else:
        off = abs(rng.choice(zones_off[zone]))
        t = rng.random()
        d = rng.choice((-1, 0, 1)) if t < 0.35 else \
            rng.choice((-1, 1)) * (off + rng.choice((-1, 0, 1))) if t < 0.75 else \
            rng.randint(-off - 2, off + 2) if t < 0.85 else \
            rng.choice((-34560000, 345600000, -3600, 3600, 86400, 1500000000, 800000000, 86401, 315360001))
        ims = {'k': 'date', 'd': d}
    fb = rng.choice(('none', 'none', 'in', 'out'))
    if rng.random() < 0.02:
        return {'path': [], 'fb': fb, 'head': rng.choice(('under', 'bare')), 'range': r, 'ims': ims, 'zone': zone, 'clock': clock}
    if k != 'none' and rng.random() < 0.6:          # range cases mostly hit a file
        path = list(rng.choice(IN_NAMES[:5])) if rng.random() < 0.8 else ['sub', '/', 'g2']
    else:
        path = rand_path(rng)
    if ims['k'] != 'none' and rng.random() < 0.5:   # conditional cases mostly hit a file
        path = list(rng.choice(IN_NAMES[:5]))
    return {'path': path, 'fb': fb, 'head': 'under', 'range': r, 'ims': ims, 'zone': zone, 'clock': clock}


# ---------------------------------------------------------------------------------------------

def signature(clause, c):
    return {'clause': clause, 'fb': c['fb'], 'head': c['head'], 'range_kind': c['range']['k'], 'ims': c['ims']['k'],
            'range_huge': [int(c['range'].get('ha', 0) > 0), int(c['range'].get('hb', 0) > 0)],
            'ims_sign': (c['ims']['d'] > 0) - (c['ims']['d'] < 0), 'zone': c['zone'], 'clock': c['clock'],
            'path_atoms': sorted(set(a for a in c['path'] if a in ('/', '.', 'sp', 'bsl', 'bad', 'u', 'L', 'M')))}


def judge_and_report(ctx, items, origin):
    """items: list of (steps, variants): steps = [{'m': state of root/m, 'c': request, 'o': observation}], one
    variant per step.  Steps of one item repeat one request under several spellings, or form a history on one
    route object.  TLC decides."""
    if not items:
        return
    traces = [{'steps': steps} for steps, _ in items]
    verdicts = ctx.judge('StaticRouteTrace', traces, timeout=1500, workers=8, chunk=6000)
    for (steps, vs), verdict in zip(items, verdicts):
        if verdict == 'ok':
            continue
        clause, _, at = verdict.partition('@')
        k = max(0, min(len(steps) - 1, int(at or 1) - 1))
        c, o = steps[k]['c'], steps[k]['o']
        history = any(st['c'] != c or st['m'] != steps[k]['m'] for st in steps)
        case = {'c': c, 'variant': vs[k], 'obs': o, 'origin': origin}
        if history:
            case['steps'] = [{'m': st['m'], 'c': st['c'], 'variant': v} for st, v in zip(steps[:k + 1], vs)]
        what = '%s: %srequest %s with root/m in state %d -> status %s opens %s body %s (judged by StaticRouteTrace)' % (
            origin, 'step %d of a history on one route, ' % (k + 1) if history else '',
            {kk: c[kk] for kk in ('path', 'fb', 'head', 'range', 'ims', 'zone', 'clock')}, steps[k]['m'], o['status'],
            o['opens'], o['body'][:8])
        if clause.startswith('P:'):
            sig = signature(clause, c)
            if history:
                sig['history'] = [[st['m'], ''.join(st['c']['path'])] for st in steps[:k + 1]]
            ctx.violation(clause, case, what, signature=sig)
        else:
            ctx.detail(clause, case, what)


def run(ctx):
    ctx.rule = ('case = (remainder as atoms, fallback configuration, prefix spelling, Range, If-Modified-Since offset from '
                'the modification time, process time zone) x concrete '
                'variant (interface, percent-encoding, prefix, directory spelling, downloadable, file_wrapper, modification '
                'epoch, an earlier '
                'registration of the same prefix); '
                'non-trivial iff the path contains a dot segment, an escape or a disallowed character, or a Range '
                'header is present; distinct by hash of (case, target bytes, headers, interface)')
    ctx.trusted_base = ['TLC 1.8 evaluation of spec/StaticRouteOps.tla', 'engine/drivers.py raw WSGI/ASGI drivers',
                        'atom rendering in checks/c16.py', 'os.path.realpath', 're (Content-Range, Content-Length)',
                        'email.utils.formatdate / parsedate_to_datetime', 'sys.addaudithook open events',
                        'TZ + time.tzset() of the C library']
    ctx.assumptions = ['POSIX; no symlinks in the tree; file contents do not change during the run',
                       'a Last-Modified header, when sent with 200/206/304, must be the modification time truncated to '
                       'seconds (absent is admitted by the property layer, expected present)',
                       'an attempted open() of a path counts as opening it',
                       'malformed Range / If-Modified-Since: 400 or serving as if absent are both admitted (400 expected)',
                       'zero-length file with a byte range: 200 with empty body or 416 are both admitted (200 expected)',
                       '"bytes=-0" is treated as malformed (400), following Request.range',
                       'spellings that are not plain (dot segments, empty segments, trailing dots, ...) may be refused '
                       'with 404 or resolved lexically inside the directory']
    install_hook()
    q = ctx.quick
    bg = []
    bg_err = []

    def background(fn):
        def wrap():
            _AUDIT['skip'].add(threading.get_ident())
            try:
                fn()
            except BaseException as e:   # noqa
                bg_err.append(e)
        t = threading.Thread(target=wrap, daemon=True)
        t.start()
        bg.append(t)

    # ---- leg M (design) -------------------------------------------------------------------------
    res = {}
    path_actions = ['Extend', 'Submit', 'NoMatch', 'SanitiseReject', 'SanitiseAccept', 'OpenRequested', 'OpenFallback',
                    'OpenMiss', 'Modified', 'RangeFull']
    range_actions = ['Submit', 'SanitiseAccept', 'OpenRequested', 'OpenFallback', 'OpenMiss', 'BadDate',
                     'NotModified304', 'Modified', 'RangeFull', 'RangePartial', 'RangeUnsat', 'RangeBad']

    def m_range():
        r = ctx.tlc('MC_StaticRoute', 'MC_StaticRouteRange.cfg', coverage=True, workers=4, timeout=600)
        ctx.require_coverage(r, range_actions)
        res['range'] = r

    def m_cond():
        r = ctx.tlc('MC_StaticRoute', 'MC_StaticRouteCond.cfg' if not q else 'MC_StaticRouteCondQ.cfg', coverage=True,
                    workers=4, timeout=600)
        ctx.require_coverage(r, ['Submit', 'OpenRequested', 'OpenFallback', 'OpenMiss', 'BadDate', 'NotModified304',
                                 'Modified', 'RangeFull', 'RangePartial', 'RangeBad'])
        res['cond'] = r

    def m_hist():
        r = ctx.tlc('MC_StaticRoute', 'MC_StaticRouteHist.cfg', coverage=True, workers=4, timeout=600)
        ctx.require_coverage(r, ['CreateFile', 'RemoveFile', 'ReplaceFile', 'OpenRequested', 'OpenFallback', 'OpenMiss',
                                 'RangeFull', 'RangePartial'])
        res['hist'] = r

    huge_actions = ['Submit', 'OpenRequested', 'OpenFallback', 'OpenMiss', 'NotModified304', 'Modified', 'RangeFull',
                    'RangePartial', 'RangeUnsat', 'RangeBad']

    def m_huge():
        # positions as magnitude classes: Huge first / last / both / suffix next to the small positions around the size
        r = ctx.tlc('MC_StaticRoute', 'MC_StaticRouteHuge.cfg', coverage=True, workers=4, timeout=600)
        ctx.require_coverage(r, huge_actions)
        if r.coverage.get('RangeSeekFails', (0, 0))[1]:
            raise MachineryError('the designed pipeline took the wrong-design action RangeSeekFails')
        res['huge'] = r

    def m_wide():
        if q:
            r = ctx.tlc('MC_StaticRoute', 'MC_StaticRouteWide3.cfg', coverage=True, workers=6, timeout=600)
            ctx.require_coverage(r, path_actions)
        else:
            r = ctx.tlc('MC_StaticRoute', 'MC_StaticRouteWide4.cfg', workers=8, timeout=1200)
        res['wide'] = r

    def m_more():
        if q:
            ctx.tlc('MC_StaticRoute', 'MC_StaticRouteTrav4.cfg', workers=4, timeout=600)
        else:
            r = ctx.tlc('MC_StaticRoute', 'MC_StaticRouteWide3.cfg', coverage=True, workers=4, timeout=600, count=False)
            ctx.require_coverage(r, path_actions)
            ctx.tlc('MC_StaticRoute', 'MC_StaticRouteTrav5.cfg', workers=8, timeout=1500)

    def m_wrong():
        # vacuity: each wrong design must violate an invariant; removing only the "../" prefix test must not
        # (the final '..' test still stops it)
        want = {'MC_StaticRouteBadAbs.cfg': True, 'MC_StaticRouteBadDots.cfg': True, 'MC_StaticRouteBadFinal.cfg': True,
                'MC_StaticRouteDepth.cfg': False, 'MC_StaticRouteBadLen.cfg': True, 'MC_StaticRouteBadUnsat.cfg': True,
                'MC_StaticRouteBadIms.cfg': True, 'MC_StaticRouteBadZone.cfg': True, 'MC_StaticRouteBadClock.cfg': True,
                'MC_StaticRouteBadMemo.cfg': True, 'MC_StaticRouteBadHuge.cfg': True}
        out = {}
        for cfg, must_fail in want.items():
            r = ctx.tlc('MC_StaticRoute', cfg, workers=2, timeout=600, must_hold=False, count=False)
            out[cfg] = r.violated
            if bool(r.violated) != must_fail:
                raise MachineryError('wrong-design run %s: expected %s, TLC reported %r'
                                     % (cfg, 'a violation' if must_fail else 'no violation', r.violated))
        ctx.extra['wrong_design_runs'] = out

    background(m_range)
    background(m_huge)
    background(m_cond)
    background(m_wide)
    background(m_hist)

    def wait(key):
        while key not in res:
            if bg_err:
                raise bg_err[0]
            if not any(t.is_alive() for t in bg) and key not in res:
                raise MachineryError('TLC run for %r did not deliver' % key)
            bg[0].join(0.2)
        return res[key]

    world = None
    try:
        r = wait('range')
        background(m_more)           # off the critical path: started once the first export is in
        background(m_wrong)
        fs = [j for j in r.json if j.get('t') == 'fs']
        if not fs:
            raise MachineryError('the model did not export its file system')
        world = World(fs[0], random.Random(ctx.seed))
        ctx.progress('range model done (%d states); tree at %s' % (r.distinct, world.base))
        rng = ctx.rng
        mismatches = []
        stats = {'wsgi': 0, 'asgi': 0}

        def replay_cases(cases, asgi_every, tag, spellings=2):
            n = 0
            cases = sorted(cases, key=lambda j: (j['c']['clock'], j['c']['zone']))
            for i, j in enumerate(cases):
                c, e = j['c'], j['e']
                if c['zone'] not in world.zones:
                    continue                      # not expressible here: the C library does not know the zone
                plans = [('wsgi', 'raw'), ('wsgi', 'enc' if i % 2 else 'mix')][:spellings]
                if spellings == 1:
                    plans = [('wsgi', ('raw', 'enc', 'mix')[i % 3])]
                if i % asgi_every == 0:
                    plans.append(('asgi', ('raw', 'enc', 'mix')[(i // asgi_every) % 3]))
                obs_seen = []
                vs = []
                for iface, mode in plans:
                    v = variant(world, c, rng, iface, mode)
                    o, _ = world.observe(c, v)
                    stats[iface] += 1
                    n += 1
                    ctx.case({'c': c, 'variant': v}, nontrivial=nontrivial(c, v),
                             key=hash((repr(c), v['target'], repr(v['headers']), iface)))
                    if o != e and o not in obs_seen:
                        obs_seen.append(o)
                        vs.append(v)
                if obs_seen:
                    mismatches.append(([{'m': 0, 'c': c, 'o': o} for o in obs_seen], vs))
            ctx.traces_validated += n
            ctx.progress('leg A %s: %d spec cases, %d replays, %d differing so far' % (tag, len(cases), n, len(mismatches)))

        # ---- leg A: TLC's cases + outcomes replayed on the real route -------------------------------
        range_cases = list({digest(j['c']): j for j in r.json if j.get('t') == 'case'}.values())
        replay_cases(range_cases, ctx.pick(4, 1), 'range/ims')
        ctx.samples = ctx.samples[:2]            # leave room for a path sample and a random one

        # ---- leg A, positions far beyond the size: every specification case with a Huge position is replayed with
        # Huge instantiated by each concrete numeral (both interfaces); the outcome TLC computed must be met
        rhu = wait('huge')
        huge_cases = sorted({digest(j['c']): j for j in rhu.json if j.get('t') == 'case'}.values(),
                            key=lambda j: digest(j['c']))
        n_huge = n_inst = 0
        classes = {}
        for i, j in enumerate(huge_cases):
            c, e = j['c'], j['e']
            is_huge = c['range']['ha'] > 0 or c['range']['hb'] > 0
            n_huge += is_huge
            obs_seen, vs = [], []
            for pick in (range(len(HUGE)) if is_huge else (0,)):
                ifaces = ('wsgi', 'asgi') if (not q or not is_huge or (pick + i) % 3 == 0) else ('wsgi',)
                for iface in ifaces:
                    v = variant(world, c, rng, iface, 'raw', pick=pick)
                    o, _ = world.observe(c, v)
                    stats[iface] += 1
                    n_inst += 1
                    ctx.case({'c': c, 'variant': v}, nontrivial=True,
                             key=hash((repr(c), v['target'], repr(v['headers']), iface)))
                    if is_huge and e['status'] in (200, 206, 400, 416):
                        kk = (c['range']['k'], c['range']['ha'] > 0, c['range']['hb'] > 0, e['status'])
                        classes[kk] = classes.get(kk, 0) + 1
                    if o != e and o not in obs_seen:
                        obs_seen.append(o)
                        vs.append(v)
            if obs_seen:
                mismatches.append(([{'m': 0, 'c': c, 'o': o} for o in obs_seen], vs))
        ctx.traces_validated += n_inst
        need = [('fl', False, True, 206), ('fl', False, True, 416), ('fl', False, True, 200), ('fl', True, True, 416),
                ('fl', True, True, 400), ('fl', True, True, 200), ('fl', True, False, 400), ('f', True, False, 416),
                ('f', True, False, 200), ('s', True, False, 206), ('s', True, False, 200)]
        if any(k not in classes for k in need):
            raise MachineryError('the Huge instance does not exercise %r' % [k for k in need if k not in classes])
        ctx.extra['huge_positions'] = {
            'numerals': [str(x) for x in HUGE], 'spec_cases': len(huge_cases), 'spec_cases_with_a_huge_position': n_huge,
            'replays': n_inst, 'model_states': rhu.distinct,
            'expected_outcomes_replayed': {'%s first=%s last=%s -> %d' % (k[0], 'Huge' if k[1] else 'small',
                                                                        'Huge' if k[2] else 'small', k[3]): n
                                           for k, n in sorted(classes.items())}}
        ctx.progress('leg A huge positions: %d spec cases (%d with a Huge position) x %d numerals, %d replays, %d differing '
                     'so far' % (len(huge_cases), n_huge, len(HUGE), n_inst, len(mismatches)))
        rc = wait('cond')
        cond_cases = list({digest(j['c']): j for j in rc.json if j.get('t') == 'case'}.values())
        replay_cases(cond_cases, ctx.pick(4, 1), 'conditional x zones x clocks', spellings=ctx.pick(1, 2))
        rw = wait('wide')
        path_cases = list({digest(j['c']): j for j in rw.json if j.get('t') == 'case'}.values())
        ctx.progress('wide model done (%d states, %d cases)' % (rw.distinct, len(path_cases)))
        replay_cases(path_cases, ctx.pick(8, 5), 'paths')
        ctx.samples = ctx.samples[:4]
        ctx.extra['spec_cases_replayed'] = {'range_ims': len(range_cases), 'conditional_x_zones_x_clocks': len(cond_cases),
                                            'paths': len(path_cases)}
        judge_and_report(ctx, mismatches, 'leg A (spec case differs on the code)')

        # ---- histories on one route object with the file system changing in between ------------------
        def run_history(hsteps, iface):
            """hsteps: [{'m', 'c'}]; one fresh app (route object) for the whole history"""
            c0 = hsteps[0]['c']
            v0 = variant(world, c0, rng, iface)
            app = world.app(iface, c0['fb'], v0['dl'], v0['pv'], v0['dv'], v0['lifo'], fresh=True)
            out, vs = [], []
            try:
                for st in hsteps:
                    world.set_m(st['m'])
                    v = dict(variant(world, st['c'], rng, iface), dl=v0['dl'], pv=v0['pv'], dv=v0['dv'], lifo=v0['lifo'])
                    o, _ = world.observe(st['c'], v, app=app)
                    stats[iface] += 1
                    ctx.case({'c': st['c'], 'variant': v, 'm': st['m']}, nontrivial=True,
                             key=hash((repr(hsteps), v['target'], iface, len(out))))
                    out.append({'m': st['m'], 'c': st['c'], 'o': o})
                    vs.append(v)
            finally:
                world.set_m(0)
            return out, vs

        rh = wait('hist')
        hists = list({digest(j['steps']): j for j in rh.json if j.get('t') == 'hist'}.values())
        hist_bad = []
        if q:
            hists = hists[ctx.seed % 2::2]        # quick: every second specification history, by seed
        for i, j in enumerate(hists):
            for iface in (('wsgi', 'asgi') if i % ctx.pick(8, 1) == 0 else ('wsgi',)):
                out, vs = run_history(j['steps'], iface)
                if any(a['o'] != b['e'] for a, b in zip(out, j['steps'])):
                    hist_bad.append((out, vs))
        ctx.traces_validated += len(hists)
        ctx.progress('leg A histories: %d spec histories of %d requests, %d differing' % (
            len(hists), len(hists[0]['steps']) if hists else 0, len(hist_bad)))
        judge_and_report(ctx, hist_bad, 'leg A history (spec history differs on the code)')
        nh = ctx.pick(1500, 25000)
        hitems = {}
        for i in range(nh):
            fb = rng.choice(('none', 'in', 'out', 'out'))
            m = rng.randrange(3)
            hs = []
            p = rng.choice((['m'], ['m'], ['f3'], ['sub', '/', '.', '.', '/', 'm'], ['x']))
            for k in range(rng.randint(2, 4)):
                c = rand_case(rng, ['UTC'], world.zones)
                c.update(fb=fb, head='under', path=p if rng.random() < 0.8 else rng.choice((['m'], ['f3'], ['f1'])))
                if rng.random() < 0.7:
                    c['ims'] = {'k': 'none', 'd': 0}
                hs.append({'m': m, 'c': c})
                if rng.random() < 0.7:
                    m = rng.choice([x for x in (0, 1, 2) if x != m])
            out, vs = run_history(hs, 'asgi' if rng.random() < 0.2 else 'wsgi')
            hitems.setdefault(digest(out), (out, vs))
        ctx.progress('leg B histories: %d random histories, %d distinct; judging' % (nh, len(hitems)))
        judge_and_report(ctx, list(hitems.values()), 'leg B history')
        ctx.extra['histories'] = {'spec': len(hists), 'random': nh, 'random_distinct': len(hitems)}

        # ---- leg B: random requests beyond the bound, judged by TLC ----------------------------------
        nb = ctx.pick(12000, 200000)
        groups = {}
        zone_names = sorted(world.zones)
        for i in range(nb):
            c = rand_case(rng, zone_names, world.zones)
            v = variant(world, c, rng, 'asgi' if rng.random() < ctx.pick(0.12, 0.2) else 'wsgi')
            o, _ = world.observe(c, v)
            stats[v['iface']] += 1
            ctx.case({'c': c, 'variant': v}, nontrivial=nontrivial(c, v),
                     key=hash((repr(c), v['target'], repr(v['headers']), v['iface'])))
            g = groups.setdefault(digest(c), ([], []))
            if all(st['o'] != o for st in g[0]):
                g[0].append({'m': 0, 'c': c, 'o': o})
                g[1].append(v)
            if i and i % 50000 == 0:
                ctx.progress('leg B: %d requests, %d distinct abstract cases' % (i, len(groups)))
        ctx.progress('leg B: %d requests, %d distinct abstract cases; judging' % (nb, len(groups)))
        judge_and_report(ctx, list(groups.values()), 'leg B')
        ctx.extra['leg_b'] = {'requests': nb, 'distinct_abstract_cases': len(groups)}
        ctx.extra['requests_by_interface'] = stats
        ctx.extra['requests_by_process_time_zone'] = dict(sorted(world.zone_requests.items()))
        ctx.extra['time_zone_offsets_s'] = world.zones
        ctx.extra['time_zones_not_usable'] = sorted(set(fs[0]['zones']) - set(world.zones))
        ctx.extra['ignored_interpreter_opens'] = world.ignored
        ctx.extra['protocol_monitor_errors'] = world.proto_errors
        ctx.note('observed, not a property violation: the static route leaves the file handle open on 304 and 400 '
                 '(closed only by garbage collection)')
        for t in bg:
            while t.is_alive():
                t.join(0.5)
                if bg_err:
                    raise bg_err[0]
        if bg_err:
            raise bg_err[0]
    finally:
        if world is not None:
            world.close()


def replay(ctx, case):
    """Re-run one recorded failing request (or history on one route object) and let TLC judge it again."""
    install_hook()
    r = ctx.tlc('MC_StaticRoute', 'MC_StaticRouteRange.cfg', workers=4, timeout=600)
    fs = [j for j in r.json if j.get('t') == 'fs'][0]
    world = World(fs, random.Random(ctx.seed))
    try:
        steps = case.get('steps') or [{'m': 0, 'c': case['c'], 'variant': case['variant']}]
        for st in steps:                                   # cases recorded before positions had a magnitude rank
            st['c']['range'].setdefault('ha', 0)
            st['c']['range'].setdefault('hb', 0)
        v0 = steps[0]['variant']
        app = world.app(v0['iface'], steps[0]['c']['fb'], v0['dl'], v0['pv'], v0['dv'], v0.get('lifo', 0), fresh=True)
        out = []
        for st in steps:
            world.set_m(st['m'])
            o, res = world.observe(st['c'], st['variant'], app=app)
            print('root/m :', st['m'])
            print('request :', st['c'])
            print('variant :', st['variant'])
            print('observed:', o, 'exception:', repr(res.exc))
            out.append({'m': st['m'], 'c': st['c'], 'o': o})
        world.set_m(0)
        verdict = ctx.judge('StaticRouteTrace', [{'steps': out}], workers=1)[0]
        print('verdict :', verdict)
        clause = verdict.partition('@')[0]
        if clause.startswith('P:'):
            ctx.violation(clause, dict(case, obs=out[-1]['o']), 'replayed', signature=signature(clause, out[-1]['c']))
    finally:
        world.set_m(0)
        world.close()
