"""C18 - WebSocket receive buffering is FIFO, bounded and lossless under every schedule.

spec:   spec/WsBuffer.tla        pump / receiver / server hand-off, one action per await-to-await segment
        spec/MC_WsBuffer.tla     bounded instances (capacities incl. unbuffered mode 0, GeCmp wrong-design
                                 switch, liveness under fairness, behaviour export)
        spec/WsBufferTrace.tla   boundary-trace judge; queue / in-hand / waiters are inferred by TLC
legs:   M  exhaustive TLC check of the design (safety + liveness, per-action coverage, vacuity switch)
           the application is a reader task and a writer task: close()/send() under a pending receive,
           and a failing server receive(), are part of the model; so are a close() whose close event the
           server refuses (the application goes on receiving) and the end of the application callable
           (RespEnd / AppReturn, invariants AfterAppReturn, AcceptedHasPump)
        A  TLC-generated behaviours -> stimulus scripts driven on the real falcon.asgi WebSocket:
           A1 run-to-quiescence behaviours: the result of every application call is compared with
              the specification's; A2 simulated fine-grained behaviours projected to racy scripts;
           A3 two scenario families enumerated by TLC for every capacity 1..4 x 0..capacity+1 pending messages:
              receive^a, refused close(), receive^b, close(), end of the callable / sender-only responder
              that ends by returning or by letting WebSocketDisconnected propagate into falcon.asgi.App
        B  boundary traces recorded from the real code (A1, A2 and seeded random scripts beyond the
           exhaustive bounds), judged by TLC
"""
import asyncio

META = {
    'property_id': 'C18',
    'design_ref': 'DESIGN.md section 4, C18',
    'technique': 'TLA+ model of the pump/receiver/server hand-off checked with TLC (safety, liveness under '
                 'fairness); TLC behaviours replayed on the real WebSocket under a stepped event loop; boundary '
                 'traces of the real code judged by TLC with inferred internal state',
    'level_text': 'The hand-off design (spec/WsBuffer.tla, one action per await-to-await segment) is model-checked '
                  'exhaustively for capacities 0..4; every schedule explored on the real falcon.asgi.WebSocket is '
                  'fixed by a stimulus script on a stepped asyncio loop and its boundary trace (server receive/send '
                  'calls, application calls and returns, pending tasks) is accepted or rejected by TLC against the '
                  'same specification.',
    'level_note': 'Bounded: model <= 5 messages / <= 7 application calls / 2 cancellations; real schedules <= 8 messages, '
                  '<= 10 calls, <= 40 stimuli.  "Held" is read as enqueued (+1 message in the pump\'s hand, reported). '
                  'The application is a reader task plus a writer task (send/close under a pending receive); an injected '
                  'failure of the server receive() is covered for pending/later receives only. A close() whose '
                  'websocket.close send raises (at most 1 per model behaviour, any number in judged traces) leaves the '
                  'connection accepted: later receives must deliver queue + in-hand event in order (model actions AppCloseF / '
                  'CloseSendFail, invariants Conserved / AcceptedHasPump; leg A3 "failclose": capacities 1..4 x 0..capacity+1 '
                  'messages all pending before the first call, <= 9 calls). The end of the ASGI callable is an observation '
                  'point (RespEnd / AppReturn, invariant AfterAppReturn; stray tasks and outstanding receive() measured when '
                  'falcon.asgi.App returns, responder returning or re-raising WebSocketDisconnected; leg A3 "sender": <= 3 '
                  'sends, capacities 1..4 x 0..capacity+1 unread messages, arrivals interleaved). Quick replays a seeded '
                  'sample of the A1/A3 scripts (6000 / 1200 / 1000), thorough 60000 of A1 and all of A3. The refused close is injected only into '
                  'application close() calls, not into the framework\'s own close. No call is started after '
                  'close() returned (C17). Trusted: TLC, asyncio FIFO scheduling, the fake ASGI server in engine/steploop.py.',
}

from engine import bytesrc, steploop
from engine import tlc as _tlc
from engine.core import MachineryError, digest

DISC, OK, CANCELLED, SENDFAIL, ERR = 0, -2, -3, -4, -9


def ev(e, m=-1, op='', r=-1, t='', p=-1, o=-1, b=0):
    """one uniform record per boundary event, so TLC can read every field of every event"""
    return {'e': e, 'm': m, 'op': op, 'r': r, 't': t, 'p': p, 'o': o, 'b': b}


_APPS = {}


class _Resource:
    async def on_websocket(self, req, ws):
        await req.scope['verif.run'].responder(ws)


def _app(mq):
    import falcon.asgi
    if mq not in _APPS:
        app = falcon.asgi.App()
        app.ws_options.max_receive_queue = mq
        app.add_route('/', _Resource())
        _APPS[mq] = app
    return _APPS[mq]


def _label(event):
    if event['type'] == 'websocket.disconnect':
        return DISC
    return int(event['text'])


class _Run:
    """One case on the stepped loop: a scripted responder behind falcon.asgi.App, a fake server,
    and a controller that applies the stimuli in order.

    style 'inline' / 'sub'   one application task makes all calls in script order (a receive as a plain await,
                             or as a sub-task the way asyncio.wait_for / wait(FIRST_COMPLETED) users do)
    style 'dual'             two application tasks share the connection: a reader task makes the receive
                             calls, a writer task the send/close calls, so a receive can be pending while the
                             other task sends or closes
    op 'closeF'              a close() whose close event (if one is sent) the server refuses: its send() raises,
                             close() re-raises, the application catches it and goes on with the script
    end_mode 'return'/'raise' how the responder ends at stimulus E: it returns, or it lets the WebSocketDisconnected
                             of its last call (if that call raised one) propagate into falcon.asgi.App
    stimuli  D  next client event becomes available      F  the server's receive() starts raising
             E  the responder ends now (ignored while a call is in flight); RespEnd is logged when it does, and
                AppReturn (stray tasks, outstanding receive() calls) when the ASGI callable has returned
             A  permit the next call (dual: of the reader)    B  permit the next call (dual: of the writer)
             C  cancel the pending receive    S  one loop pass    Q  run until quiescent"""

    def __init__(self, case):
        self.case = case
        self.log = []
        self.dual = case['style'] == 'dual'
        ops = list(case['ops'])
        if self.dual:
            self.lanes = {'r': [o for o in ops if o == 'recv'], 'w': [o for o in ops if o != 'recv']}
        else:
            self.lanes = {'r': ops, 'w': []}
        self.inflight = {'r': None, 'w': None}
        self.returned = {'r': 0, 'w': 0}
        self.optask = None
        self.lane_tasks = []
        self.app_task = None
        self.ctl_task = None
        self.cancel_pending = False
        self.errors = []
        self.pulls_at = []
        self.end = {}
        self.finished = False
        self.closed_ret = False
        self.faulted = False
        self.busy = False
        self.n_end = 0
        self.n_final = -1
        self.app_done = False
        self.ended = False            # stimulus E was applied: the responder ends without further calls
        self.last_exc = None          # the WebSocketDisconnected raised by the most recent call, if it raised one

    # ---- application side -------------------------------------------------------------------
    def _known(self):
        return [self.app_task, self.optask, self.ctl_task] + self.lane_tasks

    def _recv_pending(self):
        return 'recv' in (self.inflight['r'], self.inflight['w'])

    async def _op(self, ws, op, lane):
        from falcon.errors import WebSocketDisconnected
        refuse = op == 'closeF'
        op = 'close' if refuse else op
        self.log.append({'e': 'AppCall', 'op': op, 'b': 1 if refuse else 0})
        self.inflight[lane] = op
        xname = ''
        self.last_exc = None
        try:
            if op == 'recv':
                r = int(await ws.receive_text())
            elif op == 'send':
                await ws.send_text('x')
                r = OK
            else:
                self.server.refuse_close = refuse
                try:
                    await ws.close()
                finally:
                    self.server.refuse_close = False
                r = OK
        except WebSocketDisconnected as ex:
            r = DISC
            self.last_exc = ex
        except steploop.SendRefused:
            r = SENDFAIL          # the application catches the server's error and keeps using the connection
        except asyncio.CancelledError:
            if not self.cancel_pending or op != 'recv':
                raise
            self.cancel_pending = False
            t = asyncio.current_task()
            if self.case['style'] != 'sub' and hasattr(t, 'uncancel'):
                t.uncancel()
            r = CANCELLED
        except Exception as ex:  # anything else escaping falcon is an internal error
            self.errors.append('%s raised %r' % (op, ex))
            r = ERR
            xname = type(ex).__name__
        self.inflight[lane] = None
        self.returned[lane] += 1
        if op == 'close' and r != SENDFAIL:
            self.closed_ret = True
        self.log.append({'e': 'AppRet', 'op': op, 'r': r, 'p': len(steploop.pending_tasks(self._known())), 'x': xname})

    async def _lane(self, ws, lane):
        for i, op in enumerate(self.lanes[lane]):
            await self.gates[lane].gate(i)
            # no call is started after close() has returned (C17's business) or after the script is over
            if self.finished or self.closed_ret or self.ended:
                break
            if self.case['style'] == 'sub':
                self.optask = asyncio.ensure_future(self._op(ws, op, lane))
                await self.optask
                self.optask = None
            else:
                await self._op(ws, op, lane)

    async def responder(self, ws):
        await ws.accept()
        if self.dual:
            self.lane_tasks = [asyncio.ensure_future(self._lane(ws, 'r')), asyncio.ensure_future(self._lane(ws, 'w'))]
            await asyncio.gather(*self.lane_tasks)
        else:
            await self._lane(ws, 'r')
        if not self.finished:
            await self.final_gate      # park: the framework must not close before the script is over
        if self.ended:
            self.log.append({'e': 'RespEnd'})
            if self.case.get('end_mode') == 'raise' and self.last_exc is not None:
                raise self.last_exc    # default handling of falcon.asgi.App

    async def _call_app(self, app, scope):
        """the ASGI application callable; its return is an observation point (only when the script ended the responder)"""
        r = OK
        try:
            await app(scope, self.server.receive, self.server.send)
        except Exception:
            r = ERR
            raise
        finally:
            if self.ended and not self.finished:
                self.log.append({'e': 'AppReturn', 'r': r, 'p': len(steploop.pending_tasks(self._known())),
                                 'o': self.server.outstanding})

    def _end(self):
        """stimulus E: the responder ends (no further calls).  Not while a call is in flight, not after a server fault."""
        if self.ended or self.faulted or self.inflight['r'] or self.inflight['w']:
            return
        self.ended = True
        for g in self.gates.values():
            g.open_all()
        self.final_gate.set_result(None)

    # ---- controller --------------------------------------------------------------------------
    def _cancel(self):
        if not self._recv_pending() or self.cancel_pending:
            return
        t = self.optask if self.case['style'] == 'sub' else self.lane_tasks[0] if self.dual else self.app_task
        if t is None or t.done():
            return
        self.cancel_pending = True
        self.log.append({'e': 'Cancel'})
        t.cancel()

    def _permit(self, lane):
        """open the next gate of a lane.  After a server fault no further send/close is started (what they do
        then is out of scope), so the lane stops at the first such call."""
        g = self.gates[lane]
        if g.opened >= len(self.lanes[lane]):
            return
        if self.faulted and self.lanes[lane][g.opened] != 'recv':
            return
        g.open_next()

    def _fault(self):
        """the server's receive() starts raising - only while no send/close is permitted-but-unfinished
        (close() awaiting a pump that failed is outside the model) and only with a pump (capacity > 0)"""
        if self.case['mq'] == 0 or self.faulted or self.ended:
            return
        for lane in ('r', 'w'):
            g = self.gates[lane]
            unfinished = self.lanes[lane][self.returned[lane]:g.opened]
            if any(o != 'recv' for o in unfinished):
                return
        self.faulted = True
        self.server.fail()

    async def _settle(self):
        try:
            await steploop.settle(lambda: len(self.log), limit=3000)
        except RuntimeError:
            self.busy = True          # something keeps polling: an observation for the judge, not an error

    async def main(self):
        case = self.case
        loop = asyncio.get_running_loop()
        self.ctl_task = asyncio.current_task()
        client = [{'type': 'websocket.receive', 'text': str(i)} for i in range(1, case['nmsg'] + 1)]
        if case['disc']:
            client.append({'type': 'websocket.disconnect', 'code': 1001})
        self.server = srv = steploop.WsServer(self.log, client, _label, case['recv_mode'], case['send_mode'])
        self.gates = {k: steploop.Gates(len(v)) for k, v in self.lanes.items()}
        self.final_gate = loop.create_future()
        scope = steploop.ws_scope('/', extra={'verif.run': self})
        self.app_task = asyncio.ensure_future(self._call_app(_app(case['mq']), scope))
        # handshake: run until the accept went out and everything started by it has settled
        await self._settle()
        if not any(e['e'] == 'SrvSend' and e['t'] == 'accept' for e in self.log):
            raise MachineryError('handshake did not complete: %r' % (self.log,))
        for s in case['stim']:
            self.pulls_at.append(srv.calls)
            if s == 'D':
                srv.arrive()
            elif s == 'A':
                self._permit('r')          # permission: the call starts as soon as the previous one returned
            elif s == 'B':
                self._permit('w' if self.dual else 'r')
            elif s == 'C':
                self._cancel()
            elif s == 'F':
                self._fault()
            elif s == 'E':
                self._end()
            elif s == 'S':
                await asyncio.sleep(0)
            elif s == 'Q':
                await self._settle()
            else:
                raise MachineryError('unknown stimulus %r' % (s,))
        await self._settle()
        self.log.append({'e': 'End', 'p': len(steploop.pending_tasks(self._known())),
                         'o': srv.outstanding, 'b': 1 if self.busy else 0})
        self.n_end = len(self.log)
        self.end = {'pulls': srv.calls, 'waiting': self._recv_pending(), 'outstanding': srv.outstanding > 0,
                    'stray': self.log[-1]['p']}
        # wind down: a call still waiting (a receive nothing will ever satisfy) is cancelled through the same
        # path, the remaining gates are opened (the lanes skip the calls), the responder returns and the
        # framework closes the connection itself
        self.finished = True
        if self._recv_pending():
            self._cancel()
            await self._settle()
        for g in self.gates.values():
            g.open_all()
        if not self.final_gate.done():
            self.final_gate.set_result(None)
        await self._settle()
        self.app_done = self.app_task.done()
        self.log.append({'e': 'Final', 'p': len(steploop.pending_tasks([])), 'o': srv.outstanding})
        self.n_final = len(self.log) - 1
        if not self.app_task.done():
            self.app_task.cancel()
        elif not self.app_task.cancelled() and self.app_task.exception() is not None and not self.faulted:
            self.errors.append('app call raised %r' % (self.app_task.exception(),))


def run_case(stepper, case):
    """Execute one case on the real falcon.asgi.App; returns (trace for the judge, info)."""
    run = _Run(case)
    stepper.run(run.main())
    evs = run.log[:run.n_end] + [run.log[run.n_final]]
    k = next(i for i, e in enumerate(evs) if e['e'] == 'SrvSend' and e['t'] == 'accept')
    if k != 0:
        raise MachineryError('events before the accept: %r' % (evs[:k],))
    evs = evs[1:]
    trace = {'mq': case['mq'], 'all': list(range(1, case['nmsg'] + 1)) + ([DISC] if case['disc'] else []),
             'ev': [ev(e['e'], m=e.get('m', -1), op=e.get('op', ''), r=e.get('r', -1),
                       t=e.get('t', ''), p=e.get('p', -1), o=e.get('o', -1), b=e.get('b', 0)) for e in evs]}
    # non-triviality (DESIGN 2.6): a server arrival between an application call and its return
    open_calls, racy, overlap = 0, False, False
    for e in evs:
        if e['e'] == 'AppCall':
            open_calls += 1
            overlap = overlap or open_calls > 1
        elif e['e'] == 'AppRet':
            open_calls -= 1
        elif e['e'] == 'Arrive' and open_calls:
            racy = True
    info = {'racy': racy, 'overlap': overlap, 'errors': run.errors, 'leftover': stepper.leftover,
            'app_done': run.app_done, 'faulted': run.faulted, 'busy': run.busy,
            'raised': {str(i): e['x'] for i, e in enumerate(evs) if e.get('x')},
            'pulls_at': run.pulls_at, 'end': run.end, 'tail': run.log[run.n_end:run.n_final],
            'app_return': next(({'p': e['p'], 'o': e['o'], 'r': e['r']} for e in evs if e['e'] == 'AppReturn'), None),
            'tokens': [(e['e'], 'closeF' if e['e'] == 'AppCall' and e.get('b') else e.get('op', ''), e.get('r', -1))
                       for e in evs if e['e'] in ('Arrive', 'AppCall', 'AppRet', 'Cancel', 'SrvRecvFail', 'RespEnd')]}
    # break the reference cycles (run <-> tasks <-> coroutine frames) so that finished tasks are freed at once:
    # asyncio.all_tasks() walks a WeakSet that otherwise grows until the next full garbage collection
    run.lane_tasks = []
    run.app_task = run.optask = run.ctl_task = run.gates = run.final_gate = run.server = None
    return trace, info


def random_case(rng, capacities=(0, 1, 1, 2, 2, 3, 4), max_msgs=8, max_ops=10, max_stim=40):
    """A seeded stimulus script beyond the exhaustive bounds.  The mix of stimuli is itself drawn
    per case (bursty servers, slow consumers, many single passes, a second task closing or sending
    under a pending receive, a failing server ...)."""
    mq = rng.choice(capacities)
    nmsg = rng.randint(0, max_msgs)
    style = rng.choice(('inline', 'sub', 'dual', 'dual'))
    fault = mq > 0 and rng.random() < 0.12
    ops = []
    wr, ws, wc = rng.choice(((6, 2, 1), (3, 3, 1), (8, 1, 0), (2, 5, 1), (4, 1, 2)))
    wf = rng.choice((0, 0, 1, 2))          # close() calls whose close event the server refuses
    for _ in range(rng.randint(0, max_ops)):
        op = rng.choice(['recv'] * wr + ['send'] * ws + ['close'] * wc + ['closeF'] * wf)
        ops.append(op)
        if op == 'closeF':
            wf = 0                     # at most one refused close per script (the judge allows any number)
        if op == 'close':
            if style != 'dual':
                break                  # one task: the script ends at close (see META level_note)
            wc = 0                     # two tasks: close is the writer's last call, the reader may still be pending
    wd, wa, wb, wp, wq, wx = rng.choice(((3, 3, 2, 4, 1, 1), (5, 2, 1, 2, 0, 1), (2, 5, 2, 2, 1, 1), (2, 2, 2, 8, 0, 1),
                                         (3, 3, 2, 1, 3, 2), (1, 4, 3, 3, 1, 0)))
    alphabet = 'D' * wd + 'A' * wa + 'B' * wb + 'S' * wp + 'Q' * wq + 'C' * wx
    stim = [rng.choice(alphabet) for _ in range(rng.randint(2, max_stim))]
    if fault:
        stim.insert(rng.randrange(len(stim) + 1), 'F')
    if rng.random() < 0.3:             # the responder ends inside the script: the callable's return is observed
        stim.insert(rng.randrange(len(stim) // 2, len(stim) + 1), 'E')
        stim.append('Q')
    return {'end_mode': rng.choice(('return', 'raise')), 'mq': mq, 'nmsg': nmsg, 'disc': rng.random() < 0.6, 'ops': ops, 'stim': stim,
            'recv_mode': rng.choice(('immediate', 'suspend')), 'send_mode': rng.choice(('immediate', 'suspend')),
            'style': style}


# ---------------------------------------------------------------------------------------------
# spec behaviours -> cases
# ---------------------------------------------------------------------------------------------

def _client(all_events):
    return {'nmsg': sum(1 for m in all_events if m != DISC), 'disc': DISC in all_events}


def case_from_quiescent(b, variant):
    """leg A1: a run-to-quiescence behaviour of MC_WsBuffer (Q* actions): every stimulus is
    followed by 'run until nothing is runnable'."""
    ops, stim = [], []
    for e in b['h']:
        if e['e'] == 'D':
            stim += ['D', 'Q']
        elif e['e'] == 'F':
            stim += ['F', 'Q']
        elif e['e'] == 'A':
            ops.append(e['op'])
            stim += ['A' if e['op'] == 'recv' else 'B', 'Q']
        elif e['e'] == 'C':
            stim += ['C', 'Q']
        elif e['e'] == 'E':
            stim += ['E', 'Q']
    c = {'mq': b['mq'], 'ops': ops, 'stim': stim, 'end_mode': 'return'}
    c.update(_client(b['all']))
    c.update(variant)
    return c


def overlapping(b):
    """does the behaviour start a call while another one has not returned (needs two tasks)?"""
    n = 0
    for e in b['h']:
        if e['e'] == 'A':
            n += 1
            if n > 1:
                return True
        elif e['e'] == 'R':
            n -= 1
    return False


def case_from_tokens(b, variant):
    """leg A2: a fine-grained behaviour projected to stimulus tokens (D, F, r / s / c, C, S)."""
    ops, stim = [], []
    for t in b['h']:
        if t in 'rscx':
            ops.append({'r': 'recv', 's': 'send', 'c': 'close', 'x': 'closeF'}[t])
            stim.append('A' if t == 'r' else 'B')
        elif t == 'e':
            stim.append('E')
        else:
            stim.append(t)
    c = {'mq': b['mq'], 'ops': ops, 'stim': stim, 'end_mode': 'return'}
    c.update(_client(b['all']))
    c.update(variant)
    return c


VARIANTS = [{'recv_mode': r, 'send_mode': s, 'style': y}
            for r in ('immediate', 'suspend') for s in ('immediate', 'suspend') for y in ('inline', 'sub', 'dual')]
DUAL_VARIANTS = [v for v in VARIANTS if v['style'] == 'dual']
X_ACTIONS = ['XSrvArrive', 'XSrvFail', 'XPumpLoop', 'XPumpGot', 'XPumpCheck', 'XPumpWake', 'XPumpCancelled', 'XAppRecv',
             'XRecvLoop', 'XRecvWake', 'XRecvRawRet', 'XCancelRecv', 'XAppSend', 'XSendRet', 'XAppClose',
             'XCloseSent', 'XCloseFinish', 'XAppCloseF', 'XCloseSendFail', 'XRespEnd', 'XAppReturn']


def _signature(clause, case, trace, at, raised=None):
    """narrow structural description of a failing history: the clause, buffered or not, whether a close() of the
    other task was in progress at the failing event, the class of an exception that escaped, and (one task only)
    the application calls / cancellations up to the failing event"""
    upto = trace['ev'][:max(at, 0) + 1]
    calls = [e['op'] if e['e'] == 'AppCall' else 'cancel' for e in upto if e['e'] in ('AppCall', 'Cancel')]
    closing = any(e['e'] == 'AppCall' and e['op'] == 'close' for e in upto) and \
        not any(e['e'] == 'AppRet' and e['op'] == 'close' for e in upto[:-1])
    sig = {'clause': clause, 'buffered': case['mq'] > 0}
    if closing and case['style'] == 'dual':
        sig['during_close'] = True
    else:
        sig['calls_tail'] = calls[-2:]
    if raised and str(at) in raised:
        sig['error'] = raised[str(at)]
    return sig


def run(ctx):
    ctx.rule = ('case = (capacity, client events, application calls, stimulus script, server receive()/send() variant, '
                'call style) executed on falcon.asgi.App on the stepped loop; non-trivial iff a server arrival '
                'happens between an application call and its return; distinct by hash of the boundary trace')
    ctx.trusted_base = ['TLC 1.8', 'asyncio FIFO ready queue (CPython)', 'fake ASGI WebSocket server engine/steploop.py']
    ctx.assumptions = ['"held" = enqueued; the pump may hold one more event in hand (PumpHoldsOneInHand), so the server '
                       'sees at most capacity + 1 receive() calls beyond what the application consumed',
                       'the application is a reader task (receive calls, never two at once: receive() is documented as '
                       'not re-entrant) and a writer task (send/close); one task doing everything is the special case',
                       'no call is started after close() has returned (C17); a receive already pending then is in scope',
                       'what send()/close() do after the server receive() failed is out of scope (close() re-raises the '
                       'pump failure on /repo); a pending or later receive must still be released',
                       'after a sender was told of the disconnect the socket is closed: later receives raise '
                       'WebSocketDisconnected even if messages are still queued (modelled as specified behaviour)',
                       'the server raises from send() only for a websocket.close event where a script injects it (closeF: the '
                       'application catches the error and goes on); its receive() raises only where a script injects it',
                       'the responder ends by returning or by re-raising the WebSocketDisconnected of its last call; the '
                       'framework then closes the connection itself; nothing may be left running when the callable returns']
    import falcon.asgi  # noqa: F401  (after srcimport)
    stepper = steploop.Stepper()
    seen = {}                       # trace digest -> (trace, case)
    counts = {'A1': 0, 'A2': 0, 'A3': 0, 'B': 0}

    def execute(case, origin, judge=True):
        nonlocal stepper
        try:
            with bytesrc.watchdog(10.0):
                trace, info = run_case(stepper, case)
        except bytesrc.Hang as ex:                     # a call into the framework never came back to the loop
            ctx.case({'origin': origin, 'case': case}, nontrivial=False, key=digest(case))
            counts[origin] += 1
            ctx.violation('P:hang', {'case': case}, 'the framework did not return control: %r' % (ex,),
                          signature={'clause': 'P:hang', 'buffered': case['mq'] > 0})
            stepper = steploop.Stepper()
            return None, None
        key = digest(trace)
        ctx.case({'origin': origin, 'case': case}, nontrivial=info['racy'], key=key)
        counts[origin] += 1
        if info['errors'] and not any(e['r'] == ERR for e in trace['ev']):
            ctx.violation('P:exception', {'case': case, 'trace': trace}, 'exception escaped: %s' % info['errors'],
                          signature={'clause': 'P:exception', 'buffered': case['mq'] > 0})
        if judge and key not in seen:
            seen[key] = (trace, case, info['raised'])
        return trace, info

    # ---- TLC jobs: a small pool (each run is its own JVM; the behaviour generators run while Python replays) ----
    from concurrent.futures import ThreadPoolExecutor
    pool = ThreadPoolExecutor(max_workers=3)
    WITNESSES = (('MC_WsBufferGe.cfg', 'Bounded'), ('MC_WsBufferNoAwait.cfg', 'NothingLeftRunning'),
                 ('MC_WsBufferNoNotify.cfg', 'NoLostWake'), ('MC_WsBufferStopFirst.cfg', 'Conserved'),
                 ('MC_WsBufferStopFirstP.cfg', 'AcceptedHasPump'), ('MC_WsBufferNoCleanup.cfg', 'AfterAppReturn'))
    REACH = (('MC_WsBufferReach.cfg', 'ReleasedByClose'), ('MC_WsBufferReachF.cfg', 'ReleasedByFault'),
             ('MC_WsBufferReachX.cfg', 'DeliveredAfterFailedClose'), ('MC_WsBufferReachE.cfg', 'ReturnedFromFullQueue'))

    def norelease():
        try:                      # a liveness witness: TLC reports the violated temporal property as an error
            ctx.tlc('MC_WsBuffer', 'MC_WsBufferNoRelease.cfg', workers=2, timeout=240, must_hold=False, count=False)
        except _tlc.TLCError as ex:
            if 'Temporal property PendingReleased was violated' not in str(ex) and 'Temporal properties were violated' not in str(ex):
                raise
            return True
        return False

    f_safety = pool.submit(ctx.tlc, 'MC_WsBuffer', ctx.pick('MC_WsBufferQ.cfg', 'MC_WsBufferT.cfg'), coverage=True, workers=6,
                           timeout=ctx.pick(300, 1100))
    f_a1 = pool.submit(ctx.tlc, 'MC_WsBuffer', ctx.pick('MC_WsBufferA1Q.cfg', 'MC_WsBufferA1T.cfg'), workers=4, timeout=900, count=False)
    f_wit = [(cfg, inv, pool.submit(ctx.tlc, 'MC_WsBuffer', cfg, workers=2, timeout=240, must_hold=False, count=False))
             for cfg, inv in WITNESSES + REACH]
    f_norel = pool.submit(norelease)
    f_a3 = {fam: pool.submit(ctx.tlc, 'MC_WsBuffer', cfg, workers=2, timeout=600, count=False)
            for fam, cfg in (('failclose', 'MC_WsBufferA3F.cfg'), ('sender', 'MC_WsBufferA3S.cfg'))}
    f_live = pool.submit(ctx.tlc, 'MC_WsBuffer', ctx.pick('MC_WsBufferLive.cfg', 'MC_WsBufferLiveT.cfg'), workers=4,
                         timeout=ctx.pick(400, 1100))
    f_a2 = pool.submit(ctx.tlc, 'MC_WsBuffer', 'MC_WsBufferA2.cfg', simulate={'num': ctx.pick(500, 7000)}, depth=30,
                       seed=ctx.seed + 1, workers=4, timeout=600, count=False)
    pool.shutdown(wait=False)

    # ---- leg M: the design ---------------------------------------------------------------------
    def finish_leg_m():
        """collected after the replays (the runs are independent of them)"""
        r = f_safety.result()
        ctx.require_coverage(r, X_ACTIONS)
        ctx.extra['design_states'] = {'generated': r.generated, 'distinct': r.distinct, 'depth': r.depth}
        ctx.progress('leg M safety: %d generated / %d distinct states in %.1fs' % (r.generated, r.distinct, r.wall))
        rl = f_live.result()
        ctx.progress('leg M liveness (weak fairness): %d distinct states in %.1fs' % (rl.distinct, rl.wall))
        # vacuity: the wrong-design switches must break the invariants; reachability: the situations the two-task
        # model, the refused close and the end of the callable exist for really occur in it
        for cfg, inv, f in f_wit:
            rv = f.result()
            if rv.violated != inv:
                raise MachineryError('vacuous model: %s does not violate %s (got %r)' % (cfg, inv, rv.violated))
        if not f_norel.result():
            raise MachineryError('vacuous model: MC_WsBufferNoRelease.cfg does not violate PendingReleased')
        ctx.extra['wrong_design_switches'] = {'GeCmp=FALSE': 'violates Bounded', 'AwaitStop=FALSE': 'violates NothingLeftRunning',
                                              'NotifyPop=FALSE': 'violates NoLostWake',
                                              'ReleaseOnEnd=FALSE': 'violates PendingReleased (liveness)',
                                              'StopAfterSend=FALSE': 'violates Conserved and AcceptedHasPump',
                                              'CleanupOnDisc=FALSE': 'violates AfterAppReturn'}
        ctx.extra['reachability_witnesses'] = [inv for _, inv in REACH]
        ctx.progress('leg M liveness, vacuity and reachability witnesses ok')

    # ---- legs A1 / A3: run-to-quiescence behaviours, results compared exactly ------------------------
    import gc
    TOK = {'D': 'Arrive', 'C': 'Cancel', 'F': 'SrvRecvFail', 'A': 'AppCall', 'R': 'AppRet', 'E': 'RespEnd'}

    def tokens_of(b):
        return [(TOK[e['e']], e['op'] if e['e'] in 'AR' else '', e['r'] if e['e'] == 'R' else -1) for e in b['h']]

    def replay_quiescent(behaviours, origin, limit, judge_budget, end_modes=('return',)):
        """replays (a seeded sample of at most `limit`) stimulus scripts of run-to-quiescence behaviours and compares
        the application-visible history with the specification's; returns (#scripts, #replayed, #two outcomes, #held)"""
        # one stimulus script may have two outcomes in the specification: when close() of the writer task releases
        # a pending receive of the reader task, the order of the two returns is not determined
        scripts = {}
        for b in behaviours:
            key = digest([b['mq'], b['all'], [(e['e'], e['op']) for e in b['h'] if e['e'] != 'R']])
            scripts.setdefault(key, []).append(b)
        keys = sorted(scripts)
        n_scripts = len(keys)
        if len(keys) > limit:
            keys = sorted(ctx.rng.sample(keys, limit))
        judge_every = max(1, len(keys) // judge_budget)
        held_more = 0
        for i, key in enumerate(keys):
            outcomes = scripts[key]
            b0 = outcomes[0]
            pool = DUAL_VARIANTS if overlapping(b0) else VARIANTS
            ended = any(e['e'] == 'E' for e in b0['h'])
            for end_mode in (end_modes if ended else ('return',)):
                variant = ctx.rng.choice(pool)
                case = case_from_quiescent(b0, variant)
                case['end_mode'] = end_mode
                trace, info = execute(case, origin, judge=(i % judge_every == 0))
                if trace is None:
                    continue
                wants = [tokens_of(b) for b in outcomes]
                got = [(e, op, (r if e == 'AppRet' else -1)) for e, op, r in info['tokens']]
                if got not in wants:
                    want = wants[0]
                    k = next((j for j in range(min(len(got), len(want))) if got[j] != want[j]), min(len(got), len(want)))
                    ctx.violation('P:A1_results', {'case': case, 'spec_behaviour': b0, 'trace': trace},
                                  'application-visible history differs from the specification at step %d: spec %r, code %r'
                                  % (k, want[k:k + 2], got[k:k + 2]),
                                  signature={'clause': 'P:A1_results', 'buffered': case['mq'] > 0,
                                             'spec_step': list(want[k]) if k < len(want) else None})
                    continue
                b = outcomes[wants.index(got)]
                if info['end']['waiting'] != b['waiting']:
                    ctx.violation('P:A1_waiting', {'case': case, 'spec_behaviour': b, 'trace': trace},
                                  'at quiescence a receive is %swaiting in the code, the specification says %s'
                                  % ('' if info['end']['waiting'] else 'not ', b['waiting']),
                                  signature={'clause': 'P:A1_waiting', 'buffered': case['mq'] > 0})
                    continue
                # the end of the application callable: the specification says whether it has returned at quiescence
                # and (AfterAppReturn, checked by TLC on these behaviours) that the pump is gone then
                ar = info['app_return']
                if b['returned'] != (ar is not None):
                    ctx.violation('P:A_app_return', {'case': case, 'spec_behaviour': b, 'trace': trace},
                                  'at quiescence the application callable has %sreturned in the code, the specification says %s'
                                  % ('' if ar else 'not ', b['returned']),
                                  signature={'clause': 'P:A_app_return', 'buffered': case['mq'] > 0, 'end_mode': end_mode})
                    continue
                if ar is not None and ((ar['p'] > 0) != b['pumpAlive'] or (ar['o'] > 0) != b['outstanding'] or ar['r'] != OK):
                    ctx.violation('P:left_running_after_app', {'case': case, 'spec_behaviour': b, 'trace': trace},
                                  'when the application callable returned: %d stray task(s), %d receive() outstanding, raised=%s; '
                                  'the specification: pump alive %s, outstanding %s'
                                  % (ar['p'], ar['o'], ar['r'] == ERR, b['pumpAlive'], b['outstanding']),
                                  signature={'clause': 'P:left_running_after_app', 'buffered': case['mq'] > 0,
                                             'end_mode': end_mode})
                    continue
                # detail (model faithfulness, not demanded by the property): exact number of server pulls
                spec_pulls = [e['pulls'] for e in b['h'] if e['e'] != 'R']
                real_pulls = info['pulls_at'][0::2]
                if spec_pulls != real_pulls or b['pulls'] != info['end']['pulls'] or \
                        b['outstanding'] != info['end']['outstanding'] or b['pumpAlive'] != (info['end']['stray'] > 0):
                    ctx.detail('D:A1_pulls', {'case': case, 'spec_behaviour': b},
                               'pull accounting differs: spec %r/%r/%r/%r code %r/%r/%r/%r'
                               % (spec_pulls, b['pulls'], b['outstanding'], b['pumpAlive'], real_pulls,
                                  info['end']['pulls'], info['end']['outstanding'], info['end']['stray']))
                consumed = sum(1 for e in b['h'] if e['e'] == 'R' and e['op'] == 'recv' and e['r'] >= 0)
                if b['mq'] > 0 and b['pulls'] - consumed > b['mq']:
                    held_more += 1
        return n_scripts, len(keys), sum(1 for v in scripts.values() if len(v) > 1), held_more

    ra = f_a1.result()
    behaviours = list({digest(b): b for b in ra.json}.values())
    del ra
    gc.collect()
    gc.freeze()        # the loaded behaviours are long-lived: keep them out of the collector's way while replaying
    n_scripts, n_replayed, n_two, held_more = replay_quiescent(behaviours, 'A1', ctx.pick(6000, 60000), ctx.pick(1200, 12000))
    ctx.extra['A1_behaviours'] = len(behaviours)
    ctx.extra['A1_scripts'] = n_scripts
    ctx.extra['A1_scripts_replayed'] = n_replayed
    ctx.extra['A1_scripts_with_two_outcomes'] = n_two
    ctx.extra['A1_behaviours_with_capacity_plus_one_pulls'] = held_more
    ctx.progress('leg A1: %d behaviours / %d scripts, %d replays compared' % (len(behaviours), n_scripts, counts['A1']))
    del behaviours
    gc.unfreeze()
    gc.collect()

    # ---- leg A3: the two scenario families, every capacity 1..4 x 0..capacity+1 pending client messages ----------
    #   failclose: receive^a ; close() refused by the server ; receive^b ; close() ; end of the callable
    #   sender:    send^a ; end of the callable (responder returns / lets WebSocketDisconnected propagate)
    for fam, cfg, limit in (('failclose', 'MC_WsBufferA3F.cfg', ctx.pick(1200, 10 ** 9)),
                            ('sender', 'MC_WsBufferA3S.cfg', ctx.pick(1000, 10 ** 9))):
        rz = f_a3[fam].result()
        fb = list({digest(b): b for b in rz.json}.values())
        del rz
        cover = {(b['mq'], sum(1 for m in b['all'] if m != DISC)) for b in fb
                 if fam == 'sender' or any(e['e'] == 'R' and e['r'] == SENDFAIL for e in b['h'])}
        missing = [(q, n) for q in (1, 2, 3, 4) for n in range(0, q + 2) if (q, n) not in cover]
        if missing:
            raise MachineryError('scenario family %s: no behaviour for (capacity, messages) %r' % (fam, missing))
        before = counts['A3']
        n_scripts, n_replayed, _, _ = replay_quiescent(fb, 'A3', limit, ctx.pick(700, 10 ** 9), end_modes=('return', 'raise'))
        ctx.extra['A3_' + fam] = {'behaviours': len(fb), 'scripts': n_scripts, 'scripts_replayed': n_replayed,
                                  'replays': counts['A3'] - before}
        ctx.progress('leg A3 %s: %d behaviours / %d scripts, %d replays compared' % (fam, len(fb), n_scripts, counts['A3'] - before))
        del fb
    ctx.traces_validated += counts['A1'] + counts['A3']

    # ---- leg A2: simulated fine-grained behaviours -> racy stimulus scripts -------------------------
    rs = f_a2.result()
    sims = list({digest(b): b for b in rs.json}.values())
    sims.sort(key=digest)
    for b in sims:
        execute(case_from_tokens(b, ctx.rng.choice(VARIANTS)), 'A2')
    ctx.extra['A2_behaviours'] = len(sims)
    ctx.progress('leg A2: %d simulated behaviours driven' % len(sims))

    # ---- leg B: seeded random scripts beyond the bounds ------------------------------------------
    for _ in range(ctx.pick(3000, 45000)):
        execute(random_case(ctx.rng), 'B')
    ctx.progress('leg B: %d random scripts driven; %d distinct traces to judge' % (counts['B'], len(seen)))

    finish_leg_m()

    # ---- TLC judges every distinct boundary trace ---------------------------------------------------
    items = list(seen.values())
    verdicts = ctx.judge('WsBufferTrace', [t for t, _, _ in items], workers=8, timeout=1500, chunk=12000)
    for (trace, case, raised), v in zip(items, verdicts):
        if v == 'ok':
            continue
        clause, _, at = v.partition('@')
        at = int(at or -1)
        what = 'boundary trace rejected by WsBufferTrace: %s at event %d (%r)' % (
            clause, at + 1, trace['ev'][at] if 0 <= at < len(trace['ev']) else None)
        if clause.startswith('H:'):
            raise MachineryError('%s\ncase %r\ntrace %r' % (what, case, trace))
        if clause.startswith('D:'):
            ctx.detail(clause, {'case': case, 'trace': trace}, what)
        else:
            ctx.violation(clause, {'case': case, 'trace': trace}, what, signature=_signature(clause, case, trace, at, raised))
    # ---- binding self-test: the judge must reject corrupted versions of accepted traces -------------
    import copy
    corrupted = []
    for (trace, case, _), v in zip(items, verdicts):
        if v != 'ok' or len(corrupted) >= 60:
            continue
        idx = [i for i, e in enumerate(trace['ev']) if e['e'] == 'AppRet' and e['op'] == 'recv' and e['r'] >= 1]
        if not idx:
            continue
        t1 = copy.deepcopy(trace)
        t1['ev'][idx[0]]['r'] += 1                                # a receive returned the wrong message
        t2 = copy.deepcopy(trace)
        m = trace['ev'][idx[0]]['r']
        k = next(i for i, e in enumerate(trace['ev']) if e['e'] == 'SrvRecvRet' and e['m'] == m)
        del t2['ev'][k]                                           # the pull that fetched it is missing
        t3 = copy.deepcopy(trace)
        t3['ev'].insert(idx[0] + 1, dict(trace['ev'][idx[0]]))    # the same message is delivered twice
        t3['ev'].insert(idx[0] + 1, ev('AppCall', op='recv'))
        corrupted += [t1, t2, t3]
    if not corrupted:
        raise MachineryError('no accepted trace with a delivered message: nothing to corrupt')
    cv = ctx.judge('WsBufferTrace', corrupted, workers=4, timeout=300)
    ctx.traces_validated -= len(corrupted)
    if any(v == 'ok' for v in cv):
        raise MachineryError('the trace judge accepts a corrupted trace: %r' % (
            [t for t, v in zip(corrupted, cv) if v == 'ok'][0],))
    ctx.extra['judge_selftest'] = '%d corrupted traces (wrong message / missing pull / duplicate delivery) all rejected' % len(corrupted)
    ctx.extra['executions'] = dict(counts)
    ctx.extra['distinct_traces_judged'] = len(items)
    stepper.close()


def replay(ctx, case):
    c = case.get('case', case)
    stepper = steploop.Stepper()
    trace, info = run_case(stepper, c)
    for i, e in enumerate(trace['ev']):
        print('%3d %s' % (i + 1, {k: v for k, v in e.items() if v not in (-1, '')}))
    print('info:', {k: v for k, v in info.items() if k != 'tokens'})
    v = ctx.judge('WsBufferTrace', [trace], workers=1)[0]
    print('verdict:', v)
    if v != 'ok' and not v.startswith('D:'):
        clause, _, at = v.partition('@')
        ctx.violation(clause, {'case': c, 'trace': trace}, 'trace rejected at %s' % v,
                      signature=_signature(clause, c, trace, int(at or -1), info['raised']))
    stepper.close()
