"""C18 - WebSocket receive buffering is FIFO, bounded and lossless under every schedule.

spec:   spec/WsBuffer.tla        pump / receiver / server hand-off, one action per await-to-await segment
        spec/MC_WsBuffer.tla     bounded instances (capacities incl. unbuffered mode 0, GeCmp wrong-design
                                 switch, liveness under fairness, behaviour export)
        spec/WsBufferTrace.tla   boundary-trace judge; queue / in-hand / waiters are inferred by TLC
legs:   M  exhaustive TLC check of the design (safety + liveness, per-action coverage, vacuity switch)
        A  TLC-generated behaviours -> stimulus scripts driven on the real falcon.asgi WebSocket:
           A1 run-to-quiescence behaviours: the result of every application call is compared with
              the specification's; A2 simulated fine-grained behaviours projected to racy scripts
        B  boundary traces recorded from the real code (A1, A2 and seeded random scripts beyond the
           exhaustive bounds), judged by TLC
"""
import asyncio

META = {
    'property_id': 'C18',
    'design_ref': 'DESIGN.md section 4, C18',
    'technique': 'TLA+ model of the pump/receiver/server hand-off checked with TLC (safety, liveness under '
                 'fairness); TLC behaviours replayed on the real WebSocket under a stepped event loop; boundary '
                 'traces of the real code judged by TLC with inferred internal state',
    'level_text': 'The hand-off design (spec/WsBuffer.tla, one action per await-to-await segment) is model-checked '
                  'exhaustively for capacities 0..4; every schedule explored on the real falcon.asgi.WebSocket is '
                  'fixed by a stimulus script on a stepped asyncio loop and its boundary trace (server receive/send '
                  'calls, application calls and returns, pending tasks) is accepted or rejected by TLC against the '
                  'same specification.',
    'level_note': 'Bounded: model <= 5 messages / <= 7 application calls / 2 cancellations; real schedules <= 8 messages, '
                  '<= 10 calls, <= 40 stimuli.  "Held" is read as enqueued (+1 message in the pump\'s hand, reported). '
                  'Scripts end at close(): calls on a socket the application closed itself belong to C17. '
                  'Trusted: TLC, asyncio FIFO scheduling, the fake ASGI server in engine/steploop.py.',
}

from engine import bytesrc, steploop
from engine.core import MachineryError, digest

DISC, OK, CANCELLED, ERR = 0, -2, -3, -9


def ev(e, m=-1, op='', r=-1, t='', p=-1, o=-1):
    """one uniform record per boundary event, so TLC can read every field of every event"""
    return {'e': e, 'm': m, 'op': op, 'r': r, 't': t, 'p': p, 'o': o}


_APPS = {}


class _Resource:
    async def on_websocket(self, req, ws):
        await req.scope['verif.run'].responder(ws)


def _app(mq):
    import falcon.asgi
    if mq not in _APPS:
        app = falcon.asgi.App()
        app.ws_options.max_receive_queue = mq
        app.add_route('/', _Resource())
        _APPS[mq] = app
    return _APPS[mq]


def _label(event):
    if event['type'] == 'websocket.disconnect':
        return DISC
    return int(event['text'])


class _Run:
    """One case on the stepped loop: a scripted responder behind falcon.asgi.App, a fake server,
    and a controller that applies the stimuli in order."""

    def __init__(self, case):
        self.case = case
        self.log = []
        self.ops = list(case['ops'])
        self.inflight = None
        self.optask = None
        self.app_task = None
        self.ctl_task = None
        self.cancel_pending = False
        self.errors = []
        self.stim_done = 0
        self.pulls_at = []
        self.end = {}
        self.finished = False
        self.n_end = 0
        self.app_done = False

    # ---- application side -------------------------------------------------------------------
    def _known(self):
        return [self.app_task, self.optask, self.ctl_task]

    async def _op(self, ws, op):
        from falcon.errors import WebSocketDisconnected
        self.log.append({'e': 'AppCall', 'op': op})
        self.inflight = op
        try:
            if op == 'recv':
                r = int(await ws.receive_text())
            elif op == 'send':
                await ws.send_text('x')
                r = OK
            else:
                await ws.close()
                r = OK
        except WebSocketDisconnected:
            r = DISC
        except asyncio.CancelledError:
            if not self.cancel_pending:
                raise
            self.cancel_pending = False
            t = asyncio.current_task()
            if self.case['style'] == 'inline' and hasattr(t, 'uncancel'):
                t.uncancel()
            r = CANCELLED
        except Exception as ex:  # anything else escaping falcon is an internal error
            self.errors.append('%s raised %r' % (op, ex))
            r = ERR
        self.inflight = None
        self.log.append({'e': 'AppRet', 'op': op, 'r': r, 'p': len(steploop.pending_tasks(self._known()))})

    async def responder(self, ws):
        await ws.accept()
        for i, op in enumerate(self.ops):
            await self.gates.gate(i)
            if self.finished:
                break
            if self.case['style'] == 'sub':
                self.optask = asyncio.ensure_future(self._op(ws, op))
                await self.optask
                self.optask = None
            else:
                await self._op(ws, op)
        if not self.finished:
            await self.final_gate      # park: the framework must not close before the script is over

    # ---- controller --------------------------------------------------------------------------
    def _cancel(self):
        if self.inflight != 'recv' or self.cancel_pending:
            return
        t = self.optask if self.case['style'] == 'sub' else self.app_task
        if t is None or t.done():
            return
        self.cancel_pending = True
        self.log.append({'e': 'Cancel'})
        t.cancel()

    async def main(self):
        case = self.case
        loop = asyncio.get_running_loop()
        self.ctl_task = asyncio.current_task()
        client = [{'type': 'websocket.receive', 'text': str(i)} for i in range(1, case['nmsg'] + 1)]
        if case['disc']:
            client.append({'type': 'websocket.disconnect', 'code': 1001})
        self.server = srv = steploop.WsServer(self.log, client, _label, case['recv_mode'], case['send_mode'])
        self.gates = steploop.Gates(len(self.ops))
        self.final_gate = loop.create_future()
        scope = steploop.ws_scope('/', extra={'verif.run': self})
        self.app_task = asyncio.ensure_future(_app(case['mq'])(scope, srv.receive, srv.send))
        # handshake: run until the accept went out and everything started by it has settled
        await steploop.settle(lambda: len(self.log), limit=20000)
        if not any(e['e'] == 'SrvSend' and e['t'] == 'accept' for e in self.log):
            raise MachineryError('handshake did not complete: %r' % (self.log,))
        for s in case['stim']:
            self.pulls_at.append(srv.calls)
            if s == 'D':
                srv.arrive()
            elif s == 'A':
                self.gates.open_next()     # permission: the call starts as soon as the previous one returned
            elif s == 'C':
                self._cancel()
            elif s == 'S':
                await asyncio.sleep(0)
            elif s == 'Q':
                await steploop.settle(lambda: len(self.log), limit=20000)
            else:
                raise MachineryError('unknown stimulus %r' % (s,))
            self.stim_done += 1
        await steploop.settle(lambda: len(self.log), limit=20000)
        self.log.append({'e': 'End', 'p': len(steploop.pending_tasks([self.app_task, self.optask])),
                         'o': srv.outstanding})
        self.n_end = len(self.log)
        self.end = {'pulls': srv.calls, 'waiting': self.inflight == 'recv', 'outstanding': srv.outstanding > 0,
                    'stray': self.log[-1]['p']}
        # wind down: a call still waiting (a receive nothing will ever satisfy) is cancelled through the same
        # path, the remaining gates are opened (the responder skips the calls), the responder returns and the
        # framework closes the connection itself
        self.finished = True
        if self.inflight is not None:
            self._cancel()
            await steploop.settle(lambda: len(self.log), limit=20000)
        self.gates.open_all()
        self.final_gate.set_result(None)
        await steploop.settle(lambda: len(self.log), limit=20000)
        self.app_done = self.app_task.done()
        self.log.append({'e': 'Final', 'p': len(steploop.pending_tasks([])), 'o': srv.outstanding})
        if not self.app_task.done():
            self.app_task.cancel()
        else:
            if not self.app_task.cancelled() and self.app_task.exception() is not None:
                self.errors.append('app call raised %r' % (self.app_task.exception(),))


def run_case(stepper, case):
    """Execute one case on the real falcon.asgi.App; returns (trace for the judge, info)."""
    run = _Run(case)
    stepper.run(run.main())
    evs = run.log[:run.n_end] + [run.log[-1]]
    k = next(i for i, e in enumerate(evs) if e['e'] == 'SrvSend' and e['t'] == 'accept')
    if k != 0:
        raise MachineryError('events before the accept: %r' % (evs[:k],))
    evs = evs[1:]
    trace = {'mq': case['mq'], 'all': list(range(1, case['nmsg'] + 1)) + ([DISC] if case['disc'] else []),
             'ev': [ev(e['e'], m=e.get('m', -1), op=e.get('op', ''), r=e.get('r', -1),
                       t=e.get('t', ''), p=e.get('p', -1), o=e.get('o', -1)) for e in evs]}
    # non-triviality (DESIGN 2.6): a server arrival between an application call and its return
    open_call, racy = False, False
    for e in evs:
        if e['e'] == 'AppCall':
            open_call = True
        elif e['e'] == 'AppRet':
            open_call = False
        elif e['e'] == 'Arrive' and open_call:
            racy = True
    info = {'racy': racy, 'errors': run.errors, 'leftover': stepper.leftover, 'app_done': run.app_done,
            'results': [(e['op'], e['r']) for e in evs if e['e'] == 'AppRet'],
            'pulls_at': run.pulls_at, 'end': run.end, 'tail': run.log[run.n_end:-1],
            'tokens': [(e['e'], e.get('op', ''), e.get('r', -1)) for e in evs
                       if e['e'] in ('Arrive', 'AppCall', 'AppRet', 'Cancel')]}
    return trace, info


def random_case(rng, capacities=(0, 1, 1, 2, 2, 3, 4), max_msgs=8, max_ops=10, max_stim=40):
    """A seeded stimulus script beyond the exhaustive bounds.  The mix of stimuli is itself drawn
    per case (bursty servers, slow consumers, many single passes ...)."""
    mq = rng.choice(capacities)
    nmsg = rng.randint(0, max_msgs)
    ops = []
    wr, ws, wc = rng.choice(((6, 2, 1), (3, 3, 1), (8, 1, 0), (2, 5, 1)))
    for _ in range(rng.randint(0, max_ops)):
        op = rng.choice(['recv'] * wr + ['send'] * ws + ['close'] * wc)
        ops.append(op)
        if op == 'close':
            break                      # scripts end at close (see META level_note)
    wd, wa, wp, wq, wx = rng.choice(((3, 3, 4, 1, 1), (5, 2, 2, 0, 1), (2, 5, 2, 1, 1), (2, 2, 8, 0, 1),
                                     (3, 3, 1, 3, 2)))
    alphabet = 'D' * wd + 'A' * wa + 'S' * wp + 'Q' * wq + 'C' * wx
    stim = [rng.choice(alphabet) for _ in range(rng.randint(2, max_stim))]
    return {'mq': mq, 'nmsg': nmsg, 'disc': rng.random() < 0.6, 'ops': ops, 'stim': stim,
            'recv_mode': rng.choice(('immediate', 'suspend')), 'send_mode': rng.choice(('immediate', 'suspend')),
            'style': rng.choice(('inline', 'sub'))}


# ---------------------------------------------------------------------------------------------
# spec behaviours -> cases
# ---------------------------------------------------------------------------------------------

def _client(all_events):
    return {'nmsg': sum(1 for m in all_events if m != DISC), 'disc': DISC in all_events}


def case_from_quiescent(b, variant):
    """leg A1: a run-to-quiescence behaviour of MC_WsBuffer (Q* actions): every stimulus is
    followed by 'run until nothing is runnable'."""
    ops, stim = [], []
    for e in b['h']:
        if e['e'] == 'D':
            stim += ['D', 'Q']
        elif e['e'] == 'A':
            ops.append(e['op'])
            stim += ['A', 'Q']
        elif e['e'] == 'C':
            stim += ['C', 'Q']
    c = {'mq': b['mq'], 'ops': ops, 'stim': stim}
    c.update(_client(b['all']))
    c.update(variant)
    return c


def case_from_tokens(b, variant):
    """leg A2: a fine-grained behaviour projected to stimulus tokens (D, r/s/c, C, S)."""
    ops, stim = [], []
    for t in b['h']:
        if t in 'rsc':
            ops.append({'r': 'recv', 's': 'send', 'c': 'close'}[t])
            stim.append('A')
        else:
            stim.append(t)
    c = {'mq': b['mq'], 'ops': ops, 'stim': stim}
    c.update(_client(b['all']))
    c.update(variant)
    return c


VARIANTS = [{'recv_mode': r, 'send_mode': s, 'style': y}
            for r in ('immediate', 'suspend') for s in ('immediate', 'suspend') for y in ('inline', 'sub')]
X_ACTIONS = ['XSrvArrive', 'XPumpLoop', 'XPumpGot', 'XPumpCheck', 'XPumpWake', 'XPumpCancelled', 'XAppRecv',
             'XRecvLoop', 'XRecvWake', 'XRecvRawRet', 'XCancelRecv', 'XAppSend', 'XSendRet', 'XAppClose',
             'XCloseSent', 'XCloseFinish']


def _signature(clause, case, trace, at):
    """narrow structural description of a failing history: the clause, buffered or not, and the
    application calls / cancellations up to the failing event"""
    calls = [e['op'] if e['e'] == 'AppCall' else 'cancel' for e in trace['ev'][:max(at, 0) + 1]
             if e['e'] in ('AppCall', 'Cancel')]
    return {'clause': clause, 'buffered': case['mq'] > 0, 'calls_tail': calls[-2:]}


def run(ctx):
    ctx.rule = ('case = (capacity, client events, application calls, stimulus script, server receive()/send() variant, '
                'call style) executed on falcon.asgi.App on the stepped loop; non-trivial iff a server arrival '
                'happens between an application call and its return; distinct by hash of the boundary trace')
    ctx.trusted_base = ['TLC 1.8', 'asyncio FIFO ready queue (CPython)', 'fake ASGI WebSocket server engine/steploop.py']
    ctx.assumptions = ['"held" = enqueued; the pump may hold one more event in hand (PumpHoldsOneInHand), so the server '
                       'sees at most capacity + 1 receive() calls beyond what the application consumed',
                       'one application task uses the connection (receive() is documented as not re-entrant)',
                       'scripts end at close(); calls after the application closed the socket are C17',
                       'after a sender was told of the disconnect the socket is closed: later receives raise '
                       'WebSocketDisconnected even if messages are still queued (modelled as specified behaviour)',
                       'the server does not raise from send()/receive()']
    import falcon.asgi  # noqa: F401  (after srcimport)
    stepper = steploop.Stepper()
    seen = {}                       # trace digest -> (trace, case)
    counts = {'A1': 0, 'A2': 0, 'B': 0}

    def execute(case, origin, judge=True):
        nonlocal stepper
        try:
            with bytesrc.watchdog(10.0):
                trace, info = run_case(stepper, case)
        except bytesrc.Hang as ex:                     # a call into the framework never came back to the loop
            ctx.case({'origin': origin, 'case': case}, nontrivial=False, key=digest(case))
            counts[origin] += 1
            ctx.violation('P:hang', {'case': case}, 'the framework did not return control: %r' % (ex,),
                          signature={'clause': 'P:hang', 'buffered': case['mq'] > 0})
            stepper = steploop.Stepper()
            return None, None
        key = digest(trace)
        ctx.case({'origin': origin, 'case': case}, nontrivial=info['racy'], key=key)
        counts[origin] += 1
        if info['errors'] and not any(e['r'] == ERR for e in trace['ev']):
            ctx.violation('P:exception', {'case': case, 'trace': trace}, 'exception escaped: %s' % info['errors'],
                          signature={'clause': 'P:exception', 'buffered': case['mq'] > 0})
        if judge and key not in seen:
            seen[key] = (trace, case)
        return trace, info

    # ---- leg M: the design ---------------------------------------------------------------------
    r = ctx.tlc('MC_WsBuffer', ctx.pick('MC_WsBufferQ.cfg', 'MC_WsBufferT.cfg'), coverage=True, workers=8,
                timeout=ctx.pick(240, 840))
    ctx.require_coverage(r, X_ACTIONS)
    ctx.extra['design_states'] = {'generated': r.generated, 'distinct': r.distinct, 'depth': r.depth}
    ctx.progress('leg M safety: %d generated / %d distinct states in %.1fs' % (r.generated, r.distinct, r.wall))
    rl = ctx.tlc('MC_WsBuffer', 'MC_WsBufferLive.cfg', workers=8, timeout=400)
    ctx.progress('leg M liveness (weak fairness): %d distinct states in %.1fs' % (rl.distinct, rl.wall))
    # vacuity: the wrong-design switches must break the invariants
    for cfg, inv in (('MC_WsBufferGe.cfg', 'Bounded'), ('MC_WsBufferNoAwait.cfg', 'NothingLeftRunning'),
                     ('MC_WsBufferNoNotify.cfg', 'NoLostWake')):
        rv = ctx.tlc('MC_WsBuffer', cfg, workers=4, timeout=240, must_hold=False, count=False)
        if rv.violated != inv:
            raise MachineryError('vacuous model: %s does not violate %s (got %r)' % (cfg, inv, rv.violated))
    ctx.extra['wrong_design_switches'] = {'GeCmp=FALSE': 'violates Bounded', 'AwaitStop=FALSE': 'violates NothingLeftRunning',
                                          'NotifyPop=FALSE': 'violates NoLostWake'}
    ctx.progress('leg M vacuity witnesses ok')

    # ---- leg A1: run-to-quiescence behaviours, results compared exactly ----------------------------
    ra = ctx.tlc('MC_WsBuffer', ctx.pick('MC_WsBufferA1Q.cfg', 'MC_WsBufferA1T.cfg'), workers=4, timeout=600, count=False)
    behaviours = list({digest(b): b for b in ra.json}.values())
    behaviours.sort(key=digest)
    judge_every = max(1, len(behaviours) // ctx.pick(1500, 12000))
    held_more = 0
    for i, b in enumerate(behaviours):
        for variant in ctx.rng.sample(VARIANTS, ctx.pick(1, 2)):
            case = case_from_quiescent(b, variant)
            trace, info = execute(case, 'A1', judge=(i % judge_every == 0))
            if trace is None:
                continue
            want = [('Arrive', '', -1) if e['e'] == 'D' else ('Cancel', '', -1) if e['e'] == 'C' else
                    ('AppCall', e['op'], -1) if e['e'] == 'A' else ('AppRet', e['op'], e['r']) for e in b['h']]
            got = [(e, op, (r if e == 'AppRet' else -1)) for e, op, r in info['tokens']]
            if got != want:
                k = next((j for j in range(min(len(got), len(want))) if got[j] != want[j]), min(len(got), len(want)))
                ctx.violation('P:A1_results', {'case': case, 'spec_behaviour': b, 'trace': trace},
                              'application-visible history differs from the specification at step %d: spec %r, code %r'
                              % (k, want[k:k + 2], got[k:k + 2]),
                              signature={'clause': 'P:A1_results', 'buffered': case['mq'] > 0,
                                         'spec_step': list(want[k]) if k < len(want) else None})
                continue
            if info['end']['waiting'] != b['waiting']:
                ctx.violation('P:A1_waiting', {'case': case, 'spec_behaviour': b, 'trace': trace},
                              'at quiescence a receive is %swaiting in the code, the specification says %s'
                              % ('' if info['end']['waiting'] else 'not ', b['waiting']),
                              signature={'clause': 'P:A1_waiting', 'buffered': case['mq'] > 0})
                continue
            # detail (model faithfulness, not demanded by the property): exact number of server pulls
            spec_pulls = [e['pulls'] for e in b['h'] if e['e'] != 'R']
            real_pulls = info['pulls_at'][0::2]
            if spec_pulls != real_pulls or b['pulls'] != info['end']['pulls'] or \
                    b['outstanding'] != info['end']['outstanding'] or b['pumpAlive'] != (info['end']['stray'] > 0):
                ctx.detail('D:A1_pulls', {'case': case, 'spec_behaviour': b},
                           'pull accounting differs: spec %r/%r code %r/%r' % (spec_pulls, b['pulls'], real_pulls,
                                                                               info['end']['pulls']))
            consumed = sum(1 for e in b['h'] if e['e'] == 'R' and e['op'] == 'recv' and e['r'] >= 0)
            if b['mq'] > 0 and b['pulls'] - consumed > b['mq']:
                held_more += 1
    ctx.traces_validated += counts['A1']
    ctx.extra['A1_behaviours'] = len(behaviours)
    ctx.extra['A1_behaviours_with_capacity_plus_one_pulls'] = held_more
    ctx.progress('leg A1: %d behaviours, %d replays compared' % (len(behaviours), counts['A1']))

    # ---- leg A2: simulated fine-grained behaviours -> racy stimulus scripts -------------------------
    rs = ctx.tlc('MC_WsBuffer', 'MC_WsBufferA2.cfg', simulate={'num': ctx.pick(500, 7000)}, depth=30,
                 seed=ctx.seed + 1, workers=4, timeout=600, count=False)
    sims = list({digest(b): b for b in rs.json}.values())
    sims.sort(key=digest)
    for b in sims:
        execute(case_from_tokens(b, ctx.rng.choice(VARIANTS)), 'A2')
    ctx.extra['A2_behaviours'] = len(sims)
    ctx.progress('leg A2: %d simulated behaviours driven' % len(sims))

    # ---- leg B: seeded random scripts beyond the bounds ------------------------------------------
    for _ in range(ctx.pick(3000, 45000)):
        execute(random_case(ctx.rng), 'B')
    ctx.progress('leg B: %d random scripts driven; %d distinct traces to judge' % (counts['B'], len(seen)))

    # ---- TLC judges every distinct boundary trace ---------------------------------------------------
    items = list(seen.values())
    verdicts = ctx.judge('WsBufferTrace', [t for t, _ in items], workers=8, timeout=1500, chunk=12000)
    for (trace, case), v in zip(items, verdicts):
        if v == 'ok':
            continue
        clause, _, at = v.partition('@')
        at = int(at or -1)
        what = 'boundary trace rejected by WsBufferTrace: %s at event %d (%r)' % (
            clause, at + 1, trace['ev'][at] if 0 <= at < len(trace['ev']) else None)
        if clause.startswith('H:'):
            raise MachineryError('%s\ncase %r\ntrace %r' % (what, case, trace))
        if clause.startswith('D:'):
            ctx.detail(clause, {'case': case, 'trace': trace}, what)
        else:
            ctx.violation(clause, {'case': case, 'trace': trace}, what, signature=_signature(clause, case, trace, at))
    # ---- binding self-test: the judge must reject corrupted versions of accepted traces -------------
    import copy
    corrupted = []
    for (trace, case), v in zip(items, verdicts):
        if v != 'ok' or len(corrupted) >= 60:
            continue
        idx = [i for i, e in enumerate(trace['ev']) if e['e'] == 'AppRet' and e['op'] == 'recv' and e['r'] >= 1]
        if not idx:
            continue
        t1 = copy.deepcopy(trace)
        t1['ev'][idx[0]]['r'] += 1                                # a receive returned the wrong message
        t2 = copy.deepcopy(trace)
        m = trace['ev'][idx[0]]['r']
        k = next(i for i, e in enumerate(trace['ev']) if e['e'] == 'SrvRecvRet' and e['m'] == m)
        del t2['ev'][k]                                           # the pull that fetched it is missing
        t3 = copy.deepcopy(trace)
        t3['ev'].insert(idx[0] + 1, dict(trace['ev'][idx[0]]))    # the same message is delivered twice
        t3['ev'].insert(idx[0] + 1, ev('AppCall', op='recv'))
        corrupted += [t1, t2, t3]
    if not corrupted:
        raise MachineryError('no accepted trace with a delivered message: nothing to corrupt')
    cv = ctx.judge('WsBufferTrace', corrupted, workers=4, timeout=300)
    ctx.traces_validated -= len(corrupted)
    if any(v == 'ok' for v in cv):
        raise MachineryError('the trace judge accepts a corrupted trace: %r' % (
            [t for t, v in zip(corrupted, cv) if v == 'ok'][0],))
    ctx.extra['judge_selftest'] = '%d corrupted traces (wrong message / missing pull / duplicate delivery) all rejected' % len(corrupted)
    ctx.extra['executions'] = dict(counts)
    ctx.extra['distinct_traces_judged'] = len(items)
    stepper.close()


def replay(ctx, case):
    c = case.get('case', case)
    stepper = steploop.Stepper()
    trace, info = run_case(stepper, c)
    for i, e in enumerate(trace['ev']):
        print('%3d %s' % (i + 1, {k: v for k, v in e.items() if v not in (-1, '')}))
    print('info:', {k: v for k, v in info.items() if k != 'tokens'})
    v = ctx.judge('WsBufferTrace', [trace], workers=1)[0]
    print('verdict:', v)
    if v != 'ok' and not v.startswith('D:'):
        clause, _, at = v.partition('@')
        ctx.violation(clause, {'case': c, 'trace': trace}, 'trace rejected at %s' % v,
                      signature=_signature(clause, c, trace, int(at or -1)))
    stepper.close()
