"""C19 - concurrent requests do not influence one another, from the very first request.

spec:  spec/RouterCompile.tla (threads through the lazy router compilation, one action per
       source line that touches shared state; switches UseLock / Recheck), spec/Isolation.tla
       (ASGI tasks as await-to-await segments over memo caches; switches CoarseKey / SharedScratch)
legs:  M  exhaustive TLC check of both designs (2 and 3 threads / 3 requests) + wrong-design switches
       A  TLC-enumerated schedules (which thread / task moves at each step) driven on the REAL code:
          threads under a sys.settrace line scheduler, tasks on gate-stepped fake ASGI servers;
          every response compared with the serial response (P-clause)
       B  preemption-bounded DFS over real thread schedules; the recorded yield-point event traces are
          judged by spec/RouterCompileTrace.tla (conformance of the implementation to the modelled design)
"""
import itertools
import json

META = {
    'property_id': 'C19',
    'design_ref': 'DESIGN.md section 4, C19',
    'technique': 'TLA+ models of lazy-compile locking and task isolation model-checked with TLC; TLC schedules '
                 'driven on real threads (settrace line scheduler) and real asyncio tasks; traces judged by TLC; '
                 'bounded shared-cache model (SharedCache.tla) + one-preemption sweep over every falcon source line',
    'level_text': 'All interleavings of 2-3 threads through the lazy router compilation are model-checked at '
                  'shared-access granularity (lock + re-check hold, each wrong design fails); TLC-generated and '
                  'preemption-bounded schedules are forced on real WSGI requests/threads and real ASGI tasks and '
                  'every response is compared with the serial one; yield-point traces are judged against the spec.',
    'level_note': 'Granularity: source lines for threads (shared-access lines of falcon/routing/compiled.py with up to '
                  '2/3 preemptions and 2-3 threads; every source line of every falcon module with 1 preemption, 2 '
                  'sampled, for request pairs), await points (receive/send/middleware/responder awaits) for tasks; '
                  'preemption inside C code or between bytecodes of one line is not explored.',
}


# ------------------------------------------------------------------------------------------------
# generated application logic
# ------------------------------------------------------------------------------------------------

def build_wsgi_app(hook=lambda: None):
    import falcon
    from falcon.routing import CompiledRouter

    class Ctx:
        def process_request(self, req, resp):
            req.context.tag = req.get_header('X-Tag')
            # req.params is the request's own mapping; applications add derived values to it
            req.params['mw'] = req.get_header('X-Tag')

        def process_resource(self, req, resp, resource, params):
            # documented: process_resource may modify the params passed to the responder
            params['tenant'] = req.get_header('X-Tag')

        def process_response(self, req, resp, resource, ok):
            resp.set_header('X-Echo-Tag', str(getattr(req.context, 'tag', None)))

    class Pause:
        """A later middleware in which the thread can be preempted (cooperative yield point)."""
        def process_resource(self, req, resp, resource, params):
            hook()

        def process_response(self, req, resp, resource, ok):
            hook()

    class Item:
        def on_get(self, req, resp, x, tenant=None):
            resp.media = {'route': 'a', 'x': x, 'q': req.get_param('q'), 'tag': req.context.tag, 'tenant': tenant,
                          'mw': req.get_param('mw'),
                          'pref': req.client_prefers(['application/json', 'text/plain'])}

        def on_post(self, req, resp, x, tenant=None):
            if 'urlencoded' in (req.content_type or ''):
                doc = {k: req.params[k] for k in sorted(req.params)}       # query + auto-parsed form fields
            else:
                doc = req.get_media()
            resp.media = {'route': 'a', 'x': x, 'doc': doc, 'tag': req.context.tag, 'tenant': tenant,
                          'mw': req.get_param('mw')}

    class Other:
        def on_get(self, req, resp, y, tenant=None):
            if y == 13:
                raise falcon.HTTPBadRequest(title='unlucky', description=req.context.tag)
            resp.media = {'route': 'b', 'y': y, 'tag': req.context.tag, 'tenant': tenant, 'mw': req.get_param('mw')}

    router = CompiledRouter()
    app = falcon.App(router=router, middleware=[Ctx(), Pause()])
    app.req_options.auto_parse_form_urlencoded = True
    app.add_route('/a/{x:int}', Item())
    app.add_route('/b/{y:int}', Other())
    return app, router


def build_asgi_app(gate, independent=True):
    import falcon
    import falcon.asgi

    class Rejected(Exception):
        pass

    async def on_rejected(req, resp, ex, params):
        # handlers receive the params of the request at hand and may use them as scratch space
        params['client'] = req.get_header('X-Tag')
        params.setdefault('first_path', req.path)
        await gate()
        resp.status = 403
        resp.media = {'rejected': dict(params)}

    class Trace:
        """Outer component: every request must come back through it exactly once."""
        def __init__(self, name):
            self.name = name

        async def process_request(self, req, resp):
            await gate()

        async def process_response(self, req, resp, resource, ok):
            resp.append_header('X-Trace', '%s:%s' % (self.name, req.get_header('X-Tag')))
            await gate()

    class Ctx:
        async def process_request(self, req, resp):
            req.context.tag = req.get_header('X-Tag')
            req.params['mw'] = req.get_header('X-Tag')
            await gate()
            if req.get_header('X-Reject') == '1':
                raise falcon.HTTPForbidden(description=req.get_header('X-Tag'))
            if req.get_header('X-Reject'):
                raise Rejected()

        async def process_resource(self, req, resp, resource, params):
            params['tenant'] = req.get_header('X-Tag')

        async def process_response(self, req, resp, resource, ok):
            await gate()
            resp.set_header('X-Echo-Tag', str(getattr(req.context, 'tag', None)))

    class Pause:
        async def process_resource(self, req, resp, resource, params):
            await gate()

    class Item:
        async def on_get(self, req, resp, x, tenant=None):
            await gate()
            resp.media = {'route': 'a', 'x': x, 'q': req.get_param('q'), 'tag': req.context.tag, 'tenant': tenant,
                          'mw': req.get_param('mw'),
                          'pref': req.client_prefers(['application/json', 'text/plain'])}

        async def on_post(self, req, resp, x, tenant=None):
            try:
                doc = await req.get_media()
            finally:
                await gate()       # e.g. an `async with` around the read: awaits between a failure and its rendering
            if 'urlencoded' in (req.content_type or ''):
                doc = dict(sorted(dict(doc, **{k: v for k, v in req.params.items()}).items()))
            resp.media = {'route': 'a', 'x': x, 'doc': doc, 'tag': req.context.tag, 'tenant': tenant,
                          'mw': req.get_param('mw')}

    class Other:
        async def on_get(self, req, resp, y, tenant=None):
            if y == 13:
                raise falcon.HTTPBadRequest(title='unlucky', description=req.context.tag)
            await gate()
            resp.media = {'route': 'b', 'y': y, 'tag': req.context.tag, 'tenant': tenant, 'mw': req.get_param('mw')}

    app = falcon.asgi.App(middleware=[Trace('outer'), Ctx(), Pause(), Trace('inner')],
                          independent_middleware=independent)
    app.add_error_handler(Rejected, on_rejected)
    app.add_route('/a/{x:int}', Item())
    app.add_route('/b/{y:int}', Other())
    return app


def request_pool():
    from engine.drivers import Req
    return [
        Req('GET', b'/a/3', b'q=one', [('X-Tag', 't1'), ('Accept', 'application/json;q=0.5, text/plain')]),
        Req('GET', b'/b/7', b'', [('X-Tag', 't2'), ('Accept', 'text/plain;q=0.1, application/json')]),
        Req('POST', b'/a/5', b'', [('X-Tag', 't3'), ('Content-Type', 'application/json')], b'{"k": [1, 2, 3]}',
            chunks=[5, 4]),
        Req('GET', b'/b/13', b'', [('X-Tag', 't4')]),
        Req('GET', b'/a/nope', b'', [('X-Tag', 't5')]),
        Req('PUT', b'/b/2', b'', [('X-Tag', 't6')]),
        Req('GET', b'/a/3', b'q=two', [('X-Tag', 't7'), ('Accept', 'text/plain')]),          # same path as #0
        Req('POST', b'/a/5', b'', [('X-Tag', 't8'), ('Content-Type', 'application/json')], b'{"other": true}',
            chunks=[3]),                                                                      # same path as #2
        Req('GET', b'/a/3', b'q=one', [('X-Tag', 't9')]),                                    # same query string as #0
        Req('GET', b'/b/7', b'', [('X-Tag', 't10')]),                                        # no query string, like #1
        Req('POST', b'/a/5', b'k=v', [('X-Tag', 't11'), ('Content-Type', 'application/x-www-form-urlencoded')],
            b'user=alice&pin=1111', chunks=[7]),
        Req('POST', b'/a/5', b'k=v', [('X-Tag', 't12'), ('Content-Type', 'application/x-www-form-urlencoded')],
            b'user=bob&pin=2222', chunks=[4]),                                                # same query string as #10
        Req('POST', b'/a/5', b'', [('X-Tag', 't13'), ('Content-Type', 'application/json')], b'{"k": \xff}', chunks=[3]),
        Req('POST', b'/a/5', b'', [('X-Tag', 't14'), ('Content-Type', 'application/json')], b'{"k": [1, 2,}', chunks=[6]),
        Req('GET', b'/a/3', b'q=one', [('X-Tag', 't15'), ('X-Reject', '1')]),                # refused by a middleware
        Req('GET', b'/a/3', b'q=one', [('X-Tag', 't16'), ('X-Reject', '2')]),                # refused, custom handler
        Req('GET', b'/b/7', b'', [('X-Tag', 't17'), ('X-Reject', '2')]),
    ]


NAMES = ['GET /a/3', 'GET /b/7', 'POST /a/5', 'GET /b/13 (400)', 'GET /a/nope (404)', 'PUT /b/2 (405)',
         'GET /a/3 #2', 'POST /a/5 #2', 'GET /a/3?q=one #3', 'GET /b/7 #2', 'POST form alice', 'POST form bob',
         'POST bad json #1', 'POST bad json #2', 'GET /a/3 refused (403)', 'GET /a/3 refused (handler)',
         'GET /b/7 refused (handler)']


def proj(res):
    return [res.status, sorted(res.headers), res.body.decode('utf-8', 'replace'),
            [str(e) for e in res.errors], repr(res.exc) if res.exc else None]


# ------------------------------------------------------------------------------------------------
# threads
# ------------------------------------------------------------------------------------------------

def whole_reads(reqs):
    """WSGI servers hand the app a buffered input whose read(n) is never short; the pool's chunk lists are
    for the ASGI event sizes only."""
    import copy
    out = []
    for r in reqs:
        r = copy.copy(r)
        r.chunks = None
        out.append(r)
    return out


def run_threads(reqs, choices=(), prefer=None):
    """Run the requests concurrently (one thread each) on a fresh WSGI app under the line scheduler."""
    reqs = whole_reads(reqs)
    import falcon.routing.compiled as C
    from engine import threadsched
    from engine.drivers import wsgi_call
    import threading
    holder = {}

    def hook():
        tid = getattr(threading.current_thread(), 'tid', None)
        if tid is not None and 's' in holder:
            holder['s'].yield_point(tid, 'app')

    app, router = build_wsgi_app(hook)
    s = threadsched.Sched(len(reqs), C.__file__, choices, prefer)
    holder['s'] = s
    results = [None] * len(reqs)

    class Shim:
        """router.find stand-in for Sched.run: thread i performs whole request i."""
        def __init__(self):
            self._compile_lock = getattr(router, '_compile_lock', None)

    # Sched.run drives `router.find(paths[tid])`; we want whole requests, so wrap.
    class Whole:
        def find(self, i):
            return wsgi_call(app, reqs[i])

    w = Whole()
    if hasattr(router, '_compile_lock'):
        router._compile_lock = threadsched.CoopLock(s)
    out = s.run(w, list(range(len(reqs))), proj)
    return out, s


def serial_answers(reqs):
    from engine.drivers import wsgi_call
    out = []
    for r in whole_reads(reqs):
        app, _ = build_wsgi_app()
        out.append(('ok', proj(wsgi_call(app, r))))
    return out


def events_to_trace(s, n, ok):
    return {'ev': [{'t': t + 1, 'k': k} for t, k in s.events], 'res': ['ok' if o else 'bad' for o in ok]}


# ------------------------------------------------------------------------------------------------
# tasks
# ------------------------------------------------------------------------------------------------

def run_tasks(reqs, sched, independent=True):
    """Step real ASGI request tasks in the order given by `sched` (1-based task ids)."""
    import asyncio
    from engine.drivers import scope, body_events, Result

    async def main():
        loop = asyncio.get_running_loop()
        waiting = {}
        cur = {'tid': None}

        def mkgate(tid):
            async def gate():
                fut = loop.create_future()
                waiting[tid] = fut
                await fut
            return gate

        import contextvars
        current = contextvars.ContextVar('tid')

        async def gate():
            tid = current.get()
            fut = loop.create_future()
            waiting[tid] = fut
            await fut

        app = build_asgi_app(gate, independent)
        results = [Result() for _ in reqs]

        async def one(tid, rq):
            current.set(tid)
            res = results[tid]
            evs = body_events(rq)
            st = {'started': False, 'done': False}

            async def receive():
                await gate()
                if evs:
                    return evs.pop(0)
                return {'type': 'http.disconnect'}

            async def send(ev):
                await gate()
                res.events.append(ev)
                if ev['type'] == 'http.response.start':
                    if st['started']:
                        res.errors.append('second start')
                    st['started'] = True
                    res.status = ev['status']
                    res.headers = [(k.decode('latin-1'), v.decode('latin-1')) for k, v in ev.get('headers', [])]
                elif ev['type'] == 'http.response.body':
                    if st['done']:
                        res.errors.append('body after final')
                    res.chunks.append(bytes(ev.get('body', b'')))
                    if not ev.get('more_body', False):
                        st['done'] = True
            try:
                await app(scope(rq), receive, send)
            except Exception as ex:  # noqa
                res.exc = ex
            res.body = b''.join(res.chunks)

        tasks = [asyncio.ensure_future(one(i, r)) for i, r in enumerate(reqs)]

        async def settle():
            for _ in range(2000):
                if all(t.done() or i in waiting for i, t in enumerate(tasks)):
                    return
                await asyncio.sleep(0)
            raise RuntimeError('tasks do not reach a gate')

        await settle()
        pi = 0
        steps = 0
        while not all(t.done() for t in tasks):
            live = [i for i, t in enumerate(tasks) if not t.done() and i in waiting]
            nxt = None
            while pi < len(sched):
                c = sched[pi] - 1
                pi += 1
                if c in live:
                    nxt = c
                    break
            if nxt is None:
                nxt = live[0]
            waiting.pop(nxt).set_result(None)
            await asyncio.sleep(0)
            await settle()
            steps += 1
            if steps > 10000:
                raise RuntimeError('no progress')
        return [('ok', proj(r)) for r in results], steps

    from engine.drivers import run_async
    return run_async(main())


def serial_tasks(reqs, independent=True):
    out = []
    for r in reqs:
        res, _ = run_tasks([r], [], independent)
        out.append(res[0])
    return out


# ------------------------------------------------------------------------------------------------

def run(ctx):
    ctx.rule = ('case = (set of 2-3 concurrent requests, schedule); threads: non-trivial iff >= 1 preemption happened '
                'inside the compile section (between acquire and release of another thread\'s compilation or while a '
                'thread is blocked on the lock); tasks: non-trivial iff >= 1 task switch between a request\'s first '
                'and last await; distinct by (requests, schedule)')
    ctx.trusted_base = ['TLC 1.8', 'engine/threadsched.py (settrace scheduler)', 'engine/drivers.py']
    ctx.assumptions = ['thread preemption is explored at source-line granularity of routing/compiled.py only',
                       'task interleavings are those at awaits of receive/send and explicit awaits in middleware/'
                       'responders (everything between two awaits is atomic on an asyncio loop)',
                       'the serial answer is computed on a fresh app instance per request']
    # ---- leg M ------------------------------------------------------------------------------
    r = ctx.tlc('MC_RouterCompile', 'MC_RouterCompile.cfg', coverage=True, workers=4, timeout=300)
    ctx.require_coverage(r, ['ReadFind', 'ReadArgs', 'Call', 'Acquire', 'DoRecheck', 'ResetRv', 'ResetConv',
                             'HandRv', 'ConvLen', 'ConvAppend', 'RvLen', 'RvAppend', 'Publish', 'Release',
                             'ReadFind2'])
    ctx.tlc('MC_RouterCompile', 'MC_RouterCompile3.cfg', workers=4, timeout=300)
    for cfg in ('MC_RouterCompile_NoLock.cfg', 'MC_RouterCompile_NoRecheck.cfg'):
        w = ctx.tlc('MC_RouterCompile', cfg, workers=4, timeout=300, must_hold=False, count=False)
        if w.violated != 'SerialAnswer':
            from engine.core import MachineryError
            raise MachineryError('wrong-design switch %s does not violate SerialAnswer (vacuous model)' % cfg)
    r = ctx.tlc('MC_Isolation', 'MC_Isolation.cfg', coverage=True, workers=4, timeout=300)
    ctx.require_coverage(r, ['Receive', 'Memo', 'Await', 'Send'])
    for cfg in ('MC_Isolation_Coarse.cfg', 'MC_Isolation_Scratch.cfg'):
        w = ctx.tlc('MC_Isolation', cfg, workers=4, timeout=300, must_hold=False, count=False)
        if w.violated != 'SerialResponse':
            from engine.core import MachineryError
            raise MachineryError('wrong-design switch %s does not violate SerialResponse' % cfg)
    ctx.extra['vacuity_witnesses'] = ['UseLock=FALSE', 'Recheck=FALSE', 'CoarseKey=TRUE', 'SharedScratch=TRUE']
    ctx.progress('leg M done')

    pool = request_pool()
    names = NAMES
    pairs = [(0, 8), (1, 9), (10, 11), (0, 6), (2, 7), (0, 1), (2, 1), (0, 3), (4, 2), (5, 0), (6, 0), (12, 13)]
    triples = [(0, 8, 1), (1, 9, 10), (0, 6, 2), (0, 1, 2), (3, 4, 5), (2, 7, 6), (12, 13, 2)]

    def check_threads(idx, choices=(), prefer=None, origin=''):
        reqs = [pool[i] for i in idx]
        serial = [serial_cache[i] for i in idx]
        try:
            out, s = run_threads(reqs, choices, prefer)
        except RuntimeError as ex:
            ctx.violation('P:deadlock', {'requests': [names[i] for i in idx], 'choices': list(choices),
                                         'prefer': prefer}, 'scheduler: %s' % ex)
            return None, None
        ok = [o == e for o, e in zip(out, serial)]
        # non-trivial: some event of thread u lies between acquire and release of thread t != u
        owner = None
        nontriv = False
        for t, k in s.events:
            if k == 'acquire':
                owner = t
            elif k == 'release':
                owner = None
            elif owner is not None and t != owner:
                nontriv = True
        case = {'kind': 'threads', 'requests': [names[i] for i in idx], 'choices': list(choices),
                'prefer': prefer, 'origin': origin}
        ctx.case(case, nontrivial=nontriv, key=('T', idx, tuple(choices), tuple(prefer or ())))
        if not all(ok):
            bad = [i for i, o in enumerate(ok) if not o][0]
            ctx.violation('P:serial-answer', dict(case, got=out[bad], serial=serial[bad]),
                          'thread %d (%s) got a response that differs from its serial response'
                          % (bad, names[idx[bad]]))
        return s, ok

    serial_cache = serial_answers(pool)

    # ---- leg A (threads): TLC schedules -------------------------------------------------------
    traces2, traces3 = [], []
    if ctx.quick:
        rs = ctx.tlc('MC_RouterCompileSched', 'MC_RouterCompileSched.cfg', workers=4, timeout=300, count=False,
                     simulate={'num': 120}, depth=60, seed=ctx.seed + 1)
    else:
        rs = ctx.tlc('MC_RouterCompileSched', 'MC_RouterCompileSched.cfg', workers=8, timeout=900, count=False)
    scheds = sorted({tuple(b['sched']) for b in rs.json})
    ctx.extra['tlc_thread_schedules'] = len(scheds)
    step = max(1, len(scheds) // ctx.pick(250, 2500))
    for k, sc in enumerate(scheds[::step]):
        idx = pairs[k % len(pairs)]
        s, ok = check_threads(idx, prefer=list(sc), origin='tlc-schedule')
        if s is not None:
            traces2.append(events_to_trace(s, 2, ok))
    ctx.progress('leg A threads done: %d schedules' % len(scheds[::step]))

    # ---- leg B (threads): preemption-bounded DFS over real schedules ---------------------------
    P = ctx.pick(2, 3)
    for idx in (pairs[:ctx.pick(5, 11)] + triples[:ctx.pick(2, 6)]):
        stack = [[]]
        budget = ctx.pick(400, 6000)
        while stack and budget > 0:
            ch = stack.pop()
            budget -= 1
            s, ok = check_threads(idx, choices=ch, origin='dfs')
            if s is None:
                continue
            (traces2 if len(idx) == 2 else traces3).append(events_to_trace(s, len(idx), ok))
            used = sum(1 for k in ch if k != 0)
            if used < P:
                for i in range(len(ch), len(s.decisions)):
                    nopts, _ = s.decisions[i]
                    for k in range(1, nopts):
                        stack.append(ch + [0] * (i - len(ch)) + [k])
    ctx.progress('leg B threads done: %d + %d traces' % (len(traces2), len(traces3)))

    for traces, cfg in ((traces2, 'RouterCompileTrace.cfg'), (traces3, 'RouterCompileTrace3.cfg')):
        uniq = {json.dumps(t, sort_keys=True): t for t in traces}
        tl = list(uniq.values())
        if not tl:
            continue
        verdicts = ctx.judge('RouterCompileTrace', tl, cfg, workers=8, timeout=900)
        for t, v in zip(tl, verdicts):
            if v == 'ok':
                continue
            clause = v.split('@')[0]
            if clause.startswith('P:'):
                ctx.violation(clause, {'trace': t}, 'trace rejected by RouterCompileTrace: %s' % v)
            else:
                ctx.detail(clause, {'trace': t}, 'implementation left the modelled lazy-compile design: %s' % v)
    ctx.progress('thread traces judged')

    # ---- leg A (tasks): TLC interleavings ------------------------------------------------------
    rs = ctx.tlc('MC_IsolationSched', 'MC_IsolationSched.cfg', workers=4, timeout=300, count=False)
    tscheds = sorted({tuple(b['sched']) for b in rs.json})
    ctx.extra['tlc_task_schedules'] = len(tscheds)
    serial_t = {True: serial_tasks(pool, True), False: serial_tasks(pool, False)}
    step = max(1, len(tscheds) // ctx.pick(150, 924))
    combos = pairs + [(3, 0), (7, 2), (11, 10), (9, 1), (13, 12), (12, 2), (0, 14), (14, 0), (14, 2), (1, 14), (15, 16), (16, 15), (15, 0)]
    n = 0

    def check_tasks(idx, sc, key, nontrivial):
        for indep in (True, False):
            out, steps = run_tasks([pool[i] for i in idx], list(sc), indep)
            case = {'kind': 'tasks', 'requests': [names[i] for i in idx], 'sched': list(sc),
                    'independent_middleware': indep}
            ctx.case(case, nontrivial=nontrivial, key=(key, indep, idx, tuple(sc)))
            for j, i in enumerate(idx):
                if out[j] != serial_t[indep][i]:
                    ctx.violation('P:serial-answer', dict(case, got=out[j], serial=serial_t[indep][i]),
                                  'task %d (%s) got a response that differs from its serial response' % (j, names[i]))
                    break

    for k, sc in enumerate(tscheds[::step]):
        idx = combos[k % len(combos)]
        n += 2
        check_tasks(idx, sc, 'A', sum(1 for a, b in zip(sc, sc[1:]) if a != b) >= 2)
    # seeded random interleavings beyond the exhaustive bound: long schedules for pairs, and three tasks
    for k in range(ctx.pick(120, 3000)):
        idx = combos[k % len(combos)] if k % 2 else (triples + [(0, 14, 2), (14, 1, 0)])[(k // 2) % (len(triples) + 2)]
        sc = [ctx.rng.randint(1, len(idx)) for _ in range(60)]
        n += 2
        check_tasks(idx, sc, 'A3', True)
    ctx.traces_validated += n
    ctx.progress('leg A tasks done: %d interleavings' % n)

    # ---- wide thread leg: every falcon source line is a preemption point --------------------------
    from checks import c19_wide
    c19_wide.leg(ctx)


def replay(ctx, case):
    if case.get('kind') == 'wide':
        from checks import c19_wide
        return c19_wide.replay(ctx, case)
    pool = request_pool()
    names = NAMES
    idx = [names.index(n) for n in case['requests']]
    reqs = [pool[i] for i in idx]
    if case['kind'] == 'threads':
        serial = serial_answers(reqs)
        out, s = run_threads(reqs, case.get('choices') or (), case.get('prefer'))
    else:
        indep = case.get('independent_middleware', True)
        serial = serial_tasks(reqs, indep)
        out, _ = run_tasks(reqs, case['sched'], indep)
    for i, (o, e) in enumerate(zip(out, serial)):
        print(i, 'SAME' if o == e else 'DIFF', o, e)
        if o != e:
            ctx.violation('P:serial-answer', case, 'request %d differs from serial' % i)
