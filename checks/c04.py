"""C04 - every raised exception becomes the response its most specific handler defines.

spec:   spec/Pipeline.tla (handler choice by MRO walk + latest registration, reset before the handler,
        handler-raised HTTPError/HTTPStatus rendered, escape only through a failing custom handler;
        invariants MostSpecificWins, LatestRegistrationWins, HandlerFollowsRaise, EveryRaiseHandled,
        StaleBodyDiscarded, NeverEscapesByDefault, HandlerRaisedErrorIsRendered, DefaultRendering),
        spec/ErrorRender.tla (status, Vary, negotiated representation, document fields),
        spec/MC_Pipeline.tla (C04 instances), spec/MC_ErrorRender.tla, spec/PipelineTrace.tla,
        spec/ErrorRenderTrace.tla; spec/ErrorObject.tla (one HTTPError instance with a history: Amend, Peek, Raise,
        Catch/Reraise, RenderObj; law RenderedIsCurrent), spec/MC_ErrorObject(S).tla, spec/ErrorObjectTrace.tla;
        mixin hierarchies: MC_PipelineM*.cfg / MC_PipelineS_M*.cfg (SecondaryBaseHonoured)
legs:   M  exhaustive TLC check over registration histories x raise sites x raised classes, and of the
           rendering decision table; wrong-design switches (reversed MRO walk, first registration wins,
           no reset) must fail
        A  TLC-exported behaviours replayed on real WSGI/ASGI apps (which handler ran, with which
           exception, final status/body/headers); the rendering table replayed with adversarial
           title/description/link strings, bodies decoded by json.loads / xml.etree
        B  seeded random registries / stacks / Accept headers recorded from the real apps and judged by
           TLC (PipelineTrace, ErrorRenderTrace)
"""
import random

META = {
    'property_id': 'C04',
    'design_ref': 'DESIGN.md section 4, C04',
    'technique': 'TLA+ handler-selection/rendering specifications model-checked with TLC; TLC behaviours and decision '
                 'table replayed on real WSGI/ASGI apps; recorded traces judged by TLC; bodies decoded by trusted parsers',
    'level_text': 'Handler choice (nearest registered class in the MRO, latest registration), the reset of text/data/media, '
                  'rendering of handler-raised HTTP errors/statuses and the default rendering (status, headers, Vary, '
                  'negotiated representation) are model-checked over all registration histories <= 2 on a class universe '
                  'with a diamond and a mixed application/HTTP class, all raise sites and raised classes; each exported '
                  'behaviour and each cell of the rendering table is replayed on real falcon apps (WSGI and ASGI); the '
                  'faithfulness of JSON/XML bodies is the law Decode(body) = the error\'s attributes over an adversarial '
                  'string pool.',
    'level_note': 'Bounds: registries <= 2 custom registrations exhaustively (<= 6 randomly) over 10 classes; 28 Accept '
                  'classes exhaustively, random 1-4 range headers beyond; strings from a fixed pool (JSON/XML escaping is '
                  'not re-specified in TLA+: trusted decoders json.loads, xml.etree, urllib.parse). XML bodies are checked '
                  'only for strings XML 1.0 can carry. An exception raised while the body is rendered is a raise site '
                  'like any other (status, headers and body of the handler\'s response are P-clauses); only what is sent '
                  'when rendering that response fails as well (SecondRenderFailureDropsBody) is a D-clause. A custom '
                  'handler raising a non-HTTP exception propagates (modelled, outside the promise). '
                  'Hierarchies with several bases: the class table holds explicit linearisations incl. a mixin second '
                  '(Overloaded(ServiceError, Retryable)), first (MixFirst(Retryable, AppB)) and on an HTTP error (HTTPMix); '
                  'handlers for the secondary bases only, <= 2 registrations, raised from every site (process_request, '
                  'process_resource, before/after hooks, responder, process_response, rendering), exhaustively and replayed '
                  'on both stacks (quick: 700 sampled behaviours); invariant SecondaryBaseHonoured, wrong design '
                  'primary_chain_only. Error objects with a history (spec/ErrorObject.tla): ONE HTTPError instance, attributes '
                  'title/description/code/link/headers as versioned state, actions Amend (incl. setting None, in-place header '
                  'mutation), Peek (to_dict/to_json/to_xml), Raise, Catch/Reraise (a handler amends and re-raises within the '
                  'request), RenderObj; law RenderedIsCurrent for JSON, XML and a configured media handler; exhaustive <= 2 '
                  'amendments/1 peek/2 renderings (thorough 3/2/3), TLC-simulated histories <= 4/3/3 replayed on both stacks, '
                  'random histories up to 6 requests judged by ErrorObjectTrace; wrong design memo_json. Status is not amended. '
                  'Accept spellings: ranges carry a spelling (lower/upper/sfx/mixed); the vendor types served through the '
                  '+json/+xml fallback are enumerated in upper, mixed and suffix-only upper case (7 further Accept classes, '
                  'random spellings in leg B); invariant SpellingIrrelevant, wrong design suffix_case_sensitive. Non-lower '
                  'spellings of the exactly matched types (APPLICATION/JSON) are NOT in the enumerated classes.',
}

from engine import pipeline_harness as H
from engine.core import MachineryError, digest

OWN = 'P4'
C4_ACTIONS = ['AddHandler', 'Start', 'XReqCall', 'XRsrcCall', 'XResponder', 'XRespCall', 'RenderCall', 'XRenderFail', 'Route',
              'NotFound', 'HandleCall', 'NextRequest']
ALL_BEHS = ['set', 'setbad', 'noop', 'http', 'status', 'draftst', 'drafterr', 'other']


def mt_text(m):
    return '%s/%s' % (m['t'], m['s']) if m['t'] else ''


def observe_render(ex, res, tag_handlers, own_vary=None):
    """Project a rendered error response onto ErrorRender's observation record (trusted decoders only)."""
    import urllib.parse
    ct = (res.header('content-type') or '').split(';')[0].strip().lower()
    t, _, s = ct.partition('/')
    obs = {'status': res.status or 0, 'kind': 'none', 'ctype': {'t': t, 's': s}, 'fields': [], 'doc': None,
           'vary': any('accept' in [x.strip().lower() for x in v.split(',')] for v in res.header_all('vary'))}
    if own_vary:        # the error's own Vary tokens must be there too (token-wise, case-insensitive)
        have = [x.strip().lower() for v in res.header_all('vary') for x in v.split(',')]
        obs['vary'] = obs['vary'] and all(t.strip().lower() in have for t in own_vary.split(','))
    b = res.body
    if not b:
        return obs
    if b.startswith(b'TAG'):
        import json
        obs['kind'], obs['doc'] = 'media', json.loads(b[3:].decode('utf-8'))
    elif ct == 'application/x-www-form-urlencoded':
        q = urllib.parse.parse_qs(b.decode('ascii'), keep_blank_values=True, strict_parsing=True)
        obs['kind'], obs['doc'] = 'media', {k: v[0] for k, v in q.items()}
        obs['flat'] = True
    else:
        d = H.decode_doc(b, ct)
        if d is None:
            obs['kind'] = 'unknown'
        else:
            obs['kind'] = 'json' if ct.endswith('json') else 'xml'
            obs['doc'] = d
    if obs['doc'] is not None:
        obs['fields'] = sorted(obs['doc'])
    return obs


OWN_VARY = [None, 'Accept-Encoding', 'accept-language, X-Accept', 'Cookie', 'X-Accept']


def check_render(ctx, cell, fields, asgi, leg, site='responder', own_vary=None):
    """Replay one cell of TLC's rendering table with concrete field values.  Returns the observation."""
    acc, out = cell['acc'], cell['out']
    accept = H.accept_text(acc)
    extra = [mt_text(m) for m in cell['extra']]
    e = cell['err']
    f = H.Fields()
    f.title_tail = fields.title_tail
    f.description = (fields.description if fields.description is not None else 'desc ' + fields.title_tail) if e['desc'] else None
    f.code = (fields.code if fields.code is not None else 42) if e['code'] else None
    f.href = (fields.href or 'http://example.com/help') if e['link'] else None
    f.href_text = fields.href_text if e['link'] else None
    ex, res, hs = H.render_case(accept, cell['xmlOn'], extra, f, asgi=asgi, site=site, own_vary=own_vary,
                                shape=e.get('shape', 'plain'), ctor=e.get('ctor'), status=e['status'])
    case = {'leg': leg, 'iface': 'asgi' if asgi else 'wsgi', 'site': site, 'own_vary': own_vary, 'accept': accept, 'xmlOn': cell['xmlOn'], 'extra': extra,
            'err': e, 'fields': vars(f), 'spec': out}
    if res.exc is not None or ex is None:
        ctx.violation('P4:escaped', case, 'exception left the app: %r' % (H.safe_repr(res.exc),))
        return None, case
    if res.errors:
        ctx.violation('P4:protocol', case, 'protocol errors %r' % (res.errors,))
        return None, case
    obs = observe_render(ex, res, hs, own_vary)
    obs['own'] = H.own_observed(res)
    obs['shape'] = e.get('shape', 'plain')
    case['obs'] = {k: obs[k] for k in ('status', 'kind', 'ctype', 'vary', 'fields', 'own')}
    case['ex'] = ex
    return obs, case


def compare_render(ctx, cell, obs, case):
    """Compare an observation with TLC's expected rendering; the same clauses as ErrorRenderTrace."""
    out = cell['out']
    ex = case.pop('ex')
    sig_base = {'observed_status': obs['status'], 'observed_ctype': mt_text(obs['ctype'])}
    clause = None
    if obs['status'] != out['status']:
        clause, what = 'P4:render-status', 'status %r, the error carries %r' % (obs['status'], out['status'])
    elif sorted((h['name'], h['value']) for h in obs['own']) != sorted((h['name'], h['value']) for h in out.get('own', [])):
        clause, what = 'P4:ownheaders', 'constructor-derived headers %r, specified %r' % (obs['own'], out.get('own', []))
    elif out.get('vary', True) and not obs['vary']:
        clause, what = 'P4:vary', 'Vary lacks the token Accept or a token of the error\'s own Vary header'
    elif out['kind'] != 'none' and obs['kind'] != out['kind']:
        clause, what = 'P4:negotiation', 'body representation %r, negotiated %r (%s)' % (obs['kind'], out['kind'], mt_text(out['ctype']))
    elif out['kind'] != 'none' and set(obs['fields']) != set(out['fields']) and not obs.get('flat'):
        clause, what = 'P4:fields', 'document fields %r, the error has %r' % (obs['fields'], sorted(out['fields']))
    elif out['kind'] != 'none':
        what = unfaithful(ex, obs)
        clause = 'P4:faithful' if what else None
    if clause:
        ctx.violation(clause, case, what, signature=dict(sig_base, clause=clause))
        return
    if out['kind'] == 'none' and obs['kind'] != 'none':
        ctx.detail('D:nobody', case, 'a body was sent although nothing acceptable was negotiated')
    elif out['ctype']['t'] and obs['ctype'] != out['ctype']:
        ctx.detail('D:ctype', case, 'content-type %r, model %r' % (obs['ctype'], out['ctype']))


def unfaithful(ex, obs):
    """The law Decode(body) = the error's public attributes.  Returns a description of the difference or None."""
    if obs['doc'] is None:
        return None
    want = H.expected_doc(ex)
    if obs['kind'] in ('json', 'media'):       # representations built from what to_dict() of the raised instance returns
        want = H.reshape(want, obs.get('shape', 'plain'))
    if obs.get('flat'):         # a flat form cannot carry the nested link: compare the scalar fields as text
        want = {k: str(v) for k, v in want.items() if k not in ('link', 'problems')}
        got = {k: v for k, v in obs['doc'].items() if k not in ('link', 'problems')}
    else:
        got = obs['doc']
    if obs['kind'] == 'xml' and not all(H.xml_expressible(s) for s in (ex.title, ex.description, (ex.link or {}).get('text'))):
        return None             # outside what XML 1.0 can express
    if got != want:
        return 'body decodes to %r, the error holds %r' % (got, want)
    return None


def random_ctor(rng):
    """Abstract constructor arguments beyond the enumerated table: (status, ctor)."""
    k = rng.choice(['none', 'none', 'retry', 'allow', 'range', 'challenge', 'location'])
    c = dict(H.NO_CTOR)
    c['kind'] = k
    if k == 'none':
        return 422, c
    if k == 'retry':
        c['date'] = rng.random() < 0.25
        c['n'] = -1 if c['date'] else rng.choice([-1, 0, 0, 1, 2, 30, 86400])
        return rng.choice([413, 429, 503]), c
    if k == 'allow':
        c['items'] = rng.sample(['GET', 'HEAD', 'POST', 'PUT', 'PATCH', 'DELETE', 'OPTIONS'], rng.randint(0, 4))
        return 405, c
    if k == 'range':
        c['n'] = rng.choice([0, 0, 1, 7, 4096, 2000000000])
        return 416, c
    if k == 'challenge':
        c['items'] = rng.sample(['Basic realm="r"', 'Bearer', 'Digest realm="r", nonce="n"', 'Newauth'], rng.randint(0, 3))
        return 401, c
    c['loc'] = rng.choice(['/p', '/caf<e9> "q"?a=b&c=d e', 'http://example.com/a?b=c&d=%41', '//host/x y'])
    return rng.choice([301, 302, 303, 307, 308]), c


def random_accept(rng):
    """Abstract Accept value beyond the enumerated classes (1-4 ranges, random q)."""
    if rng.random() < 0.06:
        return {'absent': True, 'malformed': False, 'raw': '', 'msfx': '', 'ranges': []}
    if rng.random() < 0.06:
        raw, sfx = rng.choice([('garbage', ''), ('nonsense+json', 'json'), ('x+xml y', 'xml'), ('text', ''),
                               ('NONSENSE+JSON', 'json'), ('x+Xml y', 'xml')])
        return {'absent': False, 'malformed': True, 'raw': raw, 'msfx': sfx, 'ranges': []}
    types = [('application', 'json'), ('text', 'xml'), ('application', 'xml'), ('*', '*'), ('text', '*'), ('application', '*'),
             ('application', 'x-verif-tag'), ('image', 'png'), ('text', 'html'), ('application', 'vnd.verif+json'),
             ('application', 'vnd.verif+xml'), ('application', 'x-www-form-urlencoded'), ('*', 'json'), ('multipart', 'form-data'),
             ('multipart', '*')]
    rs = []
    for _ in range(rng.randint(1, 4)):
        t, s = rng.choice(types)
        sfx = 'json' if '+json' in s else 'xml' if '+xml' in s else ''
        # spellings: the types the serializer knows only by their structured-syntax suffix come in every spelling
        cs = rng.choice(['lower', 'upper', 'sfx', 'mixed']) if sfx else 'lower'
        rs.append({'t': t, 's': s, 'q': rng.choice([10, 10, 10, 9, 8, 5, 3, 1, 0]), 'sfx': sfx, 'cs': cs})
    return {'absent': False, 'malformed': False, 'raw': '', 'msfx': '', 'ranges': rs}


# ---- error objects with a history (spec/ErrorObject.tla) -----------------------------------------------------------
OBJ_ACTIONS = ['Amend', 'Peek', 'Raise', 'Catch', 'Reraise', 'RenderObj']


class ObjValues:
    """Concrete values of the attribute versions of ErrorObject.tla (version k -> the k-th value assigned)."""

    def __init__(self, rng):
        self.tails = [rng.choice([x for x in H.POOL if H.xml_expressible(x)]) for _ in range(16)]

    def title(self, v):
        return 'T%d|%s' % (v, self.tails[v % 16])

    def description(self, v):
        return 'D%d|%s' % (v, self.tails[(v + 5) % 16])

    def code(self, v):
        return 1000 + v

    def link(self, v):
        return {'text': 'L%d|%s' % (v, self.tails[(v + 9) % 16]), 'href': 'http://example.com/h%d' % v, 'rel': 'help'}

    def hdr(self, v):
        return 'h%d' % v

    def version(self, f, x):
        """The version whose value of attribute f is x (-1: absent, -2: no value this object ever held)."""
        if x is None:
            return -1
        for v in range(64):
            if getattr(self, f)(v) == x:
                return v
        return -2


def run_object_history(ops, asgi, rng, in_place):
    """Replay one history of ErrorObject.tla on ONE real falcon.HTTPError instance shared by two applications (one whose
    error handler catches the object, does what the history says and raises it again).  Returns the observed documents."""
    import falcon
    import falcon.asgi
    vals = ObjValues(rng)

    class Catchable(falcon.HTTPError):
        pass

    err = Catchable(422, title=vals.title(0), description=vals.description(0), code=vals.code(0),
                    headers={'X-Ver': vals.hdr(0)})
    err.link = vals.link(0)
    ver = [1]
    script = []         # operations the catching handler performs in the current request

    def amend(f, none):
        v = ver[0]
        ver[0] += 1
        if f == 'hdr':
            if in_place and isinstance(err.headers, dict):
                err.headers['X-Ver'] = vals.hdr(v)
            else:
                err.headers = [('X-Ver', vals.hdr(v))] if v % 2 else {'X-Ver': vals.hdr(v)}
        else:
            setattr(err, f, None if none else getattr(vals, f)(v))

    def peek(k):
        if k == 'dict':
            err.to_dict()
        elif k == 'json':
            err.to_json()
        else:
            import warnings
            with warnings.catch_warnings():
                warnings.simplefilter('ignore')
                err.to_xml()

    def apply(op):
        if op['op'] == 'amend':
            amend(op['f'], op['none'])
        elif op['op'] == 'peek':
            peek(op['k'])

    def handle_body(ex):
        for op in script:
            apply(op)
        raise ex

    if asgi:
        class Res:
            async def on_get(self, req, resp):
                resp.media = {'stale': True}
                raise err

        async def handler(req, resp, ex, params):
            handle_body(ex)
    else:
        class Res:
            def on_get(self, req, resp):
                resp.media = {'stale': True}
                raise err

        def handler(req, resp, ex, params):
            handle_body(ex)
    apps = {}
    for catching in (False, True):
        app = (falcon.asgi.App if asgi else falcon.App)()
        app.resp_options.xml_error_serialization = True
        app.resp_options.media_handlers[H.TAG_TYPE] = H.TagHandler(asgi)
        if catching:
            app.add_error_handler(Catchable, handler)
        app.add_route('/t', Res())
        apps[catching] = app
    observed = []
    j = 0
    while j < len(ops):
        op = ops[j]
        if op['op'] in ('amend', 'peek'):
            apply(op)
            j += 1
            continue
        if op['op'] != 'raise':
            raise MachineryError('history: unexpected %r outside a request' % (op,))
        accept = H.accept_text(op['acc'])
        j += 1
        catching = j < len(ops) and ops[j]['op'] == 'catch'
        del script[:]
        if catching:
            j += 1
            while ops[j]['op'] != 'reraise':
                script.append(ops[j])
                j += 1
            j += 1
        if ops[j]['op'] != 'render':
            raise MachineryError('history: a request without its rendering')
        req = H.Req('GET', '/t', headers=[('Accept', accept)] if accept is not None else [])
        res = H.run_async(H.asgi_call_async(apps[catching], req)) if asgi else H.wsgi_call(apps[catching], req)
        obs = {'kind': 'none', 'title': -1, 'description': -1, 'code': -1, 'link': -1, 'hdr': -1, 'status': res.status or 0,
               'exc': H.safe_repr(res.exc) if res.exc is not None else None, 'errors': list(res.errors)}
        if res.exc is None:
            obs['hdr'] = vals.version('hdr', res.header('x-ver'))
            ct = (res.header('content-type') or '').split(';')[0].strip().lower()
            d = H.decode_doc(res.body, ct) if res.body else None
            if d is not None:
                obs['kind'] = 'media' if ct == H.TAG_TYPE else 'json' if ct.endswith('json') else 'xml'
                for f in ('title', 'description', 'code', 'link'):
                    obs[f] = vals.version(f, d.get(f))
                obs['extra_keys'] = sorted(set(d) - {'title', 'description', 'code', 'link'})
            elif res.body:
                obs['kind'] = 'unknown'
        observed.append(obs)
        j += 1
    return observed


def replay_object_histories(ctx, hists, label):
    n = 0
    for hi, hist in enumerate(hists):
        ops = hist['ops']
        want = [op['doc'] for op in ops if op['op'] == 'render']
        for asgi in (False, True):
            seed = int(digest(hist), 16) ^ ctx.seed
            in_place = bool((seed >> 3) & 1)
            case = {'leg': 'A-object', 'iface': 'asgi' if asgi else 'wsgi', 'in_place': in_place, 'seed': seed,
                    'ops': [{k: (H.accept_text(v) if k == 'acc' else v) for k, v in op.items() if k != 'doc'} for op in ops],
                    'spec_docs': want}
            got = run_object_history(ops, asgi, random.Random(seed), in_place)
            case['observed'] = got
            amended_between = any(op['op'] == 'amend' for op in ops)
            ctx.case(case, nontrivial=amended_between and len(want) >= 2, key=digest([ops, asgi]))
            n += 1
            for ri, (w, g) in enumerate(zip(want, got)):
                sig = {'clause': 'P4:object-current', 'kind': w['kind']}
                if g['exc'] is not None:
                    ctx.violation('P4:escaped', case, 'rendering %d: exception left the app: %s' % (ri + 1, g['exc']))
                    break
                if g['errors']:
                    ctx.violation('P4:protocol', case, 'rendering %d: protocol errors %r' % (ri + 1, g['errors']))
                    break
                if g['status'] != 422:
                    ctx.violation('P4:render-status', case, 'rendering %d: status %r, the error carries 422' % (ri + 1, g['status']))
                    break
                if g['kind'] != w['kind']:
                    ctx.violation('P4:negotiation', case, 'rendering %d: representation %r, negotiated %r' % (ri + 1, g['kind'], w['kind']))
                    break
                bad = [f for f in ('title', 'description', 'code', 'link', 'hdr') if g[f] != w[f]] + g.get('extra_keys', [])
                if bad:
                    ctx.violation('P4:object-current', case, 'rendering %d (%s): %s not the current values of the error object: '
                                  'observed versions %r, specified %r' % (ri + 1, w['kind'], bad,
                                  {f: g[f] for f in ('title', 'description', 'code', 'link', 'hdr')},
                                  {f: w[f] for f in ('title', 'description', 'code', 'link', 'hdr')}), signature=sig)
                    break
    ctx.traces_validated += n
    ctx.progress('%s: %d replays' % (label, n))


ABSENT_ACC = {'absent': True, 'malformed': False, 'raw': '', 'msfx': '', 'ranges': []}
NO_OBS = {'kind': '', 'title': -1, 'description': -1, 'code': -1, 'link': -1, 'hdr': -1}
OBJ_ACCEPTS = [ABSENT_ACC] + [
    {'absent': False, 'malformed': False, 'raw': '', 'msfx': '', 'ranges': [dict(t=t, s=x, q=10, sfx=sfx, cs=cs)]}
    for t, x, sfx, cs in [('application', 'json', '', 'lower'), ('text', 'xml', '', 'lower'), ('application', 'xml', '', 'lower'),
                          ('application', 'x-verif-tag', '', 'lower'), ('application', 'vnd.verif+json', 'json', 'sfx'),
                          ('application', 'vnd.verif+xml', 'xml', 'upper'), ('image', 'png', '', 'lower')]]


def random_object_history(rng):
    """A legal operation sequence of ErrorObject.tla, longer than the enumerated ones (presence tracked only to keep
    "set to None" legal; the specification decides everything else)."""
    present = {'description': True, 'code': True, 'link': True}
    ops = []

    def touch(n):
        for _ in range(n):
            if rng.random() < 0.6:
                f = rng.choice(['title', 'description', 'code', 'link', 'hdr'])
                none = f in present and present[f] and rng.random() < 0.3
                if f in present:
                    present[f] = not none
                ops.append({'op': 'amend', 'f': f, 'none': none, 'k': '', 'acc': ABSENT_ACC})
            else:
                ops.append({'op': 'peek', 'f': '', 'none': False, 'k': rng.choice(['dict', 'json', 'json', 'xml']), 'acc': ABSENT_ACC})

    for _ in range(rng.randint(2, 6)):
        touch(rng.randint(0, 3))
        ops.append({'op': 'raise', 'f': '', 'none': False, 'k': '', 'acc': rng.choice(OBJ_ACCEPTS)})
        if rng.random() < 0.5:
            ops.append({'op': 'catch', 'f': '', 'none': False, 'k': '', 'acc': ABSENT_ACC})
            touch(rng.randint(0, 3))
            ops.append({'op': 'reraise', 'f': '', 'none': False, 'k': '', 'acc': ABSENT_ACC})
        ops.append({'op': 'render', 'f': '', 'none': False, 'k': '', 'acc': ABSENT_ACC})
    return ops


def judge_object_histories(ctx, count):
    rng = ctx.rng
    traces, cases = [], []
    for k in range(count):
        ops = random_object_history(rng)
        asgi, seed = bool(k & 1), rng.getrandbits(32)
        got = run_object_history(ops, asgi, random.Random(seed), bool(seed & 8))
        case = {'leg': 'B-object', 'iface': 'asgi' if asgi else 'wsgi', 'seed': seed, 'in_place': bool(seed & 8),
                'ops': [dict(op, acc=H.accept_text(op['acc'])) for op in ops], 'observed': got}
        ctx.case(case, nontrivial=True, key=digest([ops, asgi]))
        bad = [g for g in got if g['exc'] is not None or g['errors'] or g['status'] != 422]
        if bad:
            ctx.violation('P4:escaped' if bad[0]['exc'] is not None else 'P4:render-status', case,
                          'object history: %r' % (bad[0],))
            continue
        it = iter(got)
        tops = []
        for op in ops:
            obs = dict(NO_OBS)
            if op['op'] == 'render':
                g = next(it)
                obs = {f: g[f] for f in NO_OBS}
                if g.get('extra_keys'):
                    obs['title'] = -2
            tops.append(dict(op, obs=obs))
        traces.append({'ops': tops})
        cases.append(case)
    vs = ctx.judge('ErrorObjectTrace', traces, workers=4, timeout=900)
    for c, v in zip(cases, vs):
        if v != 'ok':
            clause = v.split('@')[0]
            ctx.violation(clause, c, 'object history rejected by ErrorObjectTrace: %s' % v, signature={'clause': clause, 'leg': 'B-object'})
    ctx.progress('leg B (error objects with a history): %d traces judged' % len(traces))


def run(ctx):
    ctx.rule = ('case = (handler registry, stack, raise site, raised class, Accept, interface) or one cell of the rendering '
                'table with concrete strings; non-trivial iff the raised class has >= 2 registered ancestors or the handler '
                'itself raised (pipeline cases), or the Accept header is present (rendering cases); distinct by hash')
    ctx.trusted_base = ['TLC 1.8 evaluation of spec/Pipeline.tla and spec/ErrorRender.tla', 'CPython C3 linearisation (class table)',
                        'engine/drivers.py raw WSGI/ASGI drivers', 'json.loads', 'xml.etree.ElementTree', 'urllib.parse.parse_qs']
    ctx.assumptions = ['a custom error handler that raises a non-HTTP exception propagates to the server (DESIGN 7)',
                       'exceptions derive from Exception (BaseException-only classes are outside "Exception-derived")',
                       'XML faithfulness is claimed only for strings XML 1.0 can carry (no C0 controls, no bare CR)',
                       'the urlencoded form handler is flat: the nested link is not compared for it']
    env = H.write_classes(ctx)
    seen_other = {}
    rng = ctx.rng

    # ---- leg M ---------------------------------------------------------------------------------
    r = ctx.tlc('MC_Pipeline', ctx.pick('MC_PipelineHQ.cfg', 'MC_PipelineH.cfg'), coverage=True, env=env,
                workers=ctx.pick(8, 16), timeout=ctx.pick(280, 1500))
    # the quick instance has no handler leaving an unserialisable body (RenderBad): simulated / thorough instances do
    ctx.extra['action_coverage'] = H.require_actions(r, C4_ACTIONS + ([] if ctx.quick else ['RenderBad']))
    H.wrong_designs(ctx, env, ['mro_reversed', 'first_reg_wins', 'no_reset', 'render_drops_body', 'status_keeps_draft'])
    # registration histories on a depth-3 chain / diamond: the same handler object registered again for descendants,
    # a request after every registration
    rg = ctx.tlc('MC_Pipeline', ctx.pick('MC_PipelineG.cfg', 'MC_PipelineG2.cfg'), coverage=True, env=env, workers=8, timeout=600)
    H.require_actions(rg, ['AddHandler', 'XAddSame', 'NextRequest', 'HandleCall'])
    # hierarchies with mixins: handlers registered for secondary bases only, raised from every site
    rm = ctx.tlc('MC_Pipeline', ctx.pick('MC_PipelineM.cfg', 'MC_PipelineM2.cfg'), coverage=True, env=env, workers=4, timeout=600)
    H.require_actions(rm, ['AddHandler', 'XReqCall', 'XRsrcCall', 'XBeforeCall', 'XResponder', 'XAfterCall', 'XRespCall',
                           'XRenderFail', 'HandleCall'])
    rt = ctx.tlc('MC_ErrorRender', ctx.pick('MC_ErrorRenderQ.cfg', 'MC_ErrorRender.cfg'), coverage=True, workers=2, timeout=300)
    H.require_actions(rt, ['XRenderError'])
    table = list({digest(c): c for c in rt.json}.values())
    rc = ctx.tlc('MC_ErrorRender', 'MC_ErrorRenderC.cfg', coverage=True, workers=2, timeout=300)
    H.require_actions(rc, ['XRenderError'])
    ctable = list({digest(c): c for c in rc.json}.values())
    # error objects with a history: one instance amended, peeked, raised and rendered repeatedly
    ro = ctx.tlc('MC_ErrorObject', ctx.pick('MC_ErrorObjectQ.cfg', 'MC_ErrorObject.cfg'), coverage=True, workers=4, timeout=900)
    H.require_actions(ro, OBJ_ACTIONS)
    # vacuity of the new invariants: each named wrong design must be rejected by TLC (independent tiny runs, side by side)
    from concurrent.futures import ThreadPoolExecutor
    wrongs = [('primary_chain_only', 'MC_Pipeline', 'MC_PipelineM.cfg', dict(env, WRONG='primary_chain_only'),
               ('MostSpecificWins', 'SecondaryBaseHonoured')),
              ('suffix_case_sensitive', 'MC_ErrorRender', 'MC_ErrorRenderQ.cfg', {'WRONG_RENDER': 'suffix_case_sensitive'},
               ('SpellingIrrelevant',)),
              ('memo_json', 'MC_ErrorObject', 'MC_ErrorObjectQ.cfg', {'WRONG_RENDER': 'memo_json'}, ('RenderedIsCurrent',))]
    with ThreadPoolExecutor(max_workers=len(wrongs)) as pool:
        outs = list(pool.map(lambda w: ctx.tlc(w[1], w[2], env=w[3], workers=1, timeout=300, must_hold=False, count=False), wrongs))
    for w, rw in zip(wrongs, outs):
        if rw.violated not in w[4]:
            raise MachineryError('wrong design %s: expected %s to fail, TLC reported %r' % (w[0], ' / '.join(w[4]), rw.violated))
        ctx.extra.setdefault('wrong_designs_rejected', []).append(w[0])
    ctx.progress('leg M done: %d + %d distinct states, %d rendering cells' % (r.distinct, rt.distinct, len(table)))

    # ---- leg A: pipeline behaviours --------------------------------------------------------------
    ra = ctx.tlc('MC_PipelineS', ctx.pick('MC_PipelineS_HA.cfg', 'MC_PipelineS_HA2.cfg'), env=env, workers=4, timeout=ctx.pick(280, 1500), count=False)
    behaviours = list({digest(b): b for b in ra.json}.values())
    ctx.extra['spec_behaviours_exported'] = len(behaviours)
    cap = ctx.pick(4000, 50000)
    if len(behaviours) > cap:
        rng.shuffle(behaviours)
        behaviours = behaviours[:cap]
    H.replay_behaviours(ctx, OWN, behaviours, both=False, seen_other=seen_other, label='leg A (exhaustive export)', rich=True)
    # sessions: two requests on one application object with registrations in between (exhaustive, small universe)
    rr = ctx.tlc('MC_PipelineS', ctx.pick('MC_PipelineS_R.cfg', 'MC_PipelineS_R2.cfg'), env=env, workers=4,
                 timeout=ctx.pick(280, 1500), count=False)
    sessions = list({digest(b): b for b in rr.json}.values())
    ctx.extra['spec_sessions_exported'] = len(sessions)
    cap = ctx.pick(2400, 30000)
    if len(sessions) > cap:
        rng.shuffle(sessions)
        sessions = sessions[:cap]
    H.replay_behaviours(ctx, OWN, sessions, both=False, seen_other=seen_other, label='leg A (two-request sessions)', rich=True)
    rg = ctx.tlc('MC_PipelineS', ctx.pick('MC_PipelineS_G.cfg', 'MC_PipelineS_G2.cfg'), env=env, workers=4, timeout=600, count=False)
    hist = list({digest(b): b for b in rg.json}.values())
    ctx.extra['spec_registration_histories_exported'] = len(hist)
    H.replay_behaviours(ctx, OWN, hist, both=ctx.quick, seen_other=seen_other, label='leg A (registration histories)', rich=False)
    rmx = ctx.tlc('MC_PipelineS', ctx.pick('MC_PipelineS_M.cfg', 'MC_PipelineS_M2.cfg'), env=env, workers=4, timeout=600, count=False)
    mix = list({digest(b): b for b in rmx.json}.values())
    ctx.extra['spec_mixin_behaviours_exported'] = len(mix)
    if ctx.quick and len(mix) > 700:
        rng.shuffle(mix)
        mix = mix[:700]
    H.replay_behaviours(ctx, OWN, mix, both=True, seen_other=seen_other, label='leg A (mixin hierarchies, both stacks)', rich=False)
    rs = ctx.tlc('MC_PipelineS', 'MC_PipelineS_HSim.cfg', env=env, simulate={'num': ctx.pick(120, 3000)}, depth=40,
                 seed=ctx.seed + 1, workers=4, timeout=600, count=False)
    deep = list({digest(b): b for b in rs.json}.values())
    rng.shuffle(deep)
    H.replay_behaviours(ctx, OWN, deep[:ctx.pick(600, 15000)], both=True, seen_other=seen_other,
                        label='leg A (simulated registries)', rich=True)

    # ---- leg A: rendering table ------------------------------------------------------------------
    n = 0
    for cell in table:
        frng = random.Random(int(digest(cell), 16) ^ ctx.seed)
        for k in range(ctx.pick(2, 8)):
            for asgi in (False, True):
                f = H.Fields(frng, 1, xml_safe=False)
                site = 'render' if k % 2 else 'responder'      # the same rendering is due at every raise site
                obs, case = check_render(ctx, cell, f, asgi, 'A-render', site, OWN_VARY[(k + frng.randrange(5)) % 5])
                ctx.case(case, nontrivial=not cell['acc']['absent'], key=digest([cell, vars(f), asgi, site]))
                n += 1
                if obs is not None:
                    compare_render(ctx, cell, obs, case)
    ctx.traces_validated += n
    ctx.progress('leg A (rendering table): %d replays' % n)

    # ---- leg A: error objects with a history (TLC-simulated histories of ErrorObject, both stacks) -------------
    rh = ctx.tlc('MC_ErrorObjectS', 'MC_ErrorObjectS.cfg', simulate={'num': ctx.pick(100, 2500)}, depth=16, seed=ctx.seed + 7,
                 workers=4, timeout=600, count=False)
    hists = list({digest(b): b for b in rh.json}.values())
    rng.shuffle(hists)
    ctx.extra['spec_object_histories_exported'] = len(hists)
    replay_object_histories(ctx, hists[:ctx.pick(500, 12000)], 'leg A (error objects with a history)')

    # ---- leg A: error classes (to_dict overrides, header-bearing constructors, redirects) x raise sites ----------
    n = 0
    sites = ['responder', 'hook', 'mw', 'render']
    for ci, cell in enumerate(ctable):
        frng = random.Random(int(digest(cell), 16) ^ ctx.seed)
        for asgi in (False, True):
            site = sites[(ci + asgi + frng.randrange(4)) % 4]
            obs, case = check_render(ctx, cell, H.Fields(frng, 1), asgi, 'A-render', site, OWN_VARY[frng.randrange(5)])
            ctx.case(case, nontrivial=True, key=digest([cell, asgi, site]))
            n += 1
            if obs is not None:
                compare_render(ctx, cell, obs, case)
    ctx.traces_validated += n
    ctx.progress('leg A (error classes table): %d replays' % n)

    # ---- leg B: random registries ------------------------------------------------------------------
    items = []
    for k in range(ctx.pick(4000, 60000)):
        regs = []
        for j in range(rng.randint(0, 6)):
            if regs and rng.random() < 0.3:         # the same handler object again, for another (often related) class
                ref = rng.choice(regs)
                regs.append({'cls': rng.choice(H.ALL_CLASSES), 'beh': ref['beh'], 'obj': ref['obj']})
            else:
                regs.append({'cls': rng.choice(H.ALL_CLASSES), 'beh': rng.choice(ALL_BEHS), 'obj': 4 + j})
        trace, case, runs = H.random_trace(rng, asgi=bool(k & 1), ncomp=rng.randint(0, 3), maxhooks=1, regs=regs,
                                           classes=H.ALL_CLASSES, maxfaults=3, render_p=0.15, rich=True,
                                           nreqs=rng.choice([1, 2, 2, 3]))
        ctx.case(case, nontrivial=len(runs) > 1 or H.nontrivial_c04({'reg': regs, 'calls': runs[0][0].calls}), key=digest(trace))
        bad = [(rec.wrong, res.errors) for rec, res, _ in runs if rec.wrong or res.errors]
        if bad:
            ctx.violation('P4:protocol', case, 'harness anomaly / protocol errors %r' % (bad,))
            continue
        for rec, res, got in runs:
            for clause, what in H.faithful(rec, res, got):
                H.report(ctx, OWN, clause, dict(case, got_final=got), what, seen_other)
        items.append((trace, case))
    nj = H.judge_traces(ctx, OWN, env, items, seen_other)
    ctx.extra['distinct_traces_judged'] = nj
    ctx.progress('leg B (registries): %d distinct traces judged' % nj)

    # ---- leg B: random Accept headers ----------------------------------------------------------------
    traces, cases = [], []
    tag = {'t': 'application', 's': 'x-verif-tag'}
    axml = {'t': 'application', 's': 'xml'}
    for k in range(ctx.pick(2500, 30000)):
        st, ctor = random_ctor(rng)
        cell = {'acc': random_accept(rng), 'xmlOn': rng.random() < 0.7, 'extra': rng.choice([[], [tag], [axml], [tag, axml]]),
                'err': {'status': st, 'desc': rng.random() < 0.5, 'code': rng.random() < 0.5, 'link': rng.random() < 0.5,
                        'shape': rng.choice(['plain', 'plain', 'adds', 'drops', 'renames']) if ctor['kind'] == 'none' else 'plain',
                        'ctor': ctor},
                'out': {'status': 422, 'kind': '?', 'ctype': {'t': '', 's': ''}, 'fields': []}}
        obs, case = check_render(ctx, cell, H.Fields(rng, 1), bool(k & 1), 'B-render', rng.choice(['responder', 'render', 'hook', 'mw']),
                                  rng.choice(OWN_VARY))
        ctx.case(case, nontrivial=not cell['acc']['absent'], key=digest(case['obs'] if obs else k))
        if obs is None:
            continue
        ex = case.pop('ex')
        bad = unfaithful(ex, obs)
        if bad:
            ctx.violation('P4:faithful', case, bad)
        t = {'acc': cell['acc'], 'xmlOn': cell['xmlOn'], 'extra': cell['extra'], 'err': cell['err'],
             'obs': {'status': obs['status'], 'kind': obs['kind'], 'ctype': obs['ctype'], 'vary': obs['vary'], 'own': obs['own'],
                     'fields': [] if obs.get('flat') else obs['fields'], 'flat': bool(obs.get('flat'))}}
        traces.append(t)
        cases.append(case)
    uniq = {}
    for t, c in zip(traces, cases):
        uniq.setdefault(digest(t), (t, c))
    vs = ctx.judge('ErrorRenderTrace', [t for t, _ in uniq.values()], workers=4, timeout=900)
    for (t, c), v in zip(uniq.values(), vs):
        if v == 'ok':
            continue
        clause = v.split('@')[0]
        if clause.startswith('D:'):
            ctx.detail(clause, c, 'rendering trace: %s' % v)
        else:
            ctx.violation(clause, dict(c, trace=t), 'rendering rejected by ErrorRenderTrace: %s' % v,
                          signature={'observed_status': t['obs']['status'], 'observed_ctype': mt_text(t['obs']['ctype']),
                                     'clause': clause})
    ctx.progress('leg B (Accept headers): %d distinct renderings judged' % len(uniq))
    judge_object_histories(ctx, ctx.pick(400, 8000))
    if seen_other:
        ctx.extra['sibling_clauses_seen'] = seen_other


def replay(ctx, case):
    if case.get('leg', '').endswith('render'):
        print('accept=%r xmlOn=%r extra=%r err=%r' % (case['accept'], case['xmlOn'], case['extra'], case['err']))
        f = H.Fields()
        for k, v in case['fields'].items():
            setattr(f, k, v)
        ex, res, hs = H.render_case(case['accept'], case['xmlOn'], case['extra'], f, asgi=case['iface'] == 'asgi',
                                    site=case.get('site', 'responder'), own_vary=case.get('own_vary'),
                                    shape=case['err'].get('shape', 'plain'), ctor=case['err'].get('ctor'),
                                    status=case['err']['status'])
        print('status:', res.status, 'headers:', res.headers, '\nbody:', res.body, '\nexc:', H.safe_repr(res.exc))
        obs = observe_render(ex, res, hs, case.get('own_vary'))
        obs['own'] = H.own_observed(res)
        obs['shape'] = case['err'].get('shape', 'plain')
        print('observed:', {k: obs[k] for k in ('status', 'kind', 'ctype', 'vary', 'fields')}, '\nspecified:', case.get('spec'))
        if case.get('spec') and case['spec'].get('kind') != '?':
            cell = {'out': case['spec']}
            compare_render(ctx, cell, obs, dict(case, ex=ex))
        return
    H.replay_request(ctx, case)
