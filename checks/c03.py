"""C03 - middleware, hooks and responder run in the documented stack order, once each; lifespan order.

spec:   spec/Pipeline.tla (request life cycle, one action per call site; invariants ReqTopDown,
        ResourceMwOnlyIfRouted, ResponderOnlyIfClean, ResponseBottomUp, ResponseOnce,
        SucceededIffNoRaise), spec/MC_Pipeline.tla (bounded instances), spec/PipelineTrace.tla (judge),
        spec/Lifespan.tla, spec/MC_Lifespan.tla, spec/LifespanTrace.tla,
        spec/MC_PipelineSlot.tla (responder slot: method x suffix spelling x class-/method-level hooks; registration
        history of the middleware stack: AddMiddleware receiving a sequence, also between requests)
legs:   M  exhaustive TLC check of both designs with per-action coverage + wrong-design switches
        A  TLC-exported behaviours (configuration, what every call site does, expected call sequence)
           replayed on real WSGI and ASGI applications through the raw drivers
        B  seeded random deep stacks (4-6 components, hooks, <= 5 faults) recorded from the real
           applications and judged by TLC (PipelineTrace / LifespanTrace)
"""
import json
import os

META = {
    'property_id': 'C03',
    'design_ref': 'DESIGN.md section 4, C03',
    'technique': 'TLA+ request life-cycle and lifespan specifications model-checked with TLC; TLC behaviours replayed '
                 'on real WSGI/ASGI apps; recorded call traces of random deep stacks judged by TLC',
    'level_text': 'The stack discipline (spec/Pipeline.tla, spec/Lifespan.tla) is model-checked exhaustively over all '
                  'component shapes, both middleware modes, three target kinds, hooks and every placement of up to K '
                  'faults; every exported behaviour is replayed on real falcon.App and falcon.asgi.App objects and the '
                  'recorded call sequence (with the resource / req_succeeded arguments) must equal the specified one; '
                  'random deeper stacks are recorded and judged by TLC against the same actions.',
    'level_note': 'Bounds: exhaustive N<=2 components, K<=2 faults, <=1 hook of each kind (quick) / N<=3 (thorough); '
                  'random: 4-6 components, <=3 hooks of each kind, <=5 faults. Lifespan: <=4 components exhaustively, '
                  '<=8 randomly, 2-3 lifespan cycles on one app object (<=4 randomly) with add_middleware between. '
                  'Responder slot (spec/MC_PipelineSlot.tla): method (2 quick / 5 thorough) x suffix spelling (none, sfx, item_history, '
                  'byId, v2, A_b_3; more at random) x class-level hooks cb<=nb, ca<=na with <=2 hooks of each kind, every '
                  'placement of <=1 fault, both stacks; ClassHooksWrapSlot + wrong design lower_suffix. '
                  'Stack registration: constructor group + <=2 add_middleware calls of <=2 components, also between two '
                  'requests of one app, <=3 (4) components; container form (bare, list, tuple, generator, iterator, map, dict view) '
                  'and cors_enable are rotated by hash, not enumerated by TLC (the specification is independent of them); '
                  'lifespan add_middleware calls receive sequences (AddMiddlewareSeq, <=2 components), same rotation. '
                  'A falsy bare component (defining __len__/__bool__) is not covered. '
                  'Error handlers that themselves raise a non-HTTP exception end the request (modelled, '
                  'outside the promise). WebSocket middleware methods are not covered. Trusted: TLC, CPython C3 '
                  'linearisation, engine/drivers.py.',
}

from engine import pipeline_harness as H
from engine.core import digest

# clause prefixes this check alarms on: the stack-discipline clauses, and the two clauses about handler calls as
# part of the call sequence (a handler call missing from / extra in the sequence, or given another exception);
# the remaining P4 clauses (status, body, headers) belong to C04 and are only noted here
OWN = ('P3', 'P4:handler', 'P4:instance')


def lifespan_legs(ctx):
    r = ctx.tlc('MC_Lifespan', ctx.pick('MC_LifespanQ.cfg', 'MC_Lifespan.cfg'), coverage=True, workers=4, timeout=600)
    ctx.extra['lifespan_action_coverage'] = H.require_actions(
        r, ['AddMiddlewareSeq', 'Enter', 'RecvStartup', 'XStartupOk', 'XStartupRaise', 'StartupSkip', 'StartupDone', 'Abandon',
            'RecvShutdown', 'XShutdownOk', 'XShutdownRaise', 'ShutdownSkip', 'ShutdownDone'])
    # leg A: whole histories of one application object (2-3 cycles, add_middleware in between)
    ra = ctx.tlc('MC_Lifespan', ctx.pick('MC_LifespanA.cfg', 'MC_LifespanA2.cfg'), workers=2, timeout=600, count=False)
    n = 0
    hists = list({digest(b): b for b in ra.json}.values())
    ctx.extra['lifespan_histories_exported'] = len(hists)
    if len(hists) > ctx.pick(1200, 200000):
        ctx.rng.shuffle(hists)
        hists = hists[:ctx.pick(1200, 200000)]
    for b in hists:
        hs0, cycles, plan, exp = H.lifespan_history(b)
        fs = int(digest(b), 16) % (1 << 30)     # container forms of the constructor argument / every add_middleware call, cors_enable
        got = H.run_lifespan(hs0, cycles, plan, with_request_method=len(plan) % 4, add_via_list=bool(len(plan) & 1), form_seed=fs)
        case = {'leg': 'A-lifespan', 'hs0': hs0, 'cycles': cycles, 'plan': plan, 'spec': exp, 'form_seed': fs}
        ctx.case(case, nontrivial=len(cycles) >= 2 or 'raise' in plan, key=digest(case))
        n += 1
        for k, ((calls, sent, exc), (ecalls, esent)) in enumerate(zip(got, exp), 1):
            if exc is not None:
                ctx.violation('P3:lifespan-escaped', case, 'cycle %d: lifespan handling raised %r' % (k, exc))
            elif calls != ecalls:
                ctx.violation('P3:lifespan-order', dict(case, got=calls), 'cycle %d: handler calls %r, specified %r' % (k, calls, ecalls))
            elif sent != esent:
                ctx.violation('P3:lifespan-events', dict(case, got=sent), 'cycle %d: events %r, specified %r' % (k, sent, esent))
            else:
                continue
            break
    ctx.traces_validated += n
    # leg B: longer random histories, judged by TLC
    rng = ctx.rng
    traces, cases = {}, {}
    for _ in range(ctx.pick(400, 6000)):
        hs0 = [sorted(rng.sample(['startup', 'shutdown'], rng.randint(0, 2))) for _ in range(rng.randint(2, 7))]
        cycles = [{'adds': [sorted(rng.sample(['startup', 'shutdown'], rng.randint(1, 2))) for _ in range(rng.choice([0, 0, 1, 2]))]
                   if k else [], 'shutdown': rng.random() < 0.85} for k in range(rng.randint(1, 4))]
        nraise = rng.choice([0, 0, 1, 2])
        plan = ['raise' if rng.random() < 0.1 and nraise else 'ok' for _ in range(60)]
        fs = rng.randrange(1 << 30)
        got = H.run_lifespan(hs0, cycles, plan, with_request_method=rng.randrange(256), add_via_list=rng.random() < 0.5, form_seed=fs)
        t = {'hs0': hs0, 'cycles': [dict(cy, ev=calls, sent=sent) for cy, (calls, sent, _) in zip(cycles, got)]}
        case = {'leg': 'B-lifespan', 'hs0': hs0, 'cycles': cycles, 'plan': plan, 'form_seed': fs}
        ctx.case(case, nontrivial=len(cycles) >= 2 or any(c['act'] == 'raise' for calls, _, _ in got for c in calls), key=digest(t))
        excs = [exc for _, _, exc in got if exc is not None]
        if excs:
            ctx.violation('P3:lifespan-escaped', case, 'lifespan handling raised %r' % (excs,))
            continue
        traces[digest(t)] = t
        cases[digest(t)] = case
    keys = list(traces)
    for k, v in zip(keys, ctx.judge('LifespanTrace', [traces[k] for k in keys], workers=4, timeout=600)):
        if v != 'ok':
            ctx.violation(v.split('@')[0], dict(cases[k], trace=traces[k]), 'trace rejected by LifespanTrace at (cycle-1)*1000+event %s' % v)
    ctx.progress('lifespan: %d histories replayed, %d traces judged' % (n, len(keys)))


def run(ctx):
    ctx.rule = ('case = (component shapes, independent flag, target kind, hook counts, handler registry, what every call '
                'site does, interface); non-trivial iff some call site did not simply return, or >= 2 components '
                'implement the same phase; distinct by hash of the case')
    ctx.trusted_base = ['TLC 1.8 evaluation of spec/Pipeline.tla and spec/Lifespan.tla', 'CPython C3 linearisation (class table)',
                        'engine/drivers.py raw WSGI/ASGI drivers', 'json.loads / xml.etree for response bodies']
    ctx.assumptions = ['an error handler that raises a non-HTTP exception ends the request (DESIGN 7: propagates; outside the promise)',
                       'hooks and responders do not set resp.complete (the statement is silent about it)',
                       'ASGI components are coroutines (sync methods are only accepted in falcon\'s own test mode)']
    env = H.write_classes(ctx)
    seen_other = {}

    # ---- leg M ---------------------------------------------------------------------------------
    r = ctx.tlc('MC_Pipeline', ctx.pick('MC_PipelineQ.cfg', 'MC_Pipeline.cfg'), coverage=True, env=env,
                workers=ctx.pick(8, 16), timeout=ctx.pick(280, 1500))
    ctx.extra['action_coverage'] = H.require_actions(r, H.PIPE_ACTIONS)
    H.wrong_designs(ctx, env, ['queue_before_call', 'resp_forward'])
    ctx.progress('leg M done: %d distinct states' % r.distinct)

    # ---- leg A ---------------------------------------------------------------------------------
    ra = ctx.tlc('MC_PipelineS', ctx.pick('MC_PipelineS_A.cfg', 'MC_PipelineS_A2.cfg'), env=env, workers=4,
                 timeout=ctx.pick(280, 1500), count=False)
    behaviours = list({digest(b): b for b in ra.json}.values())
    ctx.extra['spec_behaviours_exported'] = len(behaviours)
    cap = ctx.pick(7000, 120000)
    if len(behaviours) > cap:
        ctx.rng.shuffle(behaviours)
        behaviours = behaviours[:cap]
    else:
        ctx.exhaustive = True
    H.replay_behaviours(ctx, OWN, behaviours, both=False, seen_other=seen_other, label='leg A (exhaustive export)')
    # registration histories on one application object: a request raising T before and after every registration
    # (direct class, nearer ancestor, same handler object again, tuple form), on both interfaces
    rg = ctx.tlc('MC_PipelineS', ctx.pick('MC_PipelineS_G.cfg', 'MC_PipelineS_G2.cfg'), env=env, workers=4, timeout=600, count=False)
    hist = list({digest(b): b for b in rg.json}.values())
    ctx.extra['spec_registration_histories_exported'] = len(hist)
    if len(hist) > 4000:
        ctx.rng.shuffle(hist)
        hist = hist[:4000]
    H.replay_behaviours(ctx, OWN, hist, both=ctx.quick, seen_other=seen_other, label='leg A (registration histories)')
    # responder slots (method x suffix spelling x class-/method-level hooks) and registration histories of the stack
    # (constructor group + add_middleware calls, also between two requests); container forms / cors_enable rotated
    for cfgname, acts, label, cap in ((ctx.pick('MC_PipelineSlotQ.cfg', 'MC_PipelineSlot.cfg'), ['XSlotStep'], 'responder slots',
                                       ctx.pick(800, 20000)),
                                      (ctx.pick('MC_PipelineSlotMwQ.cfg', 'MC_PipelineSlotMw.cfg'),
                                       ['XSlotStep', 'XSlotNextRequest', 'AddMiddleware'], 'middleware registration', ctx.pick(500, 10000))):
        rq = ctx.tlc('MC_PipelineSlot', cfgname, env=env, coverage=True, workers=4, timeout=ctx.pick(280, 1500), count=False)
        ctx.extra['slot_action_coverage:' + label] = H.require_actions(rq, acts)
        bs = list({digest(b): b for b in rq.json}.values())
        ctx.extra['spec_behaviours_exported:' + label] = len(bs)
        ctx.extra['slots_exported:' + label] = len({digest([b['slot'], b['mwh']]) for b in bs})
        if len(bs) > cap:
            ctx.rng.shuffle(bs)
            bs = bs[:cap]
        H.replay_behaviours(ctx, OWN, bs, both=False, seen_other=seen_other, label='leg A (%s)' % label)
    rw = ctx.tlc('MC_PipelineSlot', 'MC_PipelineSlotQ.cfg', env=dict(env, WRONG='lower_suffix'), workers=1, timeout=300,
                 must_hold=False, count=False)
    if rw.violated != 'ClassHooksWrapSlot':
        raise H.MachineryError('wrong design lower_suffix: expected ClassHooksWrapSlot to fail, TLC reported %r' % (rw.violated,))
    ctx.extra.setdefault('wrong_designs_rejected', []).append('lower_suffix')
    rs = ctx.tlc('MC_PipelineS', 'MC_PipelineS_Sim.cfg', env=env, simulate={'num': ctx.pick(60, 1500)}, depth=40,
                 seed=ctx.seed + 1, workers=4, timeout=600, count=False)
    deep = list({digest(b): b for b in rs.json}.values())
    ctx.rng.shuffle(deep)
    H.replay_behaviours(ctx, OWN, deep[:ctx.pick(1500, 40000)], both=True, seen_other=seen_other, label='leg A (simulated deep)')

    # ---- leg B ---------------------------------------------------------------------------------
    items = []
    rng = ctx.rng
    for k in range(ctx.pick(4500, 100000)):
        asgi = bool(k & 1)
        trace, case, runs = H.random_trace(rng, asgi=asgi, ncomp=rng.randint(4, 6), maxhooks=3, regs=H.C3REGS,
                                           classes=H.ALL_CLASSES, nreqs=1 if k % 8 else 2, slots=bool(k % 3))
        ctx.case(case, nontrivial=any(H.nontrivial_c03(case['cfg'], rec.calls) for rec, _, _ in runs), key=digest(trace))
        bad = [(rec.wrong, res.errors) for rec, res, _ in runs if rec.wrong or res.errors]
        if bad:
            ctx.violation('P3:protocol', case, 'harness anomaly / protocol errors %r' % (bad,))
            continue
        items.append((trace, case))
    ctx.progress('leg B: %d executions recorded' % len(items))
    n = H.judge_traces(ctx, OWN, env, items, seen_other)
    ctx.extra['distinct_traces_judged'] = n
    ctx.progress('leg B done: %d distinct traces judged' % n)

    lifespan_legs(ctx)
    if seen_other:
        ctx.extra['sibling_clauses_seen'] = seen_other


def replay(ctx, case):
    if case.get('leg', '').endswith('lifespan'):
        got = H.run_lifespan(case['hs0'], case['cycles'], case['plan'], form_seed=case.get('form_seed'))
        for k, (calls, sent, exc) in enumerate(got, 1):
            print('cycle %d calls: %r\n        sent: %r exc: %r' % (k, calls, sent, exc))
        t = {'hs0': case['hs0'], 'cycles': [dict(cy, ev=calls, sent=sent) for cy, (calls, sent, _) in zip(case['cycles'], got)]}
        v = ctx.judge('LifespanTrace', [t], workers=1)[0]
        print('verdict:', v)
        if v != 'ok' or any(exc is not None for _, _, exc in got):
            ctx.violation(v.split('@')[0], case, 'lifespan trace rejected: %s' % v)
        return
    H.replay_request(ctx, case)
