"""C13 - multipart forms parse to exactly the parts that were encoded, however consumed.

spec:   spec/Multipart.tla      reference encoder, form iteration as flat-cursor steps (CursorOps),
                                consumption actions, limits, invariants
        spec/MC_Multipart.tla   bounded instances (+ .cfg files: Q / full / Lim / Corrupt / Bad / Exp / Sim)
        spec/MultipartTrace.tla trace judge
legs:   M  exhaustive TLC checks of the design (Parse(Encode(form)) = form for every consumption pattern,
           limits exact at their thresholds, every single-edit corruption has a definite outcome),
           per-action coverage, and the wrong-design run (delimiter without CRLF) that must fail
        A  behaviours exported by TLC (body bytes produced by the specification's encoder, scripted
           consumption, expected return of every call) replayed on the real parsers: handler level with
           small reader buffers x source chunkings down to 1 byte, and full stack (raw WSGI / ASGI drivers,
           req.get_media())
        B  bigger seeded forms / consumption scripts / limits / single-edit corruptions driven through the
           same four stacks, one event per public call, judged by TLC (MultipartTrace): the judge checks the
           harness' encoding against the specification's encoder and recomputes every expected value from
           the body bytes with the specification's iteration
Python never decides what is correct: it drives, projects observations (UTF-8 / JSON by CPython's codecs)
and compares them with values TLC computed.
"""
import itertools
import json

META = {
    'property_id': 'C13',
    'design_ref': 'DESIGN.md section 4, C13',
    'technique': 'TLA+ specification of the reference encoder and of the form iteration as flat-cursor steps, '
                 'model-checked with TLC; TLC-generated behaviours replayed on both parsers; recorded parses of '
                 'bigger forms judged by TLC',
    'level_text': 'Parse(Encode(form)) = form, exact limits and definite outcomes for damaged bodies are invariants '
                  'of spec/Multipart.tla checked exhaustively by TLC for small forms. The real WSGI and ASGI parsers '
                  'are bound to it in both directions: every behaviour TLC exports (body bytes, scripted consumption, '
                  'expected result of every call) is replayed under many reader-buffer sizes and transport chunkings, '
                  'and every history recorded from bigger seeded forms is accepted or rejected by TLC itself. '
                  'Chunking and buffering do not exist in the specification, so all chunkings must collapse to the '
                  'one behaviour the specification allows.',
    'level_note': 'Bounded: exhaustive legs use forms of <= 2 parts with contents from a 12-element adversarial pool, '
                  'boundaries of length 1/2 (70 in the limit instance and in simulation), <= 1-2 consumption calls per '
                  'part; random legs use <= 6 parts, contents <= 40 bytes (a few bodies beyond the 8 KiB / 32 KiB '
                  'default reader buffers), boundaries of length 1..70. Names and plain filenames exclude the '
                  'double quote and the backslash (RFC 7578 leaves their escaping open); charset is UTF-8. '
                  'After "body part is too large" only the buffered accessors are asked again (they must fail the same '
                  'way); damaged bodies may carry any bytes in their headers: accessors must then report a value or raise '
                  'the parse error. Trusted: TLC, CPython UTF-8 and JSON codecs, the harness byte sources and '
                  'raw WSGI/ASGI drivers. Reader buffer sizes other than the defaults are reached through the public '
                  'handler API (MultipartFormHandler.deserialize[_async] given a BufferedReader).',
}

from engine import bytesrc, drivers
from engine.core import digest, MachineryError

NONE = [-1]
UNKNOWN = [-2]
PERR = [-3]             # the accessor raised the multipart parse error
BASE_LIM = {'count': 64, 'hdr': 8192, 'buf': 4096}
KNOWN_TYPES = ('text/plain', 'text/plain; charset=utf-8', 'application/json', 'application/octet-stream')
WHY = (('unexpected form structure', 'structure'), ('incomplete body part headers', 'headers'),
       ('maximum number of form body parts', 'count'), ('Content-Transfer-Encoding', 'cte'),
       ('body part is too large', 'size'), ('invalid text or charset', 'text'))


# ------------------------------------------------------------------------------------------------
# events
# ------------------------------------------------------------------------------------------------

def _ev(op, n=-1, d=b'', c=False):
    return {'op': op, 'n': n, 'd': list(d), 'c': bool(c), 'out': 'ok', 'why': '', 'res': [],
            'name': NONE, 'fname': NONE, 'ctype': NONE, 'code': 0}


def _why(ex):
    s = '%s %s' % (getattr(ex, 'description', ''), getattr(ex, 'title', ''))
    for frag, cat in WHY:
        if frag in s:
            return cat
    return 'other'


def _cp(s):
    return NONE if s is None else [ord(ch) for ch in s]


def canonical_json(obj):
    return json.dumps(obj, separators=(',', ':'), ensure_ascii=False).encode('utf-8')


class Script:
    """What the application does with the parts: ops[i] is the list of calls made on the i-th
    yielded part (parts beyond the list are skipped); `max_next` bounds the number of next() calls."""

    def __init__(self, ops, max_next=None, literal=False):
        self.ops = ops
        self.max_next = max_next
        self.literal = literal      # taken from a behaviour of the specification: every call is made as it stands

    def to_json(self):
        return {'ops': [[[x if not isinstance(x, bytes) else list(x) for x in op] for op in part] for part in self.ops],
                'max_next': self.max_next, 'literal': self.literal}

    @staticmethod
    def from_json(j):
        return Script([[tuple(bytes(x) if isinstance(x, list) else x for x in op) for op in part] for part in j['ops']],
                      j.get('max_next'), j.get('literal', False))


class Recorder:
    """Runs a script on a real form object (run_sync / run_async are the same loop in the two
    flavours) and logs one event per public call at its return, error path included.  A call the
    script asks for is skipped when the observed part does not allow it (get_text on a content type
    outside the encoder's pool, get_media on anything but an untouched JSON part); after a parse
    error of a buffered accessor the part is left alone and the iteration goes on."""

    def __init__(self, script, json_ok):
        self.script = script
        self.json_ok = json_ok          # get_media may be used (undamaged body)
        self.events = []
        self.stop = None                # 'end' | 'error' | 'exc' | None
        self.pending = None             # the first MultipartParseError (re-raised at the end of a full-stack run)

    def _classify(self, e, ex):
        import falcon
        if isinstance(ex, falcon.errors.MultipartParseError):
            e['out'], e['why'] = 'error', _why(ex)
            if self.pending is None:
                self.pending = ex
            return
        if isinstance(ex, bytesrc.Hang):
            e['out'], e['why'] = 'hang', str(ex)
            return
        e['out'] = 'exc'
        e['why'] = '%s: %s' % (type(ex).__name__, str(ex)[:80])

    def _fields(self, e, part):
        """name / filename / content type as the accessors report them.  [-3]: the accessor raised
        the multipart parse error (only legitimate for a damaged header value)."""
        import falcon
        for key, attr in (('name', 'name'), ('fname', 'filename')):
            try:
                e[key] = _cp(getattr(part, attr))
            except falcon.errors.MultipartParseError:
                e[key] = [-3]
        try:
            ctype = part.content_type
            e['ctype'] = list(ctype.encode('latin-1'))
        except falcon.errors.MultipartParseError:
            ctype, e['ctype'] = None, [-3]
        return ctype

    def applicable(self, op, ctype, touched, toolarge):
        if self.script.literal:
            return True
        if op[0] in ('get_text', 'get_data'):
            return True
        if toolarge:
            return False        # after "body part is too large" only the buffered accessors are asked again
        if op[0] == 'get_media':
            return self.json_ok and ctype == 'application/json' and not touched
        return True

    def run_sync(self, form):
        from falcon.errors import DelimiterError
        it = iter(form)
        i = 0
        while self.script.max_next is None or i < self.script.max_next:
            e = _ev('next')
            try:
                part = next(it)
                e['out'] = 'part'
                ctype = self._fields(e, part)
            except StopIteration:
                e['out'] = 'end'
            except Exception as ex:
                self._classify(e, ex)
            self.events.append(e)
            if e['out'] != 'part':
                self.stop = e['out']
                return
            ops = self.script.ops[i] if i < len(self.script.ops) else []
            i += 1
            touched = toolarge = False
            for op in ops:
                if not self.applicable(op, ctype, touched, toolarge):
                    continue
                touched = True
                name = op[0]
                e = _ev(name)
                try:
                    if name == 'read':
                        e['n'] = op[1]
                        r = part.stream.read() if op[1] < 0 else part.stream.read(op[1])
                        e['res'] = list(r)
                    elif name == 'read_until':
                        e['d'], e['n'], e['c'] = list(op[1]), op[2], bool(op[3])
                        try:
                            e['res'] = list(part.stream.read_until(op[1], op[2], op[3]))
                        except DelimiterError:
                            e['out'] = 'delim'
                    elif name == 'exhaust':
                        part.stream.exhaust()
                    elif name == 'get_data':
                        e['res'] = list(part.get_data() if len(self.events) % 2 else part.data)
                    elif name == 'get_text':
                        t = part.get_text() if len(self.events) % 2 else part.text
                        if t is None:
                            e['out'] = 'none'
                        else:
                            e['res'] = list(t.encode('utf-8'))
                    elif name == 'get_media':
                        e['res'] = list(canonical_json(part.get_media()))
                    else:
                        raise MachineryError('unknown op %r' % (op,))
                except MachineryError:
                    raise
                except Exception as ex:
                    self._classify(e, ex)
                self.events.append(e)
                if e['out'] in ('exc', 'hang'):
                    self.stop = 'exc'
                    return
                toolarge = toolarge or (e['out'] == 'error' and e['why'] == 'size')
                if name == 'get_text' and ctype not in KNOWN_TYPES and not self.script.literal:
                    break                      # outcome left open by the specification: the part is not touched again
        return

    async def run_async(self, form):
        from falcon.errors import DelimiterError
        it = form.__aiter__()
        i = 0
        while self.script.max_next is None or i < self.script.max_next:
            e = _ev('next')
            try:
                part = await it.__anext__()
                e['out'] = 'part'
                ctype = self._fields(e, part)
            except StopAsyncIteration:
                e['out'] = 'end'
            except Exception as ex:
                self._classify(e, ex)
            self.events.append(e)
            if e['out'] != 'part':
                self.stop = e['out']
                return
            ops = self.script.ops[i] if i < len(self.script.ops) else []
            i += 1
            touched = toolarge = False
            for op in ops:
                if not self.applicable(op, ctype, touched, toolarge):
                    continue
                touched = True
                name = op[0]
                e = _ev(name)
                try:
                    if name == 'read':
                        e['n'] = op[1]
                        if op[1] < 0:
                            k = len(self.events) % 3
                            if k == 0:
                                r = await part.stream.read()
                            elif k == 1:
                                r = await part.stream.readall()
                            else:
                                r = b''.join([ch async for ch in part.stream])
                        else:
                            r = await part.stream.read(op[1])
                        e['res'] = list(r)
                    elif name == 'read_until':
                        e['d'], e['n'], e['c'] = list(op[1]), op[2], bool(op[3])
                        try:
                            e['res'] = list(await part.stream.read_until(op[1], op[2], op[3]))
                        except DelimiterError:
                            e['out'] = 'delim'
                    elif name == 'exhaust':
                        await part.stream.exhaust()
                    elif name == 'get_data':
                        e['res'] = list(await (part.get_data() if len(self.events) % 2 else part.data))
                    elif name == 'get_text':
                        t = await (part.get_text() if len(self.events) % 2 else part.text)
                        if t is None:
                            e['out'] = 'none'
                        else:
                            e['res'] = list(t.encode('utf-8'))
                    elif name == 'get_media':
                        e['res'] = list(canonical_json(await part.get_media()))
                    else:
                        raise MachineryError('unknown op %r' % (op,))
                except MachineryError:
                    raise
                except Exception as ex:
                    self._classify(e, ex)
                self.events.append(e)
                if e['out'] in ('exc', 'hang'):
                    self.stop = 'exc'
                    return
                toolarge = toolarge or (e['out'] == 'error' and e['why'] == 'size')
                if name == 'get_text' and ctype not in KNOWN_TYPES and not self.script.literal:
                    break
        return


# ------------------------------------------------------------------------------------------------
# the four stacks
# ------------------------------------------------------------------------------------------------

def content_type_header(b, quote=False):
    s = bytes(b).decode('latin-1')
    plain = all(ch.isalnum() or ch in "-_" for ch in s)
    if quote or not plain:
        return 'multipart/form-data; boundary="%s"' % s
    return 'multipart/form-data; boundary=' + s


def make_handler(lim):
    from falcon.media.multipart import MultipartFormHandler
    h = MultipartFormHandler()
    h.parse_options.max_body_part_count = lim['count']
    h.parse_options.max_body_part_headers_size = lim['hdr']
    h.parse_options.max_body_part_buffer_size = lim['buf']
    return h


class _Holder:
    rec = None


def _apps():
    """One WSGI and one ASGI application whose responder runs the current script on req.get_media()."""
    if getattr(_apps, 'cache', None):
        return _apps.cache
    import falcon
    import falcon.asgi

    class Res:
        def on_post(self, req, resp):
            rec = _Holder.rec
            form = req.get_media()
            rec.run_sync(form)
            if rec.stop != 'exc' and rec.pending is not None:
                raise rec.pending       # the application lets the first parse error through at the end
            resp.media = {'events': len(rec.events)}

    class ARes:
        async def on_post(self, req, resp):
            rec = _Holder.rec
            form = await req.get_media()
            await rec.run_async(form)
            if rec.stop != 'exc' and rec.pending is not None:
                raise rec.pending       # the application lets the first parse error through at the end
            resp.media = {'events': len(rec.events)}

    w = falcon.App()
    w.add_route('/', Res())
    a = falcon.asgi.App()
    a.add_route('/', ARes())
    _apps.cache = (w, a)
    return _apps.cache


_hangs = [0]


def execute(stack, body, b, lim, script, variant, json_ok=True):
    """Run `script` against `body` on one stack.  variant: dict(cs=.., chunks=[..]).
    Returns the list of events (the last one is a status event for the full-stack runs).
    The watchdog is generous (a loaded machine must not look like a hang) until a first hang was seen."""
    import falcon
    hang_after = 30.0 if _hangs[0] == 0 else 3.0
    body = bytes(body)
    ctype = content_type_header(b, variant.get('quote', False))
    rec = Recorder(script, json_ok)
    chunks = variant.get('chunks')
    try:
        with bytesrc.watchdog(hang_after):
            if stack == 'h-sync':
                from falcon.util.reader import BufferedReader
                src = bytesrc.SyncSource(body, list(chunks) if chunks else None)
                h = make_handler(lim)
                try:
                    form = h.deserialize(BufferedReader(src.read, len(body), variant['cs']), ctype, len(body))
                except bytesrc.Hang:
                    raise
                except Exception as ex:     # the handler refuses the form as a whole: an outcome, not a harness fault
                    form = None
                    e = _ev('next')
                    rec._classify(e, ex)
                    rec.events.append(e)
                if form is not None:
                    rec.run_sync(form)
            elif stack == 'h-async':
                from falcon.asgi.reader import BufferedReader
                src = bytesrc.AsyncSource(bytesrc.split(body, chunks or [len(body)]))
                h = make_handler(lim)
                try:
                    form = bytesrc.drive(h.deserialize_async(BufferedReader(src, variant['cs']), ctype, len(body)))
                except bytesrc.Hang:
                    raise
                except Exception as ex:
                    form = None
                    e = _ev('next')
                    rec._classify(e, ex)
                    rec.events.append(e)
                if form is not None:
                    bytesrc.drive(rec.run_async(form))
            else:
                w, a = _apps()
                app = w if stack == 'wsgi' else a
                app.req_options.media_handlers[falcon.MEDIA_MULTIPART] = make_handler(lim)
                _Holder.rec = rec
                req = drivers.Req('POST', b'/', headers=[('Content-Type', ctype)], body=body,
                                  chunks=list(chunks) if chunks else None)
                res = drivers.wsgi_call(app, req) if stack == 'wsgi' else drivers.asgi_call(app, req)
                e = _ev('status')
                if res.exc is not None:
                    e['out'], e['why'] = 'exc', '%s: %s' % (type(res.exc).__name__, str(res.exc)[:80])
                elif res.errors:
                    e['out'], e['why'] = 'exc', 'protocol: %s' % res.errors[0]
                e['code'] = res.status or 0
                if not (rec.events and rec.events[-1]['out'] in ('exc', 'hang')):
                    rec.events.append(e)
    except bytesrc.Hang:
        e = _ev('next')
        e['out'] = 'hang'
        rec.events.append(e)
    if rec.events and rec.events[-1]['out'] == 'hang':
        _hangs[0] += 1
    return rec.events


# ------------------------------------------------------------------------------------------------
# harness-side encoding *proposal* for leg B (the judge checks it against the specification's
# Encode and answers H:encode if they differ; nothing is decided here)
# ------------------------------------------------------------------------------------------------

CRLF = b'\r\n'


def _pct(bs):
    return b''.join(bytes([x]) if (chr(x).isalnum() and x < 128) or x in b'-._' else b'%%%02X' % x for x in bs)


def enc_headers(p):
    def quoted(cps):
        return ''.join(map(chr, cps)).replace('\\', '\\\\').replace('"', '\\"').encode('utf-8')
    disp = b'form-data; name="' + quoted(p['name']) + b'"'
    star = b"; filename*=UTF-8''" + _pct(''.join(map(chr, p['fname'])).encode('utf-8'))
    if p['fkind'] == 1:
        disp += b'; filename="' + quoted(p['fname']) + b'"'
    elif p['fkind'] == 2:
        disp += star
    elif p['fkind'] == 3:
        disp += b'; filename="' + quoted(p['fback']) + b'"' + star
    elif p['fkind'] == 4:
        disp += star + b'; filename="' + quoted(p['fback']) + b'"'
    lc = p['hv'] == 1
    out = b''
    if p['hv'] == 2:
        out += b'X-Part: 1\r\n'
    out += (b'content-disposition' if lc else b'Content-Disposition') + b': ' + disp
    if p['ctype'] != NONE:
        out += CRLF + (b'content-type' if lc else b'Content-Type') + b': ' + bytes(p['ctype'])
    if p['hv'] == 3:
        out += CRLF + b'Content-Transfer-Encoding: binary'
    return out


def encode(form, env):
    b = bytes(env['b'])
    out = bytes(env['pre']) + CRLF if env['pre'] else b''
    for p in form:
        out += b'--' + b + CRLF + enc_headers(p) + CRLF + CRLF + bytes(p['content']) + CRLF
    out += b'--' + b + b'--' + (CRLF if env['fin'] else b'') + bytes(env['epi'])
    return out


def encodable(form, env):
    b = bytes(env['b'])
    delim = CRLF + b'--' + b
    pre = bytes(env['pre']) + CRLF if env['pre'] else b''
    if (pre + b'--' + b).find(b'--' + b) != len(pre):
        return False
    return all((bytes(p['content']) + delim).find(delim) == len(p['content']) for p in form)


BCHARS = "abcdefghijklmnopqrstuvwxyzABCDEFGHIJKLMNOPQRSTUVWXYZ0123456789'()+_-./:=?,"   # RFC 2046 bchars (space: see random_boundary)
NAMES = ['a', 'field', 'f-1', 'a b', 'x;y=z', 'é', 'имя', '名', 'a;filename=q', "it's",
         'quo"te', 'both"and;semi', 'q";b\\c', '\\";', '"', 'a\\b', '";"', 'é"; filename="x']
FILES = ['f.txt', '😀.png', 'a b.png', 'x;y.bin', 'é.txt', '€ x.txt', 'naïve file.tar.gz', '名.pdf', 'a%20b', "o'k.txt",
         'say "hi".txt', 'say "hi";x.txt', 'c:\\dir\\f.txt', '\\"', '";', 'a";b"c']
JSONS = [1, 'x', '--', {'a': 1}, [1, 2, '--b'], {'k': ['é', None, True]}, '\r\n--', {'--': '--'}]


# text parts whose charset parameter names no decoder, another real charset, or is not 7-bit
HOSTILE_TYPES = [b'text/plain; charset=undefined', b'text/plain; charset=utf\x008', b'text/plain; charset=',
                 b'text/plain; charset=no-such-charset', b'text/plain; charset=' + b'x' * 300, b'text/plain; charset=UTF-8',
                 b'text/plain; charset=utf_8', b'text/plain; charset=latin-1', b'text/plain; charset=\xfctf-8',
                 b'text/plain; charset=\x00', b'text/plain; charset=undefined\x00']


def random_boundary(rng):
    """1..70 bchars; inner spaces, leading spaces (legal when the parameter is quoted), never a trailing one."""
    n = rng.choice((1, 1, 2, 2, 3, 5, 10, 27, 40, 70))
    s = ''.join(rng.choice(BCHARS if rng.random() < 0.5 else 'b-') for _ in range(n))
    t = rng.random()
    if t < 0.15 and n >= 3:
        s = s[:1] + ' ' + s[2:]
    elif t < 0.40 and n >= 2:
        k = rng.choice((1, 1, 2, 3))
        k = min(k, n - 1)
        s = ' ' * k + s[k:]
    if s[-1] == ' ':
        s = s[:-1] + 'b'
    return s.encode()


def random_content(rng, b, maxfrag=6, ascii_only=False):
    frags = [b'\r', b'\n', CRLF, b'--', b'-', CRLF + b'--', CRLF + b'--' + b[:-1], b'x--' + b, b, b[:1], b'\n--' + b,
             b'\r\r\n', b'--' + b + b'--', b'hello', b'x', b' ', b'\r\n\r\n', b': ']
    if not ascii_only:
        frags += ['é'.encode(), '€'.encode(), b'\xff', b'\x00', b'\xc3', bytes([rng.randrange(256)])]
    out = b''
    for _ in range(rng.randint(0, maxfrag)):
        out += rng.choice(frags)
    delim = CRLF + b'--' + b
    while (out + delim).find(delim) != len(out):          # keep the proposal encodable
        i = out.find(b'--' + b)
        out = out[:i] + out[i + 1:] if i >= 0 else out[:-1]
    return out


def random_form(rng, b, maxparts, ascii_headers=False):
    form = []
    for _ in range(rng.choice(range(0, maxparts + 1))):
        t = rng.random()
        names = [n for n in NAMES if not ascii_headers or n.isascii()]
        files = [f for f in FILES if not ascii_headers or f.isascii()]
        p = {'name': _cp(rng.choice(names)), 'fkind': 0, 'fname': [], 'fback': [], 'ctype': NONE,
             'hv': rng.choice((0, 0, 1, 2, 3)), 'content': []}
        k = rng.random()
        if k < 0.25:
            p['fkind'], p['fname'] = 1, _cp(rng.choice(files + ['']))
        elif k < 0.45:
            p['fkind'], p['fname'] = 2, _cp(rng.choice(FILES))
        elif k < 0.65:
            # both forms: an ASCII fallback in filename= next to the real name in filename*= (either order)
            real = rng.choice(FILES)
            fb = ''.join(ch if ch.isascii() and ch not in '"\\;' else '_' for ch in real)
            if fb == real:
                fb = 'fallback-' + fb
            p['fkind'], p['fname'], p['fback'] = rng.choice((3, 4)), _cp(real), _cp(fb)
        if t < 0.18:
            p['ctype'] = list(b'application/json')
            c = canonical_json(rng.choice(JSONS))
            if (c + CRLF + b'--' + b).find(CRLF + b'--' + b) != len(c):
                c = b'1'
            p['content'] = list(c)
        else:
            p['ctype'] = rng.choice((NONE, NONE, list(b'text/plain'), list(b'text/plain; charset=utf-8'),
                                     list(b'application/octet-stream'))
                                    + ((list(rng.choice(HOSTILE_TYPES)),) * 2))
            p['content'] = list(random_content(rng, b, ascii_only=rng.random() < 0.5))
        form.append(p)
    return form


def random_env(rng, form, b):
    for _ in range(20):
        pre = rng.choice((b'', b'', b'preamble', b'--', b'--' + b[:-1], b'\r\n', b'x\r\n--', b'-'))
        epi = rng.choice((b'', b'', b'epilogue', CRLF + b'--' + b + CRLF + b'x', b'--', b'--' + b + b'--'))
        env = {'b': list(b), 'pre': list(pre), 'epi': list(epi), 'fin': rng.random() < 0.7}
        if encodable(form, env):
            return env
    return {'b': list(b), 'pre': [], 'epi': [], 'fin': True}


def random_limits(rng, form):
    lim = dict(BASE_LIM)
    t = rng.random()
    n = len(form)
    if t < 0.45 or not form:
        if t < 0.1:
            lim['count'] = rng.choice((0, max(1, n - 1), max(1, n), n + 1))
        return lim
    if t < 0.6:
        lim['count'] = rng.choice((0, max(1, n - 1), max(1, n), n + 1))
    elif t < 0.8:
        p = rng.choice(form)
        lim['hdr'] = max(1, len(enc_headers(p)) + rng.choice((-1, 0, 0, 1)))
    else:
        p = rng.choice(form)
        lim['buf'] = max(0, len(p['content']) + rng.choice((-1, 0, 0, 1)))
    return lim


def random_script(rng, form, b, maxops=3):
    ops = []
    for i in range(len(form) + 1):
        clen = len(form[i]['content']) if i < len(form) else 3
        part = []
        for _ in range(rng.choice((0, 1, 1, 1, 2, 2, maxops))):
            t = rng.random()
            if t < 0.25:
                part.append(('read', rng.choice((0, 1, 2, 3, 5, max(0, clen - 1), clen, clen + 1, 64))))
            elif t < 0.37:
                part.append(('read', -1))
            elif t < 0.57:
                d = rng.choice((b'\n', b'--', CRLF, b'-', b[:1], b'\r\n--'))
                part.append(('read_until', d, rng.choice((-1, -1, 0, 1, 3, 8, clen)), rng.random() < 0.5))
            elif t < 0.62:
                part.append(('exhaust',))
            elif t < 0.80:
                part.append(('get_data',))
            elif t < 0.92:
                part.append(('get_text',))
            else:
                part.append(('get_media',))
        if part and part[-1][0] in ('get_data', 'get_text') and rng.random() < 0.4:
            part.append((rng.choice(('get_data', 'get_text')),))       # ask again (memo / sticky size failure)
        ops.append(part)
    mx = None
    if rng.random() < 0.08:
        mx = rng.randint(0, len(form))
    return Script(ops, mx)


def random_edit(rng, body, b):
    kind = rng.choice(('del', 'ins', 'sub'))
    vals = b'X-\r\n: ;"=b\xe9\xff\x80\xc32A%\'' + b[:1]
    n = len(body)
    if n == 0:
        kind = 'ins'
    # prefer positions near structure (dashes, CR, LF), inside non-ASCII text and inside header values
    t = rng.random()
    hot = []
    if t < 0.45:
        hot = [i for i, x in enumerate(body) if x in b'-\r\n']
    elif t < 0.62:
        hot = [i for i, x in enumerate(body) if x >= 128]
    elif t < 0.80:
        for key in (b'name="', b"filename*=", b'filename="', b'ontent-Type: ', b'ontent-type: '):
            j = body.find(key)
            while j >= 0:
                hot += list(range(j + len(key), min(n, j + len(key) + (40 if key[-2:] == b'*=' else 12))))
                j = body.find(key, j + 1)
    i = rng.choice(hot) if hot else rng.randrange(n + (1 if kind == 'ins' else 0))
    v = rng.choice(vals)
    if kind == 'del':
        return body[:i] + body[i + 1:], ('del', i)
    if kind == 'ins':
        return body[:i] + bytes([v]) + body[i:], ('ins', i, v)
    if body[i] == v:
        v = 88 if v != 88 else 89
    return body[:i] + bytes([v]) + body[i + 1:], ('sub', i, v)


# ------------------------------------------------------------------------------------------------
# chunking / buffering variants
# ------------------------------------------------------------------------------------------------

def min_cs(b):
    return max(5, 4 + len(b))


def variants(rng, nbody, b, k, full=True):
    """k (stack, variant) pairs: always the smallest reader buffer on both handler-level parsers with
    1-byte transport chunks, and (if `full`) both full stacks; the rest is seeded."""
    m = min_cs(b)
    full = full and b',' not in b      # a comma in the boundary is refused (415) by the media-handler lookup: observation
    out = [('h-sync', {'cs': m, 'chunks': [1]}), ('h-async', {'cs': m, 'chunks': [1] * nbody})]
    if full:
        out += [('wsgi', {'chunks': None}), ('asgi', {'chunks': [1] * min(nbody, 4000)})]
    while len(out) < k:
        stack = rng.choice(('h-sync', 'h-async', 'h-sync', 'h-async', 'wsgi', 'asgi') if full else ('h-sync', 'h-async'))
        v = {}
        if stack.startswith('h-'):
            v['cs'] = m + rng.choice((0, 0, 1, 1, 2, 3, 4, 5, 7, 11, 16, 64))
        t = rng.random()
        if stack in ('h-sync', 'wsgi'):
            # caps on successive source reads (short reads)
            v['chunks'] = None if t < 0.2 else [rng.randint(1, 9) for _ in range(rng.randint(1, 4))]
        else:
            if t < 0.4:
                c = rng.randint(1, max(1, min(nbody, 24)))
                v['chunks'] = [c] * (nbody // c + 1)
            elif t < 0.6 and nbody > 1:
                c = rng.randrange(1, nbody)
                v['chunks'] = [c]
            else:
                left, ch = nbody, []
                while left > 0:
                    c = rng.randint(0 if rng.random() < 0.1 else 1, min(left, rng.choice((2, 5, 17, 60))))
                    ch.append(c)
                    left -= c
                v['chunks'] = ch
        v['quote'] = rng.random() < 0.2
        out.append((stack, v))
    return out[:k]


# ------------------------------------------------------------------------------------------------
# comparing an observed history with the one TLC exported (leg A)
# ------------------------------------------------------------------------------------------------

def script_of(ev):
    ops, cur = [], None
    nnext = 0
    for e in ev:
        if e['op'] == 'next':
            nnext += 1
            if e['out'] == 'part':
                cur = []
                ops.append(cur)
        elif e['op'] == 'read':
            cur.append(('read', e['n']))
        elif e['op'] == 'read_until':
            cur.append(('read_until', bytes(e['d']), e['n'], e['c']))
        else:
            cur.append((e['op'],))
    return Script(ops, nnext, literal=True)


def compare(want, got, edited):
    """First clause in which the observed history differs from the specification's, or None."""
    for i, w in enumerate(want):
        if i >= len(got):
            return 'P:parts', i, 'the run stopped before %s' % w['op']
        g = got[i]
        if g['out'] == 'exc':
            return 'P:exception', i, g['why']
        if g['out'] == 'hang':
            return 'P:hang', i, g['why']
        if g['op'] != w['op']:
            raise MachineryError('replay misaligned at %d: spec %r, harness %r' % (i, w, g))
        if w['op'] == 'next':
            if (w['out'] == 'error') != (g['out'] == 'error'):
                why = w['why'] if w['out'] == 'error' else g['why']
                cl = 'P:limit-count' if why == 'count' else 'P:limit-headers' if why == 'headers' and not edited else 'P:error'
                return cl, i, 'spec %s/%s, code %s/%s' % (w['out'], w['why'], g['out'], g['why'])
            if w['out'] != g['out']:
                return 'P:parts', i, 'spec %s, code %s' % (w['out'], g['out'])
            if w['out'] == 'part':
                for key, cl in (('name', 'P:name'), ('fname', 'P:filename'), ('ctype', 'P:ctype')):
                    if w[key][:1] == [-4]:            # exactly this value, or the parse error
                        if g[key] != w[key][1:] and g[key] != PERR:
                            return cl, i, 'spec %r (or the parse error), code %r' % (w[key][1:], g[key])
                    elif w[key] != UNKNOWN and w[key] != g[key]:
                        return cl, i, 'spec %r, code %r' % (w[key], g[key])
            if w['out'] == 'error' and w['why'] != g['why']:
                return 'D:why', i, 'spec %s, code %s' % (w['why'], g['why'])
        elif w['out'] == 'open':
            if g['out'] not in ('ok', 'none', 'error'):
                return 'P:exception', i, 'get_text: %s %s' % (g['out'], g['why'])
        else:
            if (w['out'] == 'error') != (g['out'] == 'error'):
                why = w['why'] if w['out'] == 'error' else g['why']
                return ('P:limit-buffer' if why == 'size' else 'P:content'), i, \
                    'spec %s/%s, code %s/%s' % (w['out'], w['why'], g['out'], g['why'])
            if w['out'] != g['out'] or (w['out'] == 'ok' and w['res'] != g['res']):
                return 'P:content', i, '%s: spec %s %r, code %s %r' % (w['op'], w['out'], bytes(w['res']), g['out'],
                                                                     bytes(x for x in g['res'] if 0 <= x < 256))
            if w['out'] == 'error' and w['why'] != g['why']:
                return 'D:why', i, 'spec %s, code %s' % (w['why'], g['why'])
    return None


# ------------------------------------------------------------------------------------------------
# the check
# ------------------------------------------------------------------------------------------------

X_ACTIONS = ['XAddPart', 'XSeal', 'XCorrupt', 'XServe', 'XFirst', 'XSkip', 'XNextAfterPartial', 'XNextAfterFull',
             'XReadSome', 'XReadAll', 'XExhaust', 'XGetData', 'XGetText', 'XGetTextOpen', 'XGetMedia', 'XReadUntil']


def action_coverage(ctx, module, cfg, timeout=300):
    """Vacuity guard.  TLC's -coverage cost model needs minutes for this specification (it expands the
    nested byte-string operators at every use site), so the per-action counts are taken from TLC's
    state-graph dump with action labels of a small instance that has every action of Next."""
    import os
    import re
    path = os.path.join(ctx.scratch, 'cov-%s.dot' % cfg)
    r = ctx.tlc(module, cfg, workers=4, timeout=timeout, extra=('-dump', 'dot,actionlabels', path))
    counts = {}
    with open(path) as f:
        for line in f:
            if '->' in line:
                m = re.search(r'label="(\w+)"', line)
                if m:
                    counts[m.group(1)] = counts.get(m.group(1), 0) + 1
    os.unlink(path)
    r.coverage = {k: (v, v) for k, v in counts.items()}
    ctx.tlc_runs[-1]['coverage'] = dict(counts)
    return r


def nontrivial(form, lim, script_ops):
    """DESIGN 2.6: a part content contains CR/LF/dash, or a part was not fully consumed, or a limit is
    within 1 of the size (every non-default limit the generators produce is)."""
    if any(x in (13, 10, 45) for p in form for x in p['content']):
        return True
    if lim != BASE_LIM:
        return True
    full = ('get_data', 'get_text', 'get_media', 'exhaust')
    for i, p in enumerate(form):
        ops = script_ops[i] if i < len(script_ops) else []
        if not any(o[0] in full or (o[0] == 'read' and o[1] < 0) for o in ops):
            return True
    return False


def expected_status(want, got):
    """400 iff some call raised the parse error (the application re-raises the first one)."""
    return 400 if any(w['out'] == 'error' or (w['out'] == 'open' and g['out'] == 'error') for w, g in zip(want, got)) else 200


def run(ctx):
    ctx.rule = ('case = (form, boundary/preamble/epilogue/final CRLF, limits, body bytes, consumption script, stack, '
                'reader buffer size, transport chunking); non-trivial iff a part content contains CR, LF or a dash, or '
                'some part is not fully consumed, or a limit is within 1 of the size it bounds; distinct by hash of '
                '(body, limits, script)')
    ctx.trusted_base = ['TLC evaluation of spec/Multipart.tla (encoder, iteration, UTF-8 well-formedness)',
                        "CPython str.encode('utf-8') and json.dumps for projecting text / media",
                        'engine/bytesrc.py byte sources, engine/drivers.py raw WSGI/ASGI drivers']
    ctx.assumptions = ['names and plain filenames contain no double quote or backslash; charset is UTF-8',
                       'after "body part is too large" only get_data()/get_text() are asked again on that part',
                       'the request carries a correct Content-Length',
                       'Cython twin falcon/cyutil/reader.pyx: stale-or-absent, not checked']
    ctx.extra['bounds'] = {
        'exhaustive (TLC)': 'forms of 0-2 parts over 12 adversarial contents x 2-4 header renderings (+ 2 JSON parts), '
                            'boundaries b / bQ (70 bytes in the limit instance), <= 1 consumption call per part out of '
                            'read(0..2) / read() / exhaust / get_data / get_text / get_media / read_until(3 delimiters x 4 sizes x '
                            'consume); every limit at size-1 / size / size+1; every single edit (delete, insert, substitute; '
                            '4-5 byte values) of 2 (quick) / 7 (thorough) encoded bodies',
        'replayed / judged': 'forms of 0-6 parts (3 in TLC simulation), contents <= 40 bytes plus bodies around the 8 KiB / '
                             '16 KiB / 32 KiB reader-buffer edges, boundaries of 1..70 bytes, reader buffers from the '
                             'smallest legal size, transport chunks down to 1 byte'}
    ctx.extra['observed_not_flagged'] = [
        'a boundary containing a comma is refused with 415 by the media-handler lookup (Content-Type is split like an '
        'Accept header) before the multipart parser runs; commas are excluded from generated boundaries',
        'a quoted name ending in an escaped backslash ("a\\\\") is mis-split by the inherited cgi.parse_header logic; '
        'quotes and backslashes are excluded from generated names']
    rng = ctx.rng

    # ---- leg M: the design -------------------------------------------------------------------
    r = action_coverage(ctx, 'MC_Multipart', 'MC_MultipartCov.cfg')
    ctx.require_coverage(r, X_ACTIONS)
    ctx.tlc('MC_Multipart', ctx.pick('MC_MultipartQ.cfg', 'MC_Multipart.cfg'), timeout=ctx.pick(600, 2400))
    ctx.tlc('MC_Multipart', 'MC_MultipartLim.cfg', timeout=900)
    if not ctx.quick:
        ctx.tlc('MC_Multipart', 'MC_MultipartLimT.cfg', timeout=2400)       # 70-byte boundary, preamble / epilogue
    if not ctx.quick:      # quick: the corruption invariants are checked by the export instance MC_MultipartExpCQ below
        ctx.tlc('MC_Multipart', 'MC_MultipartCorrupt.cfg', timeout=2400)
    rb = ctx.tlc('MC_Multipart', 'MC_MultipartBad.cfg', must_hold=False, count=False, workers=4, timeout=300)
    if rb.violated != 'ParseOfEncodeIsForm':
        raise MachineryError('vacuity: the wrong design (delimiter without CRLF) does not violate ParseOfEncodeIsForm')
    ctx.extra['wrong_design_run'] = 'DelimWithCRLF=FALSE violates ParseOfEncodeIsForm (as it must)'
    ctx.progress('leg M done: %d states' % ctx.states)

    # ---- leg A: behaviours exported by TLC, replayed ---------------------------------------------
    beh = {}
    for cfg in ctx.pick(('MC_MultipartExp.cfg', 'MC_MultipartExpCQ.cfg', 'MC_MultipartExpX.cfg'),
                        ('MC_MultipartExp.cfg', 'MC_MultipartExp2.cfg', 'MC_MultipartExpC.cfg', 'MC_MultipartExpX.cfg')):
        rx = ctx.tlc('MC_Multipart', cfg, workers=8, timeout=1200)
        for b in rx.json:
            beh[digest(b)] = b
    if not ctx.quick:
        rs = ctx.tlc('MC_Multipart', 'MC_MultipartSim.cfg', simulate={'num': 60}, depth=24, seed=ctx.seed + 1,
                     workers=8, timeout=1200, count=False)
        for b in rs.json:
            if b['ev'] and (b['ev'][-1]['out'] in ('end', 'error') or len(b['ev']) >= 14):
                beh[digest(b)] = b
    fired = set()
    for b in beh.values():
        fired.update(e['op'] for e in b['ev'])
        if b['edited']:
            fired.add('corrupt')
    missing = {'next', 'read', 'read_until', 'exhaust', 'get_data', 'get_text', 'get_media', 'corrupt'} - fired
    if missing:
        raise MachineryError('vacuous export: no behaviour contains %s' % sorted(missing))
    ctx.extra['spec_behaviours'] = len(beh)
    ctx.progress('leg A: %d distinct behaviours exported by TLC' % len(beh))
    per = ctx.pick(4, 5)
    replays = 0
    blist = list(beh.values())
    rng.shuffle(blist)
    for b in blist:
        body = bytes(b['body'])
        bnd = bytes(b['env']['b'])
        script = script_of(b['ev'])
        want = b['ev']
        nt = nontrivial(b['form'], b['lim'], script.ops)
        for stack, var in variants(rng, len(body), bnd, per):
            got = execute(stack, body, bnd, b['lim'], script, var, json_ok=not b['edited'])
            case = {'origin': 'tlc-behaviour', 'stack': stack, 'variant': var, 'form': b['form'], 'env': b['env'],
                    'lim': b['lim'], 'body': b['body'], 'edited': b['edited'], 'script': script.to_json(),
                    'spec_events': want}
            ctx.case(case if replays < 3 else None, nontrivial=nt, key=digest([b['body'], b['lim'], script.to_json()]))
            replays += 1
            bad = compare(want, got, b['edited'])
            if bad is None and stack in ('wsgi', 'asgi') and len(got) > len(want):
                st = got[len(want)]
                if st['op'] == 'status' and (st['out'] == 'exc' or st['code'] != expected_status(want, got)):
                    bad = ('P:exception' if st['out'] == 'exc' else 'P:status', len(want),
                           'status %s %s, expected %d' % (st['code'], st['why'], expected_status(want, got)))
            if bad:
                case['observed'] = got
                if bad[0].startswith('D:'):
                    ctx.detail(bad[0], case, 'event %d: %s' % (bad[1], bad[2]))
                else:
                    ctx.violation(bad[0], case, '%s: event %d (%s): %s' % (stack, bad[1], want[min(bad[1], len(want) - 1)]['op'], bad[2]),
                                  signature=signature_of(bad[0], want, bad[1]))
    ctx.traces_validated += replays
    ctx.progress('leg A done: %d replays' % replays)

    # ---- leg B: bigger seeded cases, recorded and judged by TLC -----------------------------------
    seen = {}            # trace digest -> (trace, case)
    ncases = ctx.pick(800, 9000)
    per = ctx.pick(6, 8)
    runs = 0
    for i in range(ncases):
        bnd = random_boundary(rng)
        damaged = rng.random() < 0.3
        form = random_form(rng, bnd, rng.choice((1, 2, 3, 3, 4, 6)))
        env = random_env(rng, form, bnd)
        lim = random_limits(rng, form)
        body = encode(form, env)
        edit = None
        if damaged:
            body, edit = random_edit(rng, body, bnd)
        script = random_script(rng, form, bnd)
        runs += run_case(ctx, seen, form, env, lim, body, edit, script, variants(rng, len(body), bnd, per), 'random')
    # bodies beyond the default reader buffers (32 KiB sync, 8 KiB async), full stack only
    for i in range(ctx.pick(6, 60)):
        bnd = random_boundary(rng)
        while b',' in bnd:
            bnd = random_boundary(rng)
        form = random_form(rng, bnd, 2)
        if not form:
            continue
        edge = rng.choice((8192, 8192, 16384, 32768, 32768))
        k = rng.randrange(len(form))
        pad = edge - rng.randint(0, 160) + rng.choice((0, 0, 40, 200))
        form[k]['content'] = list(bytes(form[k]['content']) + b'x' * pad + random_content(rng, bnd, 3))
        if form[k]['ctype'] == list(b'application/json'):
            form[k]['ctype'] = list(b'application/octet-stream')
        env = random_env(rng, form, bnd)
        if not encodable(form, env):
            continue
        lim = dict(BASE_LIM, buf=1 << 20)
        body = encode(form, env)
        script = random_script(rng, form, bnd, maxops=2)
        script.ops = [[o for o in part if o[0] != 'get_text'] for part in script.ops]
        vs = [('wsgi', {'chunks': None}), ('asgi', {'chunks': [rng.randint(1, 4000) for _ in range(40)]}),
              ('wsgi', {'chunks': [rng.randint(1, 9000)]}), ('asgi', {'chunks': [1460] * 40})]
        runs += run_case(ctx, seen, form, env, lim, body, None, script, vs, 'big')
    ctx.progress('leg B: %d executions, %d distinct traces to judge' % (runs, len(seen)))
    items = [(t, c) for t, c, _ in seen.values()]
    verdicts = ctx.judge('MultipartTrace', [t for t, _ in items], timeout=3000, workers=16, chunk=1500)
    for (trace, case), v in zip(items, verdicts):
        if v == 'ok':
            continue
        clause, _, at = v.partition('@')
        if clause.startswith('H:') or clause.startswith('S:'):
            raise MachineryError('judge: %s at event %s for case %s' % (clause, at, json.dumps(case)[:2000]))
        case = dict(case, observed=trace['ev'])
        if clause.startswith('D:'):
            ctx.detail(clause, case, 'event %s' % at)
        else:
            k = int(at) - 1 if at.isdigit() else 0
            ev = trace['ev'][k] if 0 <= k < len(trace['ev']) else {}
            ctx.violation(clause, case, '%s: trace rejected by MultipartTrace at event %s (%s -> %s %s)'
                          % ('/'.join(case['stacks']), at, ev.get('op'), ev.get('out'), ev.get('why')),
                          signature=signature_of(clause, trace['ev'], k))
    ctx.extra['distinct_traces_judged'] = len(items)
    ctx.extra['executions'] = runs + replays
    ctx.note('all stacks, buffer sizes and chunkings of one (body, limits, script) collapse to one trace when the '
             'parsers are correct: %d executions gave %d distinct traces' % (runs, len(items)))


def signature_of(clause, ev, k):
    """Narrow structural description of a failing history: the clause, the failing call and the call before it."""
    e = ev[k] if 0 <= k < len(ev) else {}
    prev = ev[k - 1] if 1 <= k <= len(ev) else {}
    return {'clause': clause, 'op': e.get('op'), 'after': prev.get('op'), 'after_out': prev.get('out')}


def charset_table(body):
    """Charset labels occurring in the body (RFC 5987 values, Content-Type charset parameters), classified
    by the trusted decoder (CPython's codec registry): utf8 / bogus (names nothing that can decode: not even
    the empty string decodes under it) / other."""
    import codecs
    import re
    labels = set(re.findall(rb"filename\*=([A-Za-z0-9_-]+)'", body)) | set(re.findall(rb"charset=([A-Za-z0-9_-]*)", body))
    out = []
    for lab in sorted(labels):
        try:
            name = lab.decode('ascii')
            info = codecs.lookup(name)
            ok = False
            for probe in (b'a', b'ab', b'abcd'):       # (b'' decodes under any label without a lookup)
                try:
                    probe.decode(name)
                    ok = True
                except Exception:
                    pass
            c = 'bogus' if not ok else 'utf8' if info.name == 'utf-8' else 'other'
        except Exception:
            c = 'bogus'
        out.append({'l': list(lab), 'c': c})
    return out


def run_case(ctx, seen, form, env, lim, body, edit, script, vs, origin):
    """Executes one case on every (stack, variant).  The handler-level and the full-stack runs of a correct
    implementation log the same calls; the full-stack ones add the HTTP status, which is appended (once per
    distinct value) to the common trace."""
    bnd = bytes(env['b'])
    nt = nontrivial(form, lim, script.ops)
    n = 0
    for stack, var in vs:
        ev = execute(stack, body, bnd, lim, script, var, json_ok=edit is None)
        n += 1
        status = ev[-1] if ev and ev[-1]['op'] == 'status' else None
        core = ev[:-1] if status else ev
        k = digest([list(body), lim, core])
        ctx.case(None, nontrivial=nt, key=digest([list(body), lim, script.to_json()]))
        if k not in seen:
            trace = {'form': form, 'env': env, 'lim': lim, 'body': list(body), 'valid': edit is None,
                     'charsets': charset_table(body), 'ev': list(core)}
            case = {'origin': origin, 'stacks': [], 'variant': var, 'form': form, 'env': env, 'lim': lim,
                    'body': list(body), 'edit': edit, 'script': script.to_json()}
            seen[k] = (trace, case, [])
            if len(ctx.samples) < 3 and nt and len(body) < 600:
                ctx.sample({kk: vv for kk, vv in case.items() if kk != 'body'})
        trace, case, statuses = seen[k]
        if stack not in case['stacks']:
            case['stacks'].append(stack)
        if status is not None and status not in statuses:
            statuses.append(status)
            trace['ev'].append(status)
    return n


def replay(ctx, case):
    c = case.get('case', case)
    script = Script.from_json(c['script'])
    body = bytes(c['body'])
    bnd = bytes(c['env']['b'])
    stacks = [c['stack']] if 'stack' in c else c['stacks']
    for stack in stacks:
        ev = execute(stack, body, bnd, c['lim'], script, c['variant'], json_ok=not (c.get('edited') or c.get('edit')))
        print(stack, 'events:')
        for e in ev:
            print('  ', {k: v for k, v in e.items() if v not in (NONE, [], '', 0, False, -1)})
        trace = {'form': c['form'], 'env': c['env'], 'lim': c['lim'], 'body': c['body'],
                 'valid': not (c.get('edited') or c.get('edit')), 'charsets': charset_table(body), 'ev': ev}
        v = ctx.judge('MultipartTrace', [trace], workers=1)[0]
        print('verdict:', v)
        if v != 'ok' and not v.startswith('D:'):
            ctx.violation(v.split('@')[0], c, 'trace rejected at %s' % v)
