"""G02 - growth path of DESIGN section 4, C17 binding B: the WebSocket sessions falcon's own test suite opens,
judged against the C17 specification (spec/WebSocket.tla).  Sibling of G01 (HTTP exchanges).

recorder: engine/suite_recorder_ws.py  pytest plugin (-p engine.suite_recorder_ws), no change to /repo; records every
                                       websocket session at the ASGI boundary (events obtained from receive(), events
                                       handed to send() with the server's answer) + the framework's decision points
judge:    spec/SuiteWsTrace.tla        EXTENDS WebSocket: MonStep (legality automaton), DoAccept / DoClose / DoSend,
                                       CloseEv, CloseAlwaysSent, Handle / Cleanup / ReturnResult / AbandonedHandshakeClose
                                       unchanged; explicit Expressible predicate, skips are counted by reason
this file: runs the suite under the recorder (source mode, in place on /repo/tests, falcon from $FALCON_ROOT), projects
          every record onto the vocabulary of WebSocket.tla, replays the recorded events under the independent ASGI
          WebSocket monitor of engine/ws_harness.py, dedupes, lets TLC judge, reports counts and VIOLATION lines; on
          every run accepted sessions are corrupted in one field each and the responsible clause must reject them.

Not a listed property: nothing here can fail C01..C20.
"""
META = {
    'property_id': 'G02',
    'design_ref': 'DESIGN.md section 4, C17 binding B (growth path: the repository\'s own WebSocket conversations)',
    'technique': 'falcon\'s own suite run under a recording pytest plugin; every recorded WebSocket session judged by TLC '
                 'with the legality automaton, call guards, close-code mapping and CloseAlwaysSent of WebSocket.tla (C17)',
    'level_text': 'Every WebSocket session any test of /repo/tests opens (about 2e2 sessions) is recorded at the ASGI '
                  'boundary and judged by spec/SuiteWsTrace.tla, which extends the C17 specification and evaluates its '
                  'operators unchanged on the replayed session.',
    'level_note': 'Conformance of recorded behaviour only (leg B); the conversations are the ones the suite\'s authors '
                  'chose, against falcon\'s own simulated server. Sessions outside the explicit Expressible predicate of '
                  'SuiteWsTrace.tla are counted as skipped by reason, never accepted. What a call returned / raised to the '
                  'responder and payload contents are not recorded (C17 legs A/B and C18 cover them). Trusted: TLC, '
                  'engine/suite_recorder_ws.py, the projection in checks/g02.py, engine/ws_harness.Monitor.',
}

import collections
import copy
import json
import os
import re
import subprocess
import sys
import tempfile

from engine import ws_harness
from engine.core import MachineryError, digest
from checks.g01 import asc, dec            # typed copies back to objects / ASCII rendering: G01's, not forked

REPO = '/repo'
VERIF = os.path.dirname(os.path.dirname(os.path.abspath(__file__)))
EXPECT_PASSED = 3440
QUICK_FILES = ['tests/asgi/test_ws.py']
UNSUPPORTED = ('falcon.errors.UnsupportedScopeError', 'falcon.errors.UnsupportedError')
DEFAULT_HANDLERS = ('_http_status_handler', '_http_error_handler', '_python_error_handler', '_ws_disconnected_error_handler')


# ------------------------------------------------------------------------------------------------
# running the suite under the recorder
# ------------------------------------------------------------------------------------------------

def run_suite(ctx, files, out, workers=8, timeout=1500, plugins=('engine.suite_recorder_ws',)):
    env = dict(os.environ)
    env.update({'PYTHONPATH': os.path.join(VERIF, 'tools', 'srcmode'), 'PYTHONDONTWRITEBYTECODE': '1',
                'FALCON_ROOT': os.environ.get('FALCON_ROOT', REPO), 'SUITE_WS_RECORD_FILE': out, 'PYTHONHASHSEED': '0'})
    cmd = [sys.executable, '-m', 'pytest', '-q', '-p', 'no:cacheprovider']
    for p in plugins:
        cmd += ['-p', p]
    cmd += ['--timeout=900', '--continue-on-collection-errors', '-n', str(workers)] + list(files)
    ctx.progress('running falcon\'s suite under the recorder: %s' % ' '.join(cmd[2:]))
    try:
        p = subprocess.run(cmd, cwd=REPO, env=env, stdout=subprocess.PIPE, stderr=subprocess.STDOUT, text=True,
                           errors='replace', timeout=timeout)
    except subprocess.TimeoutExpired:
        raise MachineryError('falcon\'s suite did not finish within %d s under the recorder' % timeout)
    lines = [x for x in p.stdout.strip().splitlines() if re.search(r'\d+ (passed|failed|error)', x)]
    tail = lines[-1] if lines else (p.stdout.strip().splitlines() or [''])[-1]
    counts = {k: int(v) for v, k in re.findall(r'(\d+) (passed|failed|skipped|errors?|warnings?)', tail)}
    failed = re.findall(r'^FAILED (\S+)', p.stdout, re.M)
    return {'summary': tail, 'passed': counts.get('passed', 0), 'failed': counts.get('failed', 0),
            'skipped': counts.get('skipped', 0), 'errors': counts.get('errors', counts.get('error', 0)),
            'failed_tests': failed[:40], 'rc': p.returncode}


def load(path):
    recs, errs = [], []
    with open(path, encoding='utf-8') as f:
        for line in f:
            try:
                d = json.loads(line)
            except ValueError:
                errs.append(line[:200])
                continue
            if d.get('kind') == 'ws':
                recs.append(d)
            else:
                errs.append(json.dumps(d)[:300])
    return recs, errs


# ------------------------------------------------------------------------------------------------
# projection of one recorded session onto the vocabulary of WebSocket.tla
# ------------------------------------------------------------------------------------------------

ITEM = {'d': '', 't': '', 'code': 0, 'rs': 0, 'k': '', 'v': 0, 'sp': 0, 'hd': 0, 'ok': True, 'f': 'none', 'kind': '',
        'exc': '', 'hs': 0, 'hk': '', 'dr': False}


def item(**kw):
    o = dict(ITEM)
    o.update(kw)
    return o


def is_int(x):
    return isinstance(x, int) and not isinstance(x, bool) and -2 ** 31 < x < 2 ** 31


def version(scope):
    """'2.3' -> 23; absent -> 20 (the ASGI default); '2.10.3' -> 29 (every 2.x from 2.3 on reads alike); else -1"""
    if not scope.get('has_asgi') or not scope.get('has_spec_version'):
        return 20
    sv = scope.get('spec_version')
    m = re.fullmatch(r'(\d+)\.(\d+)(\.\d+)*', sv) if isinstance(sv, str) else None
    if not m or len(m.group(1)) > 3 or len(m.group(2)) > 6:
        return -1
    return int(m.group(1)) * 10 + min(int(m.group(2)), 9)


def fault_class(exc):
    """the server's refusal in the fault vocabulary of WebSocket.tla (Faults): the classes falcon documents for
    servers - 'code = 1000 (OK)' in the message, an OSError, 'invalid close code' in the message, anything else"""
    msg = (exc or {}).get('msg') or ''
    if 'code = 1000 (OK)' in msg:
        return 'lost1000'
    if 'invalid close code' in msg.lower():
        return 'badcode'
    if (exc or {}).get('oserror'):
        return 'lost'
    return 'other'


def sent_event(e, reasons):
    """one event handed to send() -> (item fields, the event rebuilt for the monitor)"""
    t = e.get('type')
    keys = e.get('keys') or []
    f = {}
    ev = {'type': t}
    if t == 'websocket.accept':
        f['t'] = 'accept'
        if 'subprotocol' in keys:
            sp = dec(e.get('subprotocol'))
            ev['subprotocol'] = sp
            f['sp'] = 0 if sp is None else 1 if isinstance(sp, str) else 2
        if 'headers' in keys:
            h = e.get('headers') or {}
            items = [dec(i) for i in h.get('items', [])] if isinstance(h, dict) and 'items' in h else None
            ev['headers'] = items if items is not None else [('?',)]
            names = [i[0] for i in (items or []) if isinstance(i, (tuple, list)) and len(i) == 2]
            f['hd'] = 2 if any(n == b'sec-websocket-protocol' for n in names) else 1
        for k in keys:
            if k not in ('type', 'subprotocol', 'headers'):
                ev[k] = None
    elif t == 'websocket.send':
        f['t'] = 'send'
        tx, bs = e.get('text'), e.get('bytes')
        if tx is not None:
            f['k'] = 'text'
            f['v'] = 1 if tx.get('str') else 0
            ev['text'] = 'x' * max(tx.get('n', 0), 0) if tx.get('str') else object()
        if bs is not None:
            f['k'] = 'bin' if tx is None else 'both'
            f['v'] = 1 if bs.get('type') == 'bytes' and tx is None else 0
            ev['bytes'] = b'x' * max(bs.get('n', 0), 0) if bs.get('type') == 'bytes' else object()
        for k in keys:
            if k not in ('type', 'text', 'bytes'):
                ev[k] = None
    elif t == 'websocket.close':
        f['t'] = 'close'
        code = e.get('code', 1000) if 'code' in keys else 1000
        f['code'] = code if is_int(code) else -1
        ev['code'] = dec(code)
        if 'reason' in keys:
            rs = dec(e.get('reason'))
            ev['reason'] = rs
            f['rs'] = 1
        f['dr'] = bool(reasons.get(f['code']))
        for k in keys:
            if k not in ('type', 'code', 'reason'):
                ev[k] = None
    else:
        f['t'] = 'other'
        ev['type'] = t if isinstance(t, str) else None
    return f, ev


def project(rec):
    scope, opts = rec.get('scope') or {}, rec.get('opts') or {}
    ver = version(scope)
    ec, mq = opts.get('error_close_code'), opts.get('max_receive_queue')
    reasons = {}
    if isinstance(opts.get('reasons'), list):
        for k, v in opts['reasons']:
            if is_int(k) and isinstance(v, str):
                reasons[k] = v
    end = rec.get('end') or {}
    raised = end.get('raised')
    x = {'raised': bool(raised), 'unsupported': bool(raised) and raised.get('type') in UNSUPPORTED, 'patched': bool(rec.get('patched') or rec.get('patched_end')),
         'unfinished': bool(rec.get('unfinished')), 'cancelled': bool(raised and raised.get('base')),
         'ecnotint': not is_int(ec), 'monerrs': 0}
    mon = ws_harness.Monitor((ver // 10, ver % 10) if ver >= 0 else (2, 0))
    items, info = [], []
    for i in rec.get('ev', []):
        d = i.get('d')
        if d == 'recv':
            if i.get('exc') is not None:
                items.append(item(d='recv', t='raised'))
                info.append('recv!%s' % i['exc'].get('type', '?').rsplit('.', 1)[-1])
                continue
            e = i.get('e') or {}
            t = e.get('type')
            name = {'websocket.connect': 'connect', 'websocket.receive': 'receive',
                    'websocket.disconnect': 'disconnect'}.get(t, 'other')
            code = e.get('code') if name == 'disconnect' else 0
            k = ''
            n = 0
            if name == 'receive':
                k = 'text' if e.get('text') is not None else 'bin' if e.get('bytes') is not None else ''
                n = ((e.get('text') or e.get('bytes') or {}).get('n', 0))
            items.append(item(d='recv', t=name, code=code if is_int(code) else 0, k=k, v=min(max(n, 0), 10 ** 9)))
            info.append('recv:%s%s' % (name, '(%s)' % code if name == 'disconnect' else ''))
        elif d == 'send':
            f, ev = sent_event(i.get('e') or {}, reasons)
            ok = bool(i.get('ok'))
            mon.check(ev)
            if ok:
                mon.accepted_by_server(ev)
            items.append(item(d='send', ok=ok, f='none' if ok else fault_class(i.get('exc')), **f))
            info.append('send:%s%s%s' % (f['t'], '(%s%s)' % (f.get('code'), ',reason' if f.get('rs') else '') if f['t'] == 'close' else
                                         '(sp=%s,hd=%s)' % (f.get('sp', 0), f.get('hd', 0)) if f['t'] == 'accept' else '',
                                         '' if ok else '!%s' % ((i.get('exc') or {}).get('type', '?').rsplit('.', 1)[-1])))
        elif d == 'route':
            items.append(item(d='route', kind=asc(str(i.get('kind')))))
            info.append('route:%s' % i.get('kind'))
        elif d == 'resp':
            items.append(item(d='resp', kind=asc(str(i.get('at')))))
            info.append('resp:%s%s' % (i.get('at'), ':' + i['exc'].get('type', '?').rsplit('.', 1)[-1] if i.get('exc') else ''))
        elif d == 'hx':
            exc, h = i.get('exc') or {}, i.get('handler')
            kind = 'http' if exc.get('http') else 'wsd' if exc.get('wsd') else 'py'
            hs = exc.get('status') if kind == 'http' and is_int(exc.get('status')) else 0
            if h is None:
                hk = 'none'
            elif h.get('name') in DEFAULT_HANDLERS and h.get('mod') == 'falcon.asgi.app' and h.get('bound_to_app'):
                hk = 'default'
            else:
                hk = 'custom'
            items.append(item(d='hx', exc=kind, hs=hs, hk=hk))
            info.append('hx:%s%s/%s' % (exc.get('type', '?').rsplit('.', 1)[-1], '(%s)' % hs if kind == 'http' else '', hk))
        elif d == 'hxdone':
            items.append(item(d='hxdone', ok=bool(i.get('handled'))))
        elif d == 'http':
            st = i.get('status')
            items.append(item(d='http', hs=st if is_int(st) else 0))
            info.append('http:%s' % st)
        elif d == 'cleanup':
            items.append(item(d='cleanup'))
            info.append('cleanup')
        else:
            items.append(item(d='unknown'))
    items.append(item(d='end', ok=not raised))
    info.append('end:%s' % ('returned' if not raised else 'raised %s' % raised.get('type', '?').rsplit('.', 1)[-1])
                if not rec.get('unfinished') else 'end:unfinished')
    x['monerrs'] = len(mon.errors)
    t = {'ver': ver, 'maxq': mq if is_int(mq) and mq >= 0 else 0, 'ec': ec if is_int(ec) else -1, 'x': x, 'ev': items}
    return t, {'events': info, 'monitor': mon.errors[:4], 'spec_version': scope.get('spec_version'),
               'error_close_code': ec, 'max_receive_queue': mq, 'patched': rec.get('patched_end') or rec.get('patched')}


# ------------------------------------------------------------------------------------------------
# judging
# ------------------------------------------------------------------------------------------------

def judge(ctx, traces, chunk=400, workers=8, timeout=900):
    """-> one dict {'L': (verdict, items consumed), 'M': (verdict, decision points judged), 'D': verdict} per trace"""
    out = []
    tags = {'VL': 'L', 'VM': 'M', 'VD': 'D'}
    for off in range(0, len(traces), chunk):
        part = traces[off:off + chunk]
        path = os.path.join(ctx.scratch, 'suite-ws-traces-%d.json' % off)
        with open(path, 'w') as f:
            json.dump(part, f)
        r = ctx.tlc('SuiteWsTrace', 'SuiteWsTrace.cfg', env={'TRACE_FILE': path}, workers=workers, timeout=timeout)
        got = {}
        for tag, fields in r.tuples:
            if tag in tags and len(fields) == 3:
                got.setdefault(fields[0], {})[tags[tag]] = (fields[1], fields[2])
        for i in range(len(part)):
            v = got.get(i + 1)
            if v is None or set(v) != set(tags.values()):
                raise MachineryError('SuiteWsTrace printed no complete verdict for trace %d of %d: %r\n%s'
                                     % (i + 1, len(part), v, r.out[-2500:]))
            out.append(v)
        os.unlink(path)
    ctx.traces_validated += len(traces)
    return out


def run(ctx):
    ctx.rule = ('case = one WebSocket session a test of /repo/tests opens (events obtained from receive(), events handed to '
                'send() with the server\'s answer, decision points of the framework, scope version, ws_options); distinct by '
                'hash of its projection; non-trivial iff it is inside Expressible and judged')
    ctx.trusted_base = ['TLC 1.8 evaluation of spec/SuiteWsTrace.tla (EXTENDS WebSocket)',
                        'engine/suite_recorder_ws.py (transparent wrappers; copies, decides nothing)',
                        'engine/ws_harness.Monitor replayed on the recorded events (event format)',
                        'projection in checks/g02.py (event fields -> WebSocket.tla vocabulary; server refusal -> fault class)']
    ctx.assumptions = ['the suite is run in place on /repo/tests with falcon imported from $FALCON_ROOT (source mode)',
                       'a send attempt is noted when falcon makes the call (that is what falcon knew then); an event obtained '
                       'from receive() when receive() returns',
                       'the simulated server raises on protocol breaches: where WebSocket.tla makes no send, the attempt is put to '
                       'the automaton as made (SuiteWsTrace!Move)',
                       'sessions outside SuiteWsTrace!Expressible are skipped and counted, never accepted']
    scratch = tempfile.mkdtemp(prefix='g02-')
    try:
        _run(ctx, os.path.join(scratch, 'ws-records.jsonl'))
    finally:
        import shutil
        shutil.rmtree(scratch, ignore_errors=True)


def _run(ctx, out):
    files = QUICK_FILES if ctx.quick else ['tests']
    if os.environ.get('G02_RECORDS'):          # development aid only: judge an existing record file again
        out = os.environ['G02_RECORDS']
        suite = {'summary': 'not run (G02_RECORDS)', 'passed': EXPECT_PASSED, 'failed': 0, 'failed_tests': []}
    else:
        suite = run_suite(ctx, files, out, workers=8, timeout=ctx.pick(600, 1800))
    ctx.extra['suite'] = suite
    ctx.progress('suite: %s' % suite['summary'])
    print('G02 suite under the recorder: %s' % suite['summary'])
    if not os.path.exists(out):
        raise MachineryError('the recorder wrote nothing (plugin not loaded?)\n%s' % suite['summary'])
    recs, errs = load(out)
    if errs:
        raise MachineryError('unreadable recorder lines: %r' % errs[:3])
    if len(recs) < 50:
        raise MachineryError('only %d sessions recorded: %s' % (len(recs), suite['summary']))
    unchanged = os.environ.get('FALCON_ROOT', REPO) == REPO
    if suite['failed']:          # (collection errors of tests/test_uri_templates.py under pytest 9 are the baseline's, DESIGN 2.1)
        msg = 'suite under the recorder: %d tests failed, e.g. %s' % (suite['failed'], suite['failed_tests'][:5])
        if unchanged:
            raise MachineryError(msg + ' (the recorder must be transparent on the unchanged tree)')
        print('NOTE ' + msg)
    if unchanged and not ctx.quick and suite['passed'] != EXPECT_PASSED:
        raise MachineryError('suite under the recorder: %s, expected %d passed' % (suite['summary'], EXPECT_PASSED))

    # ---- projection + dedupe -------------------------------------------------------------------------
    seen = {}
    for rec in recs:
        t, info = project(rec)
        k = digest(t)
        if k in seen:
            seen[k][2].append(rec['node'])
        else:
            seen[k] = (t, info, [rec['node']])
    items = list(seen.values())
    ctx.progress('%d sessions recorded, %d distinct projections' % (len(recs), len(items)))
    verdicts = judge(ctx, [t for t, _, _ in items])

    # ---- accounting ----------------------------------------------------------------------------------
    n = {'recorded': len(recs), 'distinct': len(items), 'expressible': 0, 'skipped': 0,
         'recorded_expressible': 0, 'recorded_skipped': 0}
    L = {'judged': 0, 'ok': 0, 'skipped': collections.Counter(), 'skipped_recorded': collections.Counter(),
         'violations': collections.Counter()}
    M = {'judged': 0, 'ok': 0, 'points': 0, 'skipped': collections.Counter(), 'violations': collections.Counter()}
    details = collections.Counter()
    for (t, info, nodes), v in zip(items, verdicts):
        lv, mv, dv = v['L'][0], v['M'][0], v['D'][0]
        case = {'tests': sorted(set(nodes))[:6], 'observed': info, 'projection': t}
        if lv.startswith('skip/'):
            L['skipped'][lv[5:]] += 1
            L['skipped_recorded'][lv[5:]] += len(nodes)
            n['skipped'] += 1
            n['recorded_skipped'] += len(nodes)
        else:
            n['expressible'] += 1
            n['recorded_expressible'] += len(nodes)
            L['judged'] += 1
            if lv == 'ok':
                L['ok'] += 1
            elif lv.startswith('P:'):
                L['violations'][lv[2:]] += 1
                ctx.violation('L:' + lv[2:], dict(case, part='L'),
                              'legality: %s at item %d of the session recorded in %s: %s'
                              % (lv, v['L'][1], nodes[0], ' '.join(info['events'])[:400]))
            else:
                raise MachineryError('unexpected legality verdict %r for %s' % (lv, nodes[0]))
        if mv.startswith('skip/'):
            M['skipped'][mv[5:]] += 1
        else:
            M['judged'] += 1
            M['points'] += v['M'][1]
            if mv == 'ok':
                M['ok'] += 1
            elif mv.startswith('P:'):
                M['violations'][mv[2:]] += 1
                ctx.violation('M:' + mv[2:], dict(case, part='M'),
                              'close-code mapping: %s in the session recorded in %s: %s'
                              % (mv, nodes[0], ' '.join(info['events'])[:400]))
            elif mv.startswith('D:'):
                details[mv] += 1
                ctx.detail(mv, case, 'in %s' % nodes[0])
            else:
                raise MachineryError('unexpected mapping verdict %r for %s' % (mv, nodes[0]))
        if dv != 'ok':
            details[dv] += 1
            ctx.detail(dv, case, 'in %s: %s' % (nodes[0], ' '.join(info['events'])[:300]))
        ctx.case({'tests': nodes[:2], 'verdict': 'L=%s;M=%s;D=%s' % (lv, mv, dv), 'events': info['events'][:40]},
                 nontrivial=not lv.startswith('skip/'), key=digest(t))
    if os.environ.get('G02_DUMP'):              # development aid only: every verdict with the tests it came from
        with open(os.environ['G02_DUMP'], 'w') as f:
            for (t, info, nodes), v in zip(items, verdicts):
                f.write(json.dumps({'v': v, 'tests': sorted(set(nodes)), 'info': info}, default=repr) + '\n')
    selftest(ctx, items, verdicts)
    ctx.extra['sessions'] = n
    ctx.extra['legality'] = {k: (dict(v) if isinstance(v, collections.Counter) else v) for k, v in L.items()}
    ctx.extra['mapping'] = {k: (dict(v) if isinstance(v, collections.Counter) else v) for k, v in M.items()}
    ctx.extra['details'] = dict(details)
    print('G02 sessions: recorded=%(recorded)d (expressible=%(recorded_expressible)d skipped=%(recorded_skipped)d) '
          'distinct=%(distinct)d (expressible=%(expressible)d skipped=%(skipped)d)' % n)

    def fmt(c):
        return ', '.join('%s:%d' % kv for kv in sorted(c.items())) or '0'
    print('G02 part L (legality, CloseAlwaysSent, arguments by version): judged=%d ok=%d violations=%s skipped=%s '
          '(recorded sessions skipped: %s)' % (L['judged'], L['ok'], fmt(L['violations']), fmt(L['skipped']),
                                               fmt(L['skipped_recorded'])))
    print('G02 part M (3404 / 3405 / 3000+status / error code / final close): judged=%d ok=%d decision points=%d '
          'violations=%s skipped=%s' % (M['judged'], M['ok'], M['points'], fmt(M['violations']), fmt(M['skipped'])))
    if details:
        print('G02 model-detail mismatches: %s' % fmt(details))


# ------------------------------------------------------------------------------------------------
# self-test: accepted sessions of this very run, corrupted in one field each
# ------------------------------------------------------------------------------------------------

def selftest(ctx, items, verdicts):
    """Vacuity guard: accepted projections of this very run, corrupted in one field each, must be rejected by the
    clause that speaks about that field (otherwise the judge or Expressible has become vacuous)."""
    def first(pred):
        for (t, _, _), v in zip(items, verdicts):
            if v['L'][0] == 'ok' and v['M'][0] == 'ok' and pred(t):
                return copy.deepcopy(t)
        return None

    def idx(tr, /, **kw):
        return [i for i, e in enumerate(tr['ev']) if all(e.get(k) == v for k, v in kw.items())]

    def has(tr, /, **kw):
        return bool(idx(tr, **kw))

    def without_close(tr, ic):
        """the session had the framework not sent its close (the server's echo of it, a disconnect event, goes too)"""
        a = copy.deepcopy(tr)
        a['ev'] = [e for i, e in enumerate(a['ev']) if i != ic and not (i > ic and e['d'] == 'recv' and e['t'] == 'disconnect')]
        return a

    cases = []          # (part, expected verdict, corrupted trace)

    # a plain session: accept, data, responder returns, final close
    t = first(lambda t: has(t, d='send', t='accept') and has(t, d='send', t='send') and has(t, d='resp', kind='return')
              and len(idx(t, d='send', t='close')) == 1 and t['ev'][idx(t, d='send', t='close')[0]]['code'] == 1000
              and idx(t, d='send', t='close')[0] > idx(t, d='resp', kind='return')[0] and t['ver'] < 23 and t['x']['monerrs'] == 0)
    if t:
        ia, isd, ic = idx(t, d='send', t='accept')[0], idx(t, d='send', t='send')[0], idx(t, d='send', t='close')[0]
        a = copy.deepcopy(t); a['ev'].insert(ia + 1, dict(a['ev'][ia])); cases.append(('L', 'P:bad-accept', a))
        a = copy.deepcopy(t); a['ev'].insert(ia, dict(a['ev'][isd])); cases.append(('L', 'P:bad-data', a))
        a = copy.deepcopy(t); a['ev'].insert(ic + 1, dict(a['ev'][ic])); cases.append(('L', 'P:bad-close', a))
        a = copy.deepcopy(t); a['ev'].insert(ic + 1, dict(a['ev'][isd])); cases.append(('L', 'P:bad-after-close', a))
        a = copy.deepcopy(t); a['ev'].insert(ic + 1, dict(a['ev'][isd], ok=False, f='lost')); cases.append(('L', 'P:bad-after-close', a))
        cases.append(('L', 'P:close-always-sent', without_close(t, ic)))
        cases.append(('M', 'P:final-close:close-missing', without_close(t, ic)))
        a = copy.deepcopy(t); a['ev'][ic]['code'] = 1001; cases.append(('M', 'P:final-close:close-code', a))
        a = copy.deepcopy(t); a['ev'][ic]['rs'] = 1; cases.append(('L', 'P:close-reason-version', a))
        a = copy.deepcopy(t); a['ev'][ic]['code'] = 1005; cases.append(('L', 'P:close-code-invalid', a))
        a = copy.deepcopy(t); a['ev'][isd]['v'] = 0; cases.append(('L', 'P:payload-type', a))
        a = copy.deepcopy(t); a['ev'][ia]['sp'] = 2; cases.append(('L', 'P:accept-args', a))
        a = copy.deepcopy(t); a['ev'][ia]['hd'] = 2; cases.append(('L', 'P:accept-args', a))
        a = copy.deepcopy(t); a['ev'][ia]['hd'] = 1; a['ver'] = 20; cases.append(('L', 'P:accept-args', a))
        a = copy.deepcopy(t); a['x']['monerrs'] = 1; cases.append(('L', 'P:Protocol', a))
        a = copy.deepcopy(t); a['ev'].insert(isd, item(d='recv', t='disconnect', code=1001)); cases.append(('L', 'P:bad-after-lost', a))
    # route miss / missing responder / HTTP status / unexpected exception
    for kind, code, clause in (('miss', 3404, 'map-3404'), ('noresp', 3405, 'map-3405')):
        t = first(lambda t: has(t, d='route', kind=kind) and has(t, d='send', t='close', code=code))
        if t:
            ic = idx(t, d='send', t='close')[0]
            a = copy.deepcopy(t); a['ev'][ic]['code'] = code - 1; cases.append(('M', 'P:%s:close-code' % clause, a))
            cases.append(('M', 'P:%s:close-missing' % clause, without_close(t, ic)))
    t = first(lambda t: has(t, d='hx', exc='http', hk='default', hs=422) and has(t, d='send', t='close', code=3422)
              and not has(t, d='route', kind='miss'))
    if t:
        a = copy.deepcopy(t); a['ev'][idx(t, d='send', t='close')[0]]['code'] = 4422; cases.append(('M', 'P:map-http-status:close-code', a))
    t = first(lambda t: has(t, d='hx', hk='custom') and has(t, d='http') and has(t, d='send', t='close'))
    if t:
        a = copy.deepcopy(t); a['ev'][idx(t, d='send', t='close')[0]]['code'] = 1011; cases.append(('M', 'P:map-http-status:close-code', a))
    t = first(lambda t: has(t, d='hx', exc='py', hk='default') and has(t, d='cleanup') and has(t, d='send', t='close', code=1011))
    if t:
        ic = idx(t, d='send', t='close')[0]
        a = copy.deepcopy(t); a['ev'][ic]['code'] = 1000; cases.append(('M', 'P:map-error-code:close-code', a))
        a = copy.deepcopy(t); a['ec'] = 1005; cases.append(('M', 'P:map-error-code:close-code', a))       # owes the 3011 fallback
        cases.append(('L', 'P:close-always-sent', without_close(t, ic)))
    # Expressible must not swallow: with the observed skip fact taken away, a skipped session is judged (and rejected:
    # these are the sessions in which, on purpose, no close is ever sent)
    for (t, _, _), v in zip(items, verdicts):
        if v['L'][0] == 'skip/framework-patched' and not has(t, d='send', t='close') and has(t, d='resp', kind='return'):
            a = copy.deepcopy(t); a['x']['patched'] = False; cases.append(('L', 'P:close-always-sent', a))
            break
    for (t, _, _), v in zip(items, verdicts):
        if v['L'][0] == 'skip/handlers-removed' and not has(t, d='send', t='close'):
            a = copy.deepcopy(t)
            for e in a['ev']:
                if e['d'] == 'hx':
                    e['hk'] = 'default'
            a['x']['raised'] = False
            a['ev'][-1]['ok'] = True
            cases.append(('L', 'P:close-always-sent', a))
            break
    if len(cases) < 20 and not ctx.violations:       # (a run full of violations may not offer the accepted observations)
        raise MachineryError('self-test: only %d corrupted sessions could be built from this run' % len(cases))
    if not cases:
        return
    got = judge(ctx, [a for _, _, a in cases], workers=4)
    ctx.traces_validated -= len(cases)
    bad = [(p, want, g[p][0]) for (p, want, _), g in zip(cases, got) if g[p][0] != want]
    if bad:
        raise MachineryError('self-test: corrupted sessions were not rejected as expected (part, expected, got): %r' % bad)
    ctx.extra['selftest_corruptions_rejected'] = len(cases)
    ctx.progress('self-test: %d corrupted sessions rejected by the clauses that speak about them' % len(cases))


def replay(ctx, case):
    t = case['projection']
    v = judge(ctx, [t], workers=1)[0]
    print('tests:', case.get('tests'))
    print('observed:', json.dumps(case.get('observed'), default=repr)[:2000])
    print('verdict:', v)
    val = v.get(case.get('part', 'L'), ('', 0))[0]
    if val.startswith('P:'):
        ctx.violation('%s:%s' % (case.get('part', 'L'), val[2:]), case, 'recorded session rejected again: %s' % (v,))
