"""C14 - buffered readers behave like one flat byte buffer for every chunking.

spec:   spec/CursorOps.tla (reference semantics), spec/Cursor.tla (state machine + invariants),
        spec/MC_Cursor.tla (bounded instances), spec/CursorTrace.tla (trace judge)
legs:   M  exhaustive TLC check of the cursor design (invariants, per-action coverage)
        A  TLC -simulate behaviours replayed on both real readers under many chunkings
        B  histories recorded from both real readers (exhaustive small scope + seeded random),
           judged by TLC against the cursor; chunking/buffering is absent from the spec, so all
           chunkings of one (data, history) must collapse to ONE trace accepted by the judge
"""
import itertools

META = {
    'property_id': 'C14',
    'design_ref': 'DESIGN.md section 4, C14',
    'technique': 'TLA+ flat-cursor specification model-checked with TLC; traces of both real readers judged by TLC',
    'level_text': 'The cursor design (spec/Cursor.tla) is model-checked exhaustively for small constants; every '
                  'operation history executed on the real sync and async BufferedReader (exhaustive small scope x '
                  'all chunkings, seeded random beyond, plus TLC-simulated behaviours) is replayed against the '
                  'specification by TLC, which has no notion of chunks or buffers.',
    'level_note': 'Bounded: data <= 4 bytes / histories <= 2 exhaustively, <= 48 bytes / <= 8 operations randomly. '
                  'Trusted: TLC, the harness byte sources. The Cython twin cannot be built here and is not checked.',
}

from engine import bytesrc
from engine.core import digest

SYNC_OPS = ('read', 'peek', 'read_until', 'pipe_until', 'pipe', 'exhaust', 'readline', 'readlines', 'delimit', 'endsub')
ASYNC_OPS = ('read', 'peek', 'read_until', 'pipe_until', 'pipe', 'exhaust', 'iter', 'delimit', 'endsub')


class Sink:
    def __init__(self):
        self.parts = []

    def write(self, b):
        self.parts.append(bytes(b))
        return len(b)


class ASink(Sink):
    async def write(self, b):
        self.parts.append(bytes(b))


def _ev(op, n=-1, d=b'', c=False):
    return {'op': op, 'n': n, 'd': list(d), 'c': bool(c), 'res': [], 'err': False, 'lines': [],
            'tell': -1, 'eof': -1, 'pulled': 0}


def run_history(kind, data, maxlen, cs, chunking, history):
    """Execute `history` on a real reader over `data`.  Returns (trace, info).
    chunking: sync -> list of caps for successive source reads; async -> list of chunk lengths
    (0 = an empty chunk).  info['exc'] is set if the reader raised anything but DelimiterError."""
    from falcon.errors import DelimiterError
    # bytes beyond the declared maximum make an over-read visible; a maximum beyond the data
    # models a source that ends early (declared length longer than what the server sends)
    extra = b'\xee\xee\xee' if maxlen <= len(data) else b''
    if kind == 'sync':
        from falcon.util.reader import BufferedReader
        src = bytesrc.SyncSource(data, list(chunking), extra)
        top = BufferedReader(src, maxlen, cs)
        call = lambda f, *a: f(*a)
        mksink = Sink
        D = data[:maxlen]
    else:
        from falcon.asgi.reader import BufferedReader
        chunks, p = [], 0
        for k in chunking:
            chunks.append(data[p:p + k])
            p += k
        if p < len(data):
            chunks.append(data[p:])
        src = bytesrc.AsyncSource(chunks)
        top = BufferedReader(src, cs)
        call = lambda f, *a: bytesrc.drive(f(*a))
        mksink = ASink
        D = data
    stack = [top]
    evs = []
    info = {'exc': None, 'span': False, 'ateos': False}
    consumed = 0            # harness-side position estimate, only used to classify cases
    iterated = set()

    def log(e, r):
        if kind == 'async':
            try:
                e['tell'] = r.tell()
                e['eof'] = 1 if r.eof else 0
            except Exception as ex:  # noqa
                info['exc'] = 'tell/eof raised %r' % (ex,)
        e['pulled'] = src.pos
        evs.append(e)

    wd = bytesrc.watchdog(2.0)
    wd.__enter__()
    for op in history:
        r = stack[-1]
        name = op[0]
        try:
            if name == 'read':
                e = _ev('read', op[1])
                res = call(r.read, None if op[1] == -1 and len(evs) % 2 else op[1])
            elif name == 'peek':
                e = _ev('peek', op[1])
                res = call(r.peek, op[1])
            elif name == 'read_until':
                if len(op[1]) > cs:
                    continue
                e = _ev('read_until', op[2], op[1], op[3])
                res = call(r.read_until, op[1], op[2], op[3])
            elif name == 'pipe_until':
                if len(op[1]) > cs:
                    continue
                e = _ev('pipe_until', -1, op[1], op[2])
                sink = mksink()
                try:
                    call(r.pipe_until, op[1], sink, op[2])
                finally:
                    res = b''.join(sink.parts)
            elif name == 'pipe':
                e = _ev('pipe')
                sink = mksink()
                call(r.pipe, sink)
                res = b''.join(sink.parts)
            elif name == 'exhaust':
                e = _ev('exhaust')
                call(r.exhaust)
                res = b''
            elif name == 'readline':
                if kind != 'sync':
                    continue
                e = _ev('readline', op[1])
                res = r.readline(op[1])
            elif name == 'readlines':
                if kind != 'sync':
                    continue
                e = _ev('readlines', op[1])
                lines = r.readlines(op[1])
                e['lines'] = [list(x) for x in lines]
                res = b''.join(lines)
            elif name == 'iter':
                if kind != 'async' or id(r) in iterated:
                    continue
                iterated.add(id(r))
                e = _ev('iter')

                async def _it(rd=r):
                    out = []
                    async for ch in rd:
                        out.append(ch)
                    return b''.join(out)
                res = bytesrc.drive(_it())
            elif name == 'delimit':
                if len(op[1]) > cs or len(stack) > 2:
                    continue
                e = _ev('delimit', -1, op[1])
                stack.append(r.delimit(op[1]))
                res = b''
                log(e, stack[-1])
                continue
            elif name == 'endsub':
                if len(stack) == 1:
                    continue
                e = _ev('exhaust')
                call(r.exhaust)
                log(e, r)
                stack.pop()
                e = _ev('endsub')
                res = b''
                r = stack[-1]
            else:
                raise ValueError(name)
            if not isinstance(res, bytes):
                info['exc'] = '%s returned %r' % (name, type(res))
                break
            e['res'] = list(res)
            if name != 'peek' and res:
                a, b = consumed, consumed + len(res)
                if any(a < x < b for x in src.bounds):
                    info['span'] = True
                if b >= len(D):
                    info['ateos'] = True
                consumed = b
            if name in ('read_until', 'pipe_until') and e['c']:
                consumed += len(op[1])
            log(e, r)
        except DelimiterError:
            e['err'] = True
            e['res'] = []
            if name == 'pipe_until':
                consumed += len(res)
            log(e, r)
        except Exception as ex:  # anything else is an internal error of the reader
            info['exc'] = '%s%r raised %r' % (name, op[1:], ex)
            break
    wd.__exit__()
    trace = {'kind': kind, 'data': list(D), 'cs': cs, 'maxlen': maxlen if kind == 'sync' else len(data), 'ev': evs}
    return trace, info


# ---------------------------------------------------------------------------------------------

def op_pool(delims, sizes):
    ops = []
    for n in sizes:
        ops += [('read', n), ('peek', n), ('readline', n), ('readlines', n)]
    for d in delims:
        for n in sizes:
            for c in (False, True):
                ops.append(('read_until', d, n, c))
        for c in (False, True):
            ops.append(('pipe_until', d, c))
        ops.append(('delimit', d))
    ops += [('pipe',), ('exhaust',), ('iter',), ('endsub',)]
    return ops


def sync_chunkings(n, rng=None, limit=None):
    """cap patterns for the source's successive reads (short reads)."""
    pats = [[1 << 30], [1], [2], [1, 2], [2, 1], [3], [1, 3], [3, 1, 1]]
    return pats if limit is None else pats[:limit]


def async_chunkings(n, max_parts=None):
    out = []
    for comp in bytesrc.compositions(n, max_parts):
        out.append(list(comp))
    # empty chunks: leading, trailing, in the middle
    out.append([0] + ([n] if n else []))
    if n:
        out.append([n, 0])
    if n >= 2:
        out.append([1, 0, n - 1])
    return out


def from_spec_event(e):
    op = e['op']
    d = bytes(e['d'])
    if op in ('read', 'peek', 'readline', 'readlines'):
        return (op, e['n'])
    if op == 'read_until':
        return (op, d, e['n'], e['c'])
    if op == 'pipe_until':
        return (op, d, e['c'])
    if op == 'delimit':
        return (op, d)
    return (op,)


def run(ctx):
    ctx.rule = ('case = (reader kind, data, buffer size, source chunking, operation history); non-trivial iff some '
                'returned result spans a source-chunk boundary or ends at end-of-source; distinct by hash of the case')
    ctx.trusted_base = ['TLC 1.8 evaluation of spec/CursorOps.tla', 'harness byte sources in engine/bytesrc.py']
    ctx.assumptions = ['sub-readers are used as the multipart parser uses them: the parent is touched again only after '
                       'the sub-reader was exhausted',
                       'sizes are -1/None or >= 0; delimiters have 1..chunk_size bytes (documented preconditions)',
                       'Cython twin falcon/cyutil/reader.pyx: stale-or-absent, not checked (Cython unavailable)']
    A, B, LF, X = 65, 66, 10, 120

    # ---- leg M: the design -----------------------------------------------------------------
    r = ctx.tlc('MC_Cursor', 'MC_Cursor.cfg' if not ctx.quick else 'MC_CursorQ.cfg', coverage=True, timeout=900)
    ctx.require_coverage(r, ['XRead', 'XPeek', 'XReadLine', 'XReadLines', 'XReadUntil', 'XPipeUntil', 'XDelimit',
                             'XExhaust', 'XEndSub'])

    seen = {}          # trace digest -> (trace, example case)
    fails = []

    def record(kind, data, maxlen, cs, chunking, hist, origin):
        trace, info = run_history(kind, data, maxlen, cs, chunking, hist)
        case = {'kind': kind, 'data': list(data), 'maxlen': maxlen, 'cs': cs, 'chunking': list(chunking),
                'history': [[x if not isinstance(x, bytes) else list(x) for x in op] for op in hist], 'origin': origin}
        ctx.case(case, nontrivial=info['span'] or info['ateos'], key=hash(repr(case)))
        if info['exc']:
            ctx.violation('P:exception', case, 'reader raised an internal error: %s' % info['exc'])
            return None
        k = repr(trace)
        if k not in seen:
            seen[k] = (trace, case)
        return trace

    ctx.progress('leg M done')
    # ---- leg A: TLC behaviours replayed under many chunkings --------------------------------
    nsim = ctx.pick(150, 2500)
    rs = ctx.tlc('MC_Cursor', 'MC_CursorSim.cfg', simulate={'num': nsim}, depth=8, seed=ctx.seed + 1, workers=4,
                 timeout=600, count=False)
    behaviours = {digest(b): b for b in rs.json}
    replayed = 0
    for b in list(behaviours.values())[:ctx.pick(3000, 60000)]:
        data = bytes(b['data'])
        hist = [from_spec_event(e) for e in b['ev']]
        want = [e for e in b['ev']]
        for kind in ('sync', 'async'):
            if kind == 'async' and any(h[0] in ('readline', 'readlines') for h in hist):
                continue
            chs = sync_chunkings(len(data), limit=4) if kind == 'sync' else \
                [c for i, c in enumerate(async_chunkings(len(data), 3)) if i % 3 == 0][:6]
            for ch in chs:
                trace, info = run_history(kind, data, len(data), b['cs'], ch, hist)
                case = {'kind': kind, 'data': b['data'], 'cs': b['cs'], 'chunking': list(ch), 'spec_behaviour': b['ev']}
                ctx.case(case, nontrivial=info['span'] or info['ateos'], key=hash(repr(case)))
                replayed += 1
                if info['exc']:
                    ctx.violation('P:exception', case, info['exc'])
                    continue
                got = [e for e in trace['ev']]
                # the harness logs an extra exhaust before endsub; the spec behaviour has its own exhaust
                gi = 0
                for w in want:
                    if w['op'] == 'endsub':
                        gi += 1          # skip harness-inserted exhaust
                    if gi >= len(got):
                        ctx.violation('P:res', case, 'reader stopped before spec step %r' % (w,))
                        break
                    g = got[gi]
                    gi += 1
                    if g['op'] != w['op']:
                        raise AssertionError('harness/spec misaligned: %r vs %r' % (g, w))
                    if g['err'] != w['err'] or (not w['err'] and g['res'] != w['res']) or \
                            (w['op'] == 'readlines' and g['lines'] != w['lines']):
                        ctx.violation('P:res', case, 'step %r: reader gave res=%r err=%r' % (w, g['res'], g['err']))
                        break
    ctx.traces_validated += replayed
    ctx.extra['spec_behaviours_replayed'] = len(behaviours)

    ctx.progress('leg A done: %d replays' % replayed)
    # ---- leg B1: exhaustive small scope -----------------------------------------------------
    # histories "position the cursor/buffer, then run one operation", every data string, every chunking
    alpha = [A, B, LF]
    maxdata = ctx.pick(4, 5)
    dl = [bytes([A]), bytes([A, B]), bytes([A, B, A]), bytes([LF])]
    position = [None, ('read', 1), ('read', 2), ('read', 3), ('peek', 1), ('peek', -1), ('delimit', bytes([A, B]))]
    target = []
    for d in dl:
        for n in (-1, 1, 2):
            for c in (False, True):
                target.append(('read_until', d, n, c))
        target += [('pipe_until', d, False), ('pipe_until', d, True), ('delimit', d)]
    target += [('read', -1), ('read', 0), ('read', 2), ('peek', 2), ('pipe',), ('exhaust',), ('iter',),
               ('readline', -1), ('readline', 1), ('readline', 2), ('readlines', -1), ('readlines', 2), ('endsub',)]
    hists = [([p] if p else []) + [t] for p in position for t in target]
    datas = [bytes(t) for n in range(0, maxdata + 1) for t in itertools.product(alpha, repeat=n)]
    every = ctx.pick(16, 3)
    k = ctx.rng.randrange(every)
    for data in datas:
        for cs in (1, 2, 3):
            for kind in ('sync', 'async'):
                chs = sync_chunkings(len(data), limit=ctx.pick(3, 6)) if kind == 'sync' else \
                    async_chunkings(len(data), 3)
                for h in hists:
                    k += 1
                    if k % every:
                        continue
                    if kind == 'async' and h[-1][0] in ('readline', 'readlines'):
                        continue
                    if kind == 'sync' and h[-1][0] == 'iter':
                        continue
                    for ch in chs:
                        record(kind, data, len(data), cs, ch, list(h) + [('endsub',), ('read', -1)], 'exhaustive')
    # line operations over an alphabet with CR: only LF ends a line (bytes.splitlines() would also split at CR)
    CR = 13
    line_targets = [('readline', -1), ('readline', 2), ('readlines', -1), ('readlines', 2), ('readlines', 0), ('iter',)]
    for n in range(0, 5):
        for t in itertools.product([A, CR, LF], repeat=n):
            data = bytes(t)
            if CR not in t:
                continue
            for cs in (1, 2, 3):
                for p in (None, ('read', 1), ('peek', 2), ('readline', -1)):
                    for tg in line_targets:
                        kind = 'async' if tg[0] == 'iter' else 'sync'
                        if kind == 'async' and p and p[0] == 'readline':
                            continue
                        chs = sync_chunkings(len(data), limit=3) if kind == 'sync' else async_chunkings(len(data), 3)[:4]
                        for ch in chs:
                            record(kind, data, len(data), cs, ch, ([p] if p else []) + [tg, ('read', -1)], 'lines-cr')
    ctx.extra['exhaustive_scope'] = {'alphabet': alpha, 'max_data': maxdata, 'histories': len(hists),
                                     'datas': len(datas), 'sampled_one_in': every}
    ctx.exhaustive = every == 1

    ctx.progress('leg B1 done: %d executions, %d distinct traces' % (ctx.evaluations, len(seen)))
    # ---- leg B2: seeded random beyond the bound ---------------------------------------------
    # data is assembled from delimiter occurrences, delimiter prefixes/suffixes and filler, so that
    # delimiters straddle source-chunk and buffer boundaries often
    nrand = ctx.pick(30000, 250000)
    rng = ctx.rng
    all_delims = [bytes([A]), bytes([LF]), bytes([A, B]), bytes([B, LF]), bytes([A, B, A]), bytes([A, B, X]),
                  bytes([A, A, B, LF])]
    for i in range(nrand):
        kind = 'sync' if i % 2 == 0 else 'async'
        cs = rng.randint(1, 6)
        cand = [d for d in all_delims if len(d) <= cs]
        d0 = rng.choice(cand)
        toks = [d0, d0[:-1], d0[1:], d0[:1], bytes([X]), bytes([X, X]), bytes([LF]), bytes([B]), d0 + d0,
                bytes([13]), bytes([13, LF])]
        data = b''
        for _ in range(rng.randint(0, 10) if rng.random() < 0.8 else rng.randint(8, 24)):
            data += rng.choice(toks)
        data = data[:60]
        sizes = [-1, -1, 0, 1, 2, 3, cs, cs + 1, 2 * cs, 2 * cs - 1, 5, 13]
        hist = []
        for _ in range(rng.randint(1, 8)):
            t = rng.random()
            d = d0 if rng.random() < 0.8 else rng.choice(cand)
            if t < 0.22:
                hist.append(('read', rng.choice(sizes)))
            elif t < 0.34:
                hist.append(('peek', rng.choice(sizes)))
            elif t < 0.62:
                hist.append(('read_until', d, rng.choice(sizes), rng.random() < 0.5))
            elif t < 0.70:
                hist.append(('pipe_until', d, rng.random() < 0.5))
            elif t < 0.78:
                hist.append(('readline', rng.choice(sizes)) if kind == 'sync' else ('read', rng.choice(sizes)))
            elif t < 0.82:
                hist.append(('readlines', rng.choice(sizes)) if kind == 'sync' else ('iter',))
            elif t < 0.90:
                hist.append(('delimit', d))
            elif t < 0.95:
                hist.append(('endsub',))
            elif t < 0.98:
                hist.append(('pipe',))
            else:
                hist.append(('exhaust',))
        hist += [('endsub',), ('endsub',), ('read', -1)]
        if kind == 'sync':
            ch = [rng.randint(1, 7) for _ in range(rng.randint(1, 4))]
            ml = len(data) if rng.random() < 0.7 else rng.randint(0, len(data) + 2)
        else:
            ch = []
            left = len(data)
            while left > 0:
                kk = rng.randint(0, min(left, 7))
                ch.append(kk)
                left -= kk
            ml = len(data)
        record(kind, data, ml, cs, ch, hist, 'random')

    ctx.progress('leg B2 done: %d executions, %d distinct traces' % (ctx.evaluations, len(seen)))
    # ---- leg B3: beyond the join limit ------------------------------------------------------
    # both readers switch to another code path when the normalised size exceeds chunk_size * _MAX_JOIN_CHUNKS
    # (sync 128, async 1024 chunks); with chunk_size 1..2 that path is reached by data of a few hundred bytes
    import falcon.util.reader as _sr
    import falcon.asgi.reader as _ar
    joins = {'sync': getattr(_sr, '_MAX_JOIN_CHUNKS', 128), 'async': getattr(_ar, '_MAX_JOIN_CHUNKS', 1024)}
    for i in range(ctx.pick(360, 6000)):
        kind = 'sync' if i % 3 else 'async'
        cs = rng.randint(1, 2) if kind == 'sync' else 1
        lim = joins[kind] * cs
        cand = [d for d in all_delims if len(d) <= cs]
        d0 = rng.choice(cand)
        L = lim + rng.randint(1, 70)
        filler = bytes(rng.choice([X, X, X, B, LF]) if d0 != bytes([LF]) else X for _ in range(L))
        data = bytearray(filler)
        where = rng.choice(['none', 'far', 'far', 'near', 'edge', 'two'])
        spots = {'none': [], 'far': [rng.randint(lim - 2, L - len(d0))], 'near': [rng.randint(0, 6)],
                 'edge': [lim - len(d0) + rng.randint(0, len(d0))],
                 'two': [rng.randint(lim - 2, L - len(d0)), rng.randint(lim // 2, L - len(d0))]}[where]
        for sp in spots:
            sp = max(0, min(sp, L - len(d0)))
            data[sp:sp + len(d0)] = d0
        data = bytes(data)
        big = [-1, -1, lim + 1, lim + 2, lim, L, L + 5, L - 1, lim + 40]
        hist = []
        if rng.random() < 0.5:
            hist.append(rng.choice([('read', 1), ('peek', 2), ('read', cs), ('read_until', d0, 1, False)]))
        t = rng.random()
        if t < 0.55:
            hist.append(('read_until', d0, rng.choice(big), rng.random() < 0.6))
        elif t < 0.70:
            hist.append(('read', rng.choice(big)))
        elif t < 0.82:
            hist += [('delimit', d0), ('read_until', rng.choice(cand), rng.choice(big), rng.random() < 0.5)]
        elif t < 0.92:
            hist += [('delimit', d0), ('read', rng.choice(big))]
        else:
            hist.append(('pipe_until', d0, rng.random() < 0.5))
        hist += [('peek', len(d0)), ('read_until', d0, rng.choice([-1, 3, lim + 1]), rng.random() < 0.5),
                 ('endsub',), ('read', 2), ('read', -1)]
        if kind == 'sync':
            ch = [rng.choice([1, 2, 3, 7, 64, 200, L]) for _ in range(rng.randint(1, 3))]
        else:
            ch = []
            left = len(data)
            while left > 0:
                kk = min(left, rng.choice([1, 5, 64, 300, 1100]))
                ch.append(kk)
                left -= kk
        record(kind, data, len(data), cs, ch, hist, 'long')

    ctx.progress('leg B3 done: %d executions, %d distinct traces' % (ctx.evaluations, len(seen)))
    # ---- judge all distinct traces with TLC ---------------------------------------------------
    items = list(seen.values())
    traces = [t for t, _ in items]
    verdicts = ctx.judge('CursorTrace', traces, timeout=1800, workers=16)
    for (trace, case), v in zip(items, verdicts):
        if v != 'ok':
            clause = v.split('@')[0]
            ctx.violation(clause, {'case': case, 'trace': trace}, 'trace rejected by CursorTrace at event %s' % v)
    ctx.extra['distinct_traces_judged'] = len(traces)
    ctx.note('all chunkings of one (data, buffer size, history) collapse to one trace when the reader is correct; '
             '%d executions gave %d distinct traces' % (ctx.evaluations, len(traces)))


def replay(ctx, case):
    c = case.get('case', case)
    hist = [tuple(bytes(x) if isinstance(x, list) else x for x in op) for op in c['history']]
    trace, info = run_history(c['kind'], bytes(c['data']), c.get('maxlen', len(c['data'])), c['cs'], c['chunking'], hist)
    print('trace:', trace)
    print('info:', info)
    if info['exc']:
        ctx.violation('P:exception', c, info['exc'])
        return
    v = ctx.judge('CursorTrace', [trace], workers=1)[0]
    print('verdict:', v)
    if v != 'ok':
        ctx.violation(v.split('@')[0], c, 'trace rejected at %s' % v)
