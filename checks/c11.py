"""C11 - content negotiation and media-handler resolution follow the documented precedence.

spec:   spec/MediaTypesOps.tla  score tuple, Quality, BestIdx + the documented rule stated declaratively
        spec/MediaTypes.tla     negotiation cases as a state machine + invariants (C11a)
        spec/Handlers.tla       handler mapping + memoising resolver + mutation operations (C11b)
        spec/HandlersError.tla  the same mapping histories observed at error rendering (OfferedFollowsMapping, TypeAndBodyAgree:
                                the body is rendered by the handler the matching rule designates, +json/+xml fall-back) + MC_ / Trace
        spec/MC_MediaTypes.tla, spec/MC_Handlers.tla          bounded instances / behaviour export
        spec/MediaTypesTrace.tla, spec/HandlersTrace.tla      trace judges
legs:   M  exhaustive TLC checks of both designs (operational fold == documented rule; memo table
           never disagrees with the mapping), coverage guard, wrong-design switches (thorough)
        A  TLC decision table (every header of <= 2 ranges x every media type), TLC-simulated
           negotiation cases (<= 3 ranges x <= 3 candidates) and TLC-simulated mutation/resolution
           histories, replayed on falcon.mediatypes / Request.client_accepts / client_prefers /
           falcon.media.Handlers through Request.get_media, Response.render_body,
           Request.get_param_as_json and whole WSGI/ASGI requests
        B  seeded random headers from the media-range grammar and random longer handler histories
           run on the real code, judged by TLC (MediaTypesTrace, HandlersTrace)
The expected values always come from TLC; Python renders abstract headers to strings, drives
falcon and compares.
"""

META = {
    'property_id': 'C11',
    'design_ref': 'DESIGN.md section 4, C11',
    'technique': 'TLA+/TLC: model-checked negotiation rule and memoising-resolver design; TLC decision table and '
                 'simulated histories replayed on falcon; recorded calls judged by TLC trace specifications',
    'level_text': 'The documented 5-criteria specificity rule is stated declaratively in TLA+ and TLC proves the '
                  'fold-over-score-tuples design equal to it for every header of <= 2 ranges; the handler mapping design '
                  '(every mutation clears the memo table) is model-checked for all histories up to the depth bound. '
                  'The real falcon.mediatypes functions, Request.client_accepts/client_prefers and '
                  'falcon.media.Handlers (through get_media / render_body / get_param_as_json and whole requests on both '
                  'stacks) are compared with TLC-computed outcomes exhaustively at the small bound and judged by TLC on '
                  'seeded random headers and mutation histories beyond it.',
    'level_note': 'q position: every header of <= 2 ranges over 3 type forms x 0-2 parameters x q absent/0/0.5004 written first / '
                  'middle / last among the parameters (48 ranges, 2352 headers) x 6 candidates that carry / lack / differ in each parameter, '
                  'model-checked (QPositionIrrelevant; the design "q ends the parameters" is refuted) and replayed on quality / client_accepts / '
                  'best_match / client_prefers; positions also in the simulated and random headers and in content types handed to the resolver. '
                  'Mapping keys with parameters next to bare keys: exhaustive histories over {json, json;p=1, application/*} (plus */* and a second '
                  'type in simulated / random histories) resolved for content types AS WRITTEN (literal, otherwise spelled: blanks, quoting, '
                  'parameter case / order, empty trailing parameter; extra / differing parameters; q = 0 and 0.5 at every position): P:first demands '
                  'the first registered key of maximal positive quality whenever no key is literally equal; where a literally equal key exists the '
                  'shortcut must stay inside the keys of maximal positive quality (which of them: model detail, see assumptions). '
                  'Error bodies: mappings holding application/xml; charset=utf-8, application/json; charset=utf-8, application/*, */* next to the '
                  'literal keys, Accept headers reaching application/json, application/xml, text/xml and the +json / +xml fall-back (subtype only; '
                  'the substring test on parameters is not modelled), handler output H<id> vs built-in XML / framework JSON; the wrong design '
                  '"lookup by literal key" is refuted by TLC.  Type/subtype letter case and other spellings of */* as a content type stay outside. '
                  'Bounded: exhaustive for headers <= 2 ranges over a 2-3 type / 2-3 subtype / 2 parameter-name vocabulary, '
                  'simulation <= 3 ranges x 3 candidates, random <= 5 ranges x 5 candidates; handler histories exhaustive to '
                  'depth 3 (quick) / 4 (thorough) over 3 keys x 2 handlers x 2 objects, random to 30 operations. '
                  'Type/subtype case-insensitivity, commas inside quoted parameter values and q values that are not '
                  'multiples of 0.000001 are outside the generated grammar.  Handlers.__ior__ and copy() of an emptied mapping '
                  'are excluded (not part of the property).  LRU eviction (maxsize 64) is not modelled: it can only remove '
                  'memo entries.  Trusted: TLC, the header renderer of this file.',
}

import itertools
import json
import os
import random

from engine import bytesrc, drivers
from engine.core import MachineryError, digest

# ---------------------------------------------------------------------------------------------
# abstract syntax -> strings (the harness' only job besides driving and comparing)
# ---------------------------------------------------------------------------------------------
TYPES = {'a': 'application', 'b': 'text', 'c': 'image', 'e': 'x-app', '*': '*'}
SUBS = {'x': 'json', 'y': 'plain', 'z': 'png', 'w': 'vnd.v1+json', 'v': 'vnd.v1+xml', 'm': 'xml', '*': '*'}
SEMI = [';', ';', '; ', '; ', ' ;', ' ; ', ';\t', ';  ']
COMMA = [',', ',', ', ', ', ', ' ,', ' , ', ',\t']
BADQ = ['abc', '2', '1.5', '-0.5', '1.001', '', 'inf', 'nan', '0.5.5', '-1', '1.0.0', '0x1', 'q']
NOSLASH_BLANK = ['', ' ']
NOSLASH = ['application', 'json', 'text;q=0.5', 'application;p=1', 'applicationjson', 'text\\plain']
NOKEY = {'t': '', 's': '', 'pm': []}


def W(m, q=-1, qp=None, lit=True):
    """a content type AS WRITTEN (Handlers!WCT): media type + q (millionths, -1 absent) at position qp + literal spelling"""
    return {'t': m['t'], 's': m['s'], 'pm': [dict(n=p['n'], v=p['v']) for p in m['pm']], 'q': q,
            'qp': len(m['pm']) if qp is None else qp, 'lit': bool(lit and q == -1)}


NOTYPE = W({'t': '-', 's': '-', 'pm': []})
NOCT = W(NOKEY)


def canon(m):
    """canonical spelling of a media type (used for mapping keys and content types)"""
    return TYPES[m['t']] + '/' + SUBS[m['s']] + ''.join('; %s=%s' % (p['n'], p['v']) for p in m['pm'])


def render_q(q, rng):
    if q == -1:
        return None
    if q == -2:
        return rng.choice(BADQ)
    # q is in millionths; written with as many digits as it needs plus 0..n padding zeros (0-7 digits in all)
    if q == QONE:
        return rng.choice(['1', '1.', '1.0', '1.00', '1.000', '1.0000', '1.000000'])
    base = ('%06d' % q).rstrip('0')
    if not base:
        return rng.choice(['0', '0.', '0.0', '0.00', '0.000', '0.0000', '0.000000'])
    return '0.' + base + '0' * rng.randint(0, 7 - len(base))


def render_params(pm, rng, q=None, vary=True, qp=None):
    """qp: the number of parameters written before q (None = q last), as the abstract range says"""
    items = list(pm)
    if vary and len(items) > 1 and rng.random() < 0.4:
        rng.shuffle(items)
    parts = []
    for p in items:
        n = p['n'].upper() if vary and rng.random() < 0.15 else p['n']
        v = '"%s"' % p['v'] if vary and rng.random() < 0.25 else p['v']
        parts.append(n + '=' + v)
    if q is not None:
        parts.insert(len(parts) if qp is None else qp, ('Q' if vary and rng.random() < 0.1 else 'q') + '=' + q)
    return ''.join((rng.choice(SEMI) if vary else '; ') + x for x in parts)


def render_range(r, rng, allow_blank):
    if r['t'] == '!':
        return rng.choice(NOSLASH_BLANK + NOSLASH) if allow_blank else rng.choice(NOSLASH)
    return TYPES[r['t']] + '/' + SUBS[r['s']] + render_params(r['pm'], rng, render_q(r['q'], rng), qp=r.get('qp'))


def render_header(hdr, rng):
    """One string of the Accept grammar denoting the abstract header (seeded syntactic variation:
    OWS, quoted parameter values, parameter order and name case, q with 0-4 digits)."""
    s = rng.choice(COMMA).join(render_range(r, rng, len(hdr) > 1) for r in hdr)
    return s


def render_ct(ct, rng, blanks=False):
    """the string a written content type stands for: its canonical spelling when lit, otherwise some OTHER spelling of
    the same media type (no blank after ';', blanks before it, quoted / re-cased / reordered parameters, empty trailing
    parameter, surrounding blanks where the caller can deliver them), with the q parameter at position qp"""
    base = canon(ct)
    if ct['lit'] and ct['q'] == -1:
        return base
    q = render_q(ct['q'], rng) if ct['q'] != -1 else None
    for _ in range(20):
        s = TYPES[ct['t']] + '/' + SUBS[ct['s']] + render_params(ct['pm'], rng, q, qp=ct['qp'] if q is not None else None)
        if rng.random() < 0.25:
            s += rng.choice((';', ' ;', '; '))
        if blanks and rng.random() < 0.3:
            s = rng.choice((' ' + s, s + ' ', '  ' + s + '\t'))
        if s != base:
            return s
    return base.replace('; ', ';') if ct['pm'] else base + ';'


def render_type(m, rng, vary=True):
    if not vary or rng.random() < 0.5:
        return canon(m)
    return TYPES[m['t']] + '/' + SUBS[m['s']] + render_params(m['pm'], rng)


# ---------------------------------------------------------------------------------------------
# driving falcon: negotiation
# ---------------------------------------------------------------------------------------------
def _exc_kind(ex):
    from falcon.errors import InvalidMediaType
    # "the documented value errors": InvalidMediaRange / InvalidMediaType (ValueError subclasses)
    return 'value' if isinstance(ex, InvalidMediaType) else 'other'


QONE = 1000000


def _millionths(q):
    qi = int(round(q * QONE))
    if abs(q * QONE - qi) > 1e-4:
        return -7          # not a multiple of 0.000001: cannot be what the header said
    return qi


def make_request(header, kind):
    """A real Request object carrying `header` as its Accept header (server strips OWS)."""
    import falcon
    import falcon.asgi
    req = drivers.Req(headers=[('Accept', header.strip())])
    if kind == 'wsgi':
        return falcon.Request(drivers.environ(req))

    async def receive():
        return {'type': 'http.request', 'body': b'', 'more_body': False}
    return falcon.asgi.Request(drivers.scope(req), receive)


def call_quality(mstr, header):
    from falcon.util import mediatypes
    try:
        return _millionths(mediatypes.quality(mstr, header)), 'none', None
    except Exception as ex:  # noqa
        return 0, _exc_kind(ex), repr(ex)


def _index(cstrs, got):
    if not got:
        return 0
    return cstrs.index(got) + 1 if got in cstrs else -1


def call_best(cstrs, header):
    from falcon.util import mediatypes
    try:
        return _index(cstrs, mediatypes.best_match(list(cstrs), header)), 'none', None
    except Exception as ex:  # noqa
        return 0, _exc_kind(ex), repr(ex)


def call_accepts(req, mstr):
    try:
        r = req.client_accepts(mstr)
        return (1 if r is True else 0 if r is False else -1), 'none', None
    except Exception as ex:  # noqa
        return 0, _exc_kind(ex), repr(ex)


def call_prefers(req, cstrs):
    try:
        r = req.client_prefers(list(cstrs))
        return _index(cstrs, r), 'none', None
    except Exception as ex:  # noqa
        return 0, _exc_kind(ex), repr(ex)


def compare_outcome(ctx, op, exp, got, case, malformed):
    """exp: the record TLC printed ([err, v]); got: (res, exc kind, repr).  P/D split as in
    MediaTypesTrace: on a malformed header only the exception type is demanded."""
    res, exc, info = got
    if exc == 'other':
        ctx.violation('P:exc', case, '%s raised %s (only InvalidMediaType/InvalidMediaRange are documented)' % (op, info))
    elif malformed:
        if op in ('accepts', 'prefers') and exc != 'none':
            ctx.violation('P:exc', case, '%s raised %s' % (op, info))
        elif exp['err'] != (exc == 'value') or (not exp['err'] and res != exp['v']):
            ctx.detail('D:malformed', case, '%s on a malformed header: spec %r, falcon res=%r exc=%s' % (op, exp, res, exc))
    elif exc != 'none':
        ctx.violation('P:rejected', case, '%s rejected a well-formed header: %s' % (op, info))
    elif res != exp['v']:
        ctx.violation('P:' + op, case, '%s: spec says %r, falcon gave %r' % (op, exp['v'], res))


def is_malformed(hdr):
    # purely syntactic flag copied from the abstract header TLC produced (never decides a verdict
    # by itself: TLC's err/v fields do)
    return any(r['t'] == '!' or r['q'] == -2 for r in hdr)


# ---------------------------------------------------------------------------------------------
# driving falcon: handler mappings
# ---------------------------------------------------------------------------------------------
_HCLS = []


def handler_cls():
    if not _HCLS:
        from falcon.media import BaseHandler

        class Sentinel(BaseHandler):
            """A handler that only says who it is."""

            def __init__(self, hid):
                self.hid = hid

            def serialize(self, media, content_type=None):
                return b'H%d' % self.hid

            def deserialize(self, stream, content_type, content_length):
                stream.read()
                return ('H', self.hid)

            def __repr__(self):
                return 'H%d' % self.hid
        _HCLS.append(Sentinel)
    return _HCLS[0]


class Boom(Exception):
    """the caller's own failure inside a bulk update"""


ROUTES = ('wreq', 'areq', 'wresp', 'aresp', 'wapp', 'aapp')


class HRun:
    """Real falcon.media.Handlers objects driven through their public mapping API; resolutions
    are observed where falcon itself resolves (get_media, render_body, get_param_as_json)."""

    def __init__(self, init_map, rng=None):
        import falcon
        import falcon.asgi
        from falcon.media import Handlers
        self.falcon = falcon
        self.hobjs = {}
        self.abst = {}
        self.rng = rng or random.Random(0)
        self.spelled = None
        self.objs = [Handlers(dict((self.key(e['k']), self.hobj(e['h'])) for e in init_map))]
        self.apps = {}

    def key(self, m):
        s = canon(m)
        self.abst[s] = {'t': m['t'], 's': m['s'], 'pm': [dict(n=p['n'], v=p['v']) for p in m['pm']]}
        return s

    def hobj(self, hid):
        if hid not in self.hobjs:
            self.hobjs[hid] = handler_cls()(hid)
        return self.hobjs[hid]

    def view(self, o):
        out = []
        for k, v in list(self.objs[o - 1].items()):
            out.append({'k': self.abst.get(k, {'t': '?', 's': str(k), 'pm': []}), 'h': getattr(v, 'hid', -1)})
        return out

    # -- one resolution, through the place falcon resolves at ---------------------------------
    def resolve(self, o, ct, d, r, route):
        falcon = self.falcon
        H = self.objs[o - 1]
        cts = None if ct['t'] == '-' else render_ct(ct, self.rng, blanks=route in ('wresp', 'aresp'))
        self.spelled = cts
        ds = canon(d)
        body = b'{"probe": 1}'
        hs = [] if cts is None else [('Content-Type', cts)]

        def classify(val):
            if isinstance(val, tuple) and len(val) == 2 and val[0] == 'H':
                return val[1]
            raise AssertionError('unexpected media value %r' % (val,))

        if not r:
            # raise_not_found=False is what get_param_as_json uses (for application/json only)
            ro = falcon.RequestOptions()
            ro.media_handlers = H
            req = falcon.Request(drivers.environ(drivers.Req(query=b'j=1')), options=ro)
            val = req.get_param_as_json('j')
            return (0 if val == 1 else classify(val)), 'none'
        try:
            if route == 'wreq':
                ro = falcon.RequestOptions()
                ro.media_handlers, ro.default_media_type = H, ds
                req = falcon.Request(drivers.environ(drivers.Req('POST', headers=hs, body=body)), options=ro)
                return classify(req.get_media()), 'none'
            if route == 'areq':
                ro = falcon.RequestOptions()
                ro.media_handlers, ro.default_media_type = H, ds
                rq = drivers.Req('POST', headers=hs, body=body)
                evs = drivers.body_events(rq)

                async def receive():
                    return evs.pop(0) if evs else {'type': 'http.disconnect'}
                req = falcon.asgi.Request(drivers.scope(rq), receive, options=ro)
                return classify(bytesrc.drive(req.get_media())), 'none'
            if route in ('wresp', 'aresp'):
                po = falcon.ResponseOptions()
                po.media_handlers, po.default_media_type = H, ds
                resp = (falcon.Response if route == 'wresp' else falcon.asgi.Response)(options=po)
                if cts is not None:
                    resp.content_type = cts
                resp.media = {'probe': 1}
                data = resp.render_body() if route == 'wresp' else bytesrc.drive(resp.render_body())
                if not (isinstance(data, bytes) and data[:1] == b'H'):
                    raise AssertionError('unexpected rendered media %r' % (data,))
                return int(data[1:]), 'none'
            # whole request through an App
            app = self.app(o, route)
            app.req_options.default_media_type = ds
            rq = drivers.Req('POST', target=b'/m', headers=hs, body=body, chunks=[5] if route == 'aapp' else None)
            res = drivers.wsgi_call(app, rq) if route == 'wapp' else drivers.asgi_call(app, rq)
            if res.exc is not None or res.errors:
                raise AssertionError('request failed: %r %r' % (res.exc, res.errors))
            if res.status == 415:
                return 0, '415'
            if res.status != 200 or res.body[:1] != b'H':
                raise AssertionError('unexpected response %r %r' % (res.status, res.body))
            return int(res.body[1:]), 'none'
        except falcon.HTTPUnsupportedMediaType:
            return 0, '415'

    def app(self, o, route):
        if (o, route) not in self.apps:
            falcon = self.falcon
            if route == 'wapp':
                class Res:
                    def on_post(self, req, resp):
                        resp.content_type = 'text/plain'
                        resp.text = 'H%d' % req.get_media()[1]
                app = falcon.App()
            else:
                class Res:
                    async def on_post(self, req, resp):
                        resp.content_type = 'text/plain'
                        resp.text = 'H%d' % (await req.get_media())[1]
                import falcon.asgi
                app = falcon.asgi.App()
            app.req_options.media_handlers = self.objs[o - 1]
            app.add_route('/m', Res())
            self.apps[(o, route)] = app
        return self.apps[(o, route)]

    # -- one call ---------------------------------------------------------------------------
    def apply(self, c, route='wreq'):
        """c: abstract call [op, o, k, h, pairs, ct, d, r].  Returns the logged event."""
        op, o = c['op'], c['o']
        ev = {'op': op, 'o': o, 'k': c.get('k', NOKEY), 'h': c.get('h', 0), 'pairs': c.get('pairs', []),
              'ct': c.get('ct', NOCT), 'd': c.get('d', NOKEY), 'r': bool(c.get('r', False)),
              'res': 0, 'exc': 'none', 'map': [], 'via': ''}
        H = self.objs[o - 1]
        vo = o
        try:
            if op == 'set':
                H[self.key(c['k'])] = self.hobj(c['h'])
            elif op == 'del':
                try:
                    del H[self.key(c['k'])]
                except KeyError:
                    ev['exc'] = 'keyerror'
            elif op == 'pop':
                try:
                    got = H.pop(self.key(c['k']), None) if c['r'] else H.pop(self.key(c['k']))
                    ev['res'] = 0 if got is None else got.hid
                except KeyError:
                    ev['exc'] = 'keyerror'
            elif op == 'update':
                H.update([(self.key(p['k']), self.hobj(p['h'])) for p in c['pairs']])
            elif op == 'updatefail':
                # a bulk update that fails after the given pairs were handed over: the iterable raises, or
                # the next pair is malformed.  The caller's exception must come back out.
                good = [(self.key(p['k']), self.hobj(p['h'])) for p in c['pairs']]
                mode = (len(good) + c['o'] + len(self.abst)) % 3

                def gen():
                    for kv in good:
                        yield kv
                    raise Boom()
                try:
                    if mode == 0:
                        H.update(gen())
                    elif mode == 1:
                        H.update(good + [('text/x-malformed-pair',)])
                    else:
                        H.update(iter(good + [None]))
                except Boom:
                    ev['exc'] = 'raised'
                except (ValueError, TypeError):
                    ev['exc'] = 'raised' if mode != 0 else 'other'
                ev['mode'] = mode
            elif op == 'clear':
                H.clear()
            elif op == 'setdefault':
                ev['res'] = H.setdefault(self.key(c['k']), self.hobj(c['h'])).hid
            elif op == 'copy':
                self.objs.append(H.copy())
                vo = len(self.objs)
                ev['res'] = vo
            elif op == 'resolve':
                ev['via'] = route if c['r'] else 'param_json'
                ev['res'], ev['exc'] = self.resolve(o, c['ct'], c['d'], c['r'], route)
                ev['spelled'] = self.spelled or ''
            else:
                raise MachineryError('unknown op %r' % (op,))
        except (MachineryError, AssertionError):
            raise
        except Exception as ex:  # noqa - anything else escaping the mapping API / the resolver
            ev['exc'] = 'other'
            ev['info'] = repr(ex)
        ev['map'] = self.view(vo)
        return ev


def spec_call(rec):
    """TLC's record of a call (Handlers!Rec) -> abstract call for HRun.apply"""
    return {'op': rec['op'], 'o': rec['o'], 'k': rec['k'], 'h': rec['h'], 'pairs': rec['pairs'], 'ct': rec['ct'],
            'd': rec['d'], 'r': rec['r']}


def local_judge(ctx, module, traces, chunk=3000, workers=8, timeout=900):
    """ctx.judge + the 4th VERDICT field (a per-trace count printed by the judge)."""
    verdicts, counts = [], []
    for off in range(0, len(traces), chunk):
        part = traces[off:off + chunk]
        path = os.path.join(ctx.scratch, 'traces-%s-%d.json' % (module, off))
        with open(path, 'w') as f:
            json.dump(part, f)
        r = ctx.tlc(module, None, env={'TRACE_FILE': path}, workers=workers, timeout=timeout)
        got = {}
        for t, fields in r.tuples:
            if t == 'VERDICT' and len(fields) >= 3:
                got[fields[0]] = fields[1:]
        for i in range(len(part)):
            if i + 1 not in got:
                raise MachineryError('judge %s printed no verdict for trace %d\n%s' % (module, i + 1, r.out[-2000:]))
            f = got[i + 1]
            verdicts.append(f[0] if f[0] == 'ok' else '%s@%d' % (f[0], f[1]))
            counts.append(f[2] if len(f) > 2 else 0)
        os.unlink(path)
    ctx.traces_validated += len(traces)
    return verdicts, counts


# ---------------------------------------------------------------------------------------------
def leg_m(ctx):
    q = ctx.quick
    # C11a: every header of <= 2 ranges x every media type.  Coverage statistics triple TLC's run time,
    # so the per-action guard runs on the one-range instance and the exhaustive run is guarded by its
    # state count, which must be exactly (#headers) * (1 + #types).
    rc = ctx.tlc('MC_MediaTypes', 'MC_MediaTypesCov.cfg', coverage=True, timeout=600, workers=8)
    ctx.require_coverage(rc, ['AddRange', 'AddCand'])
    r = ctx.tlc('MC_MediaTypes', 'MC_MediaTypesQ.cfg' if q else 'MC_MediaTypes.cfg', timeout=1500, workers=16)
    nr, nt = (92, 12) if q else (218, 30)
    want = 1 + (nr + nr * nr) * (1 + nt)
    if r.distinct != want:
        raise MachineryError('MC_MediaTypes explored %d states, expected %d (vacuity guard)' % (r.distinct, want))
    ctx.extra['mediatypes_exhaustive'] = {'ranges': nr, 'media_types': nt, 'headers': nr + nr * nr, 'states': r.distinct}
    # q at every position among the parameters of a range (first / middle / last): the fold equals the documented
    # rule, the position is irrelevant (QPositionIrrelevant); the design "q ends the media-type parameters" is refuted
    rp = ctx.tlc('MC_MediaTypes', 'MC_MediaTypesP.cfg', timeout=600, workers=6)
    if rp.distinct != 1 + (48 + 48 * 48) * (1 + 6):
        raise MachineryError('MC_MediaTypesP explored %d states (vacuity guard)' % rp.distinct)
    rw = ctx.tlc('MC_MediaTypes', 'MC_MediaTypesWP.cfg', must_hold=False, count=False, timeout=600, workers=4)
    if not rw.violated:
        raise MachineryError('wrong-design switch QSplits=TRUE did not violate any invariant')
    ctx.extra['q_position_exhaustive'] = {'ranges': 48, 'media_types': 6, 'states': rp.distinct, 'wrong_design_caught': rw.violated}
    ctx.progress('leg M mediatypes done (%d + %d states)' % (r.distinct, rp.distinct))
    # C11b: all histories up to the depth bound
    rh = ctx.tlc('MC_Handlers', 'MC_HandlersD3.cfg', coverage=True, timeout=900, workers=8)
    ctx.require_coverage(rh, ['MSet', 'MSetDefault', 'MDel', 'MPop', 'MUpdate', 'MUpdateFail', 'MClear', 'MCopy', 'MResolve'])
    if not q:
        ctx.tlc('MC_Handlers', 'MC_HandlersQ.cfg', timeout=1500, workers=16)
        # the literal-key shortcut never leaves the keys of maximal positive quality, for every content type of the vocabulary
        # in every reachable mapping (a universally quantified invariant: too slow under coverage statistics, hence its own run)
        ctx.tlc('MC_Handlers', 'MC_HandlersD3S.cfg', timeout=1500, workers=8)
        # wrong designs must be caught by the model (vacuity of the invariants)
        for mod, cfg, inv in (('MC_MediaTypes', 'MC_MediaTypesW1.cfg', 'SpecificityOrder'),
                              ('MC_MediaTypes', 'MC_MediaTypesW2.cfg', 'BestIsFirstMax'),
                              ('MC_Handlers', 'MC_HandlersW1.cfg', None), ('MC_Handlers', 'MC_HandlersW2.cfg', None)):
            rw = ctx.tlc(mod, cfg, must_hold=False, count=False, timeout=600, workers=4)
            if not rw.violated:
                raise MachineryError('wrong-design switch %s did not violate any invariant' % cfg)
        ctx.extra['wrong_design_switches_caught'] = 4
        # the strict reading "ALWAYS the first registered key of highest quality" does not hold for the literal-key shortcut design:
        # TLC must find the counterexample (documented model detail, see assumptions)
        rs = ctx.tlc('MC_Handlers', 'MC_HandlersStrict.cfg', must_hold=False, count=False, timeout=600, workers=4)
        ctx.extra['strict_first_registered_refuted_for_shortcut_design'] = bool(rs.violated)
    # the wrong design "bare type/subtype key tried before the matching rule" must violate the invariants
    r3 = ctx.tlc('MC_Handlers', 'MC_HandlersW3.cfg', must_hold=False, count=False, timeout=600, workers=4)
    if not r3.violated:
        raise MachineryError('wrong-design switch BareKeyShortcut=TRUE did not violate any invariant')
    ctx.extra['bare_key_shortcut_refuted_by'] = r3.violated
    ctx.progress('leg M handlers done')


def q_inside(hdr):
    """ranges of the header whose q is written before at least one other parameter"""
    return sum(1 for r in hdr if r['q'] != -1 and r.get('qp', len(r['pm'])) < len(r['pm']))


def leg_a_table(ctx, positions=False):
    q = ctx.quick
    rng = ctx.rng
    cfg = 'MC_MediaTypesTabP.cfg' if positions else 'MC_MediaTypesTabQ.cfg' if q else 'MC_MediaTypesTab.cfg'
    r = ctx.tlc('MC_MediaTypes', cfg, timeout=900, workers=4, count=False)
    allm = [j['allm'] for j in r.json if 'allm' in j]
    rows = {digest(j['hdr']): j for j in r.json if 'hdr' in j}
    if not allm or len(rows) != ((48 + 48 * 48) if positions else (92 + 92 * 92) if q else (218 + 218 * 218)):
        raise MachineryError('decision table %s incomplete: %d rows' % (cfg, len(rows)))
    allm = allm[0]
    n = 0
    if positions:
        return leg_a_positions(ctx, rows, allm)
    for k, (key, row) in enumerate(rows.items()):
        hdr = row['hdr']
        header = render_header(hdr, rng)
        bad = is_malformed(hdr)
        req = make_request(header, 'wsgi' if k % 2 else 'asgi')
        for i, m in enumerate(allm):
            mstr = render_type(m, rng)
            case = {'leg': 'A-table', 'hdr': hdr, 'header': header, 'type': mstr}
            ctx.case(case, nontrivial=row['nm'][i] >= 2, key=(key, i))
            compare_outcome(ctx, 'quality', row['q'][i], call_quality(mstr, header), case, bad)
            compare_outcome(ctx, 'accepts', {'err': False, 'v': row['acc'][i]}, call_accepts(req, mstr), case, bad)
            n += 1
    ctx.traces_validated += n
    ctx.extra['table_rows'] = len(rows)
    ctx.extra['table_cells'] = n
    ctx.progress('leg A table done: %d headers x %d types' % (len(rows), len(allm)))


def leg_a_positions(ctx, rows, allm):
    """every header of <= 2 ranges over the position vocabulary (q first / middle / last among 0-2 parameters) x every
    candidate of one type that carries / lacks / differs in the parameters: quality, client_accepts per cell, best_match
    and client_prefers over the whole candidate row (expected index = first maximal positive quality of TLC's row)"""
    rng = ctx.rng
    n = inside = 0
    for k, (key, row) in enumerate(rows.items()):
        hdr = row['hdr']
        header = render_header(hdr, rng)
        bad = is_malformed(hdr)
        qi = q_inside(hdr)
        req = make_request(header, 'wsgi' if k % 2 else 'asgi')
        cstrs = [render_type(m, rng) for m in allm]
        for i, m in enumerate(allm):
            case = {'leg': 'A-positions', 'hdr': hdr, 'header': header, 'type': cstrs[i]}
            ctx.case(case, nontrivial=qi > 0 and row['nm'][i] >= 1, key=('pos', key, i))
            compare_outcome(ctx, 'quality', row['q'][i], call_quality(cstrs[i], header), case, bad)
            compare_outcome(ctx, 'accepts', {'err': False, 'v': row['acc'][i]}, call_accepts(req, cstrs[i]), case, bad)
            n += 1
            inside += 1 if qi and row['nm'][i] >= 1 else 0
        if len(set(cstrs)) == len(cstrs):
            case = {'leg': 'A-positions', 'hdr': hdr, 'cands': allm, 'header': header, 'candidates': cstrs}
            compare_outcome(ctx, 'best', row['best'], call_best(cstrs, header), case, bad)
            compare_outcome(ctx, 'prefers', row['pref'], call_prefers(req, cstrs), case, bad)
    ctx.traces_validated += n
    ctx.extra['q_position_table'] = {'headers': len(rows), 'cells': n, 'cells_with_q_before_a_parameter_and_a_match': inside}
    if inside < 1000:
        raise MachineryError('position table exercises q inside the parameters only %d times' % inside)
    ctx.progress('leg A positions done: %d headers x %d types (%d cells with q before a parameter)' % (len(rows), len(allm), inside))


def leg_a_cases(ctx):
    rng = ctx.rng
    r = ctx.tlc('MC_MediaTypes', 'MC_MediaTypesS.cfg', simulate={'num': ctx.pick(400, 5000)}, depth=6, seed=ctx.seed + 11,
                workers=4, timeout=900, count=False)
    cases = {digest([j['hdr'], j['cands']]): j for j in r.json if 'cands' in j}
    for k, (key, c) in enumerate(list(cases.items())[:ctx.pick(6000, 60000)]):
        hdr, cands = c['hdr'], c['cands']
        header = render_header(hdr, rng)
        cstrs = [render_type(m, rng) for m in cands]
        bad = is_malformed(hdr)
        case = {'leg': 'A-cases', 'hdr': hdr, 'cands': cands, 'header': header, 'candidates': cstrs}
        ctx.case(case, nontrivial=max(c['nmatch']) >= 2, key=key)
        for i, ms in enumerate(cstrs):
            compare_outcome(ctx, 'quality', c['q'][i], call_quality(ms, header), case, bad)
        compare_outcome(ctx, 'best', c['best'], call_best(cstrs, header), case, bad)
        req = make_request(header, 'wsgi' if k % 2 else 'asgi')
        compare_outcome(ctx, 'prefers', c['pref'], call_prefers(req, cstrs), case, bad)
    ctx.traces_validated += min(len(cases), ctx.pick(6000, 60000))
    ctx.extra['simulated_negotiation_cases'] = min(len(cases), ctx.pick(6000, 60000))
    ctx.progress('leg A cases done: %d' % len(cases))


def judge_handler_event(ctx, ev, want_call, want_map, want_ds, case, st=None):
    """leg A: compare one real call with what TLC's behaviour says (P/D split as in HandlersTrace)."""
    if ev['exc'] == 'other' or (ev['exc'] == 'raised') != (ev['op'] == 'updatefail'):
        ctx.violation('P:exc', case, '%s: exc=%s %s' % (ev['op'], ev['exc'], ev.get('info')))
        return False
    if ev['op'] == 'resolve':
        ds = set(want_ds)
        if ev['res'] != 0 and ev['res'] not in ds:
            ctx.violation('P:stale', case, 'resolve(%s, default %s) gave handler %d; the current mapping designates %s'
                          % (canon(ev['ct']) if ev['ct']['t'] != '-' else None, canon(ev['d']), ev['res'], sorted(ds) or 'none'))
            return False
        if (ev['res'] == 0) != (not ds) or (ev['exc'] == '415') != (ev['res'] == 0 and ev['r']):
            ctx.violation('P:415', case, 'resolve gave res=%d exc=%s; designated %s' % (ev['res'], ev['exc'], sorted(ds)))
            return False
        if st is not None and ev['res'] != 0 and not st['sc'] and ev['res'] != st['rule']:
            ctx.violation('P:first', case, 'resolve(%r, default %s) gave handler %d; no key is literally equal, and the first registered key of '
                          'highest quality carries handler %d' % (ev.get('spelled'), canon(ev['d']), ev['res'], st['rule']))
            return False
        if ev['res'] != want_call['res']:
            ctx.detail('D:which', case, 'resolve gave %d, model picks %d' % (ev['res'], want_call['res']))
    elif ev['op'] in ('pop', 'setdefault', 'copy') and ev['res'] != want_call['res']:
        ctx.detail('D:ret', case, '%s returned %r, model %r' % (ev['op'], ev['res'], want_call['res']))
    elif ev['op'] in ('pop', 'del') and (ev['exc'] == 'keyerror') != want_call['err']:
        ctx.detail('D:ret', case, '%s KeyError=%s, model %s' % (ev['op'], ev['exc'], want_call['err']))
    if ev['map'] != want_map:
        ctx.detail('D:map', case, 'mapping after %s: %r, model %r' % (ev['op'], ev['map'], want_map))
        return False
    return True


def norm_map(m):
    return [{'k': {'t': e['k']['t'], 's': e['k']['s'], 'pm': [dict(n=p['n'], v=p['v']) for p in e['k']['pm']]}, 'h': e['h']}
            for e in m]


def leg_a_handlers(ctx):
    r = ctx.tlc('MC_Handlers', 'MC_HandlersSim.cfg', simulate={'num': ctx.pick(80, 800)}, depth=11, seed=ctx.seed + 12,
                workers=4, timeout=900, count=False)
    behs = {digest(j): j for j in r.json if 'ev' in j}
    n = informative = 0
    for bi, (key, b) in enumerate(list(behs.items())[:ctx.pick(5000, 40000)]):
        evs = b['ev']
        run = HRun(evs[0]['maps'][0], ctx.rng)
        mutated = False
        nontrivial = False
        routes = []
        case = {'leg': 'A-handlers', 'behaviour': evs, 'routes': routes}
        for si, st in enumerate(evs[1:]):
            call = st['call']
            c = spec_call(call)
            route = ROUTES[(bi + si) % len(ROUTES)] if (bi + si) % 3 == 0 else ROUTES[(bi + si) % 4]
            routes.append(route)
            ev = run.apply(c, route)
            if c['op'] == 'resolve':
                nontrivial = nontrivial or mutated
            else:
                mutated = True
            o = ev['res'] if c['op'] == 'copy' else c['o']
            if c['op'] == 'resolve' and not st['sc'] and len(st['ds']) >= 2:
                informative += 1
            if not judge_handler_event(ctx, ev, call, norm_map(st['maps'][o - 1]), st['ds'], dict(case, step=si + 1, event=ev), st):
                break
        ctx.case(case, nontrivial=nontrivial, key=key)
        n += 1
    ctx.traces_validated += n
    ctx.extra['simulated_handler_histories'] = n
    ctx.extra['simulated_resolutions_only_first_of_best_decides'] = informative
    if informative < 50:
        raise MachineryError('simulated handler histories hold only %d resolutions where several keys tie (vacuity guard)' % informative)
    ctx.progress('leg A handlers done: %d histories' % n)


# ---------------------------------------------------------------------------------------------
def rand_pm(rng, names='prs', vals='123'):
    return [{'n': n, 'v': rng.choice(vals)} for n in names if rng.random() < 0.3]


def rand_ts(rng, wild=0.25):
    t = rng.choice('aaabce') if rng.random() > wild else '*'
    if t == '*':
        s = '*' if rng.random() < 0.8 else rng.choice('xy')
    else:
        s = rng.choice('xxxyzw') if rng.random() > wild else '*'
    return t, s


def rand_range(rng):
    u = rng.random()
    if u < 0.03:
        return {'t': '!', 's': '!', 'pm': [], 'q': -1}
    t, s = rand_ts(rng)
    u = rng.random()
    q = -1 if u < 0.3 else -2 if u < 0.34 else 0 if u < 0.45 else QONE if u < 0.52 else 500000 if u < 0.58 else \
        1000 * rng.randrange(1, 1000) if u < 0.75 else \
        rng.choice((100, 400, 490, 499, 500, 1000, 500100, 500400, 999900, 999999, 1, 123456)) if u < 0.9 else rng.randrange(1, QONE)
    pm = rand_pm(rng)
    return {'t': t, 's': s, 'pm': pm, 'q': q, 'qp': len(pm) if q == -1 else rng.randint(0, len(pm))}


def rand_type(rng):
    t, s = rand_ts(rng, wild=0.08)
    return {'t': t, 's': s, 'pm': rand_pm(rng)}


def leg_b_negotiation(ctx):
    rng = ctx.rng
    ntraces = ctx.pick(300, 6000)
    traces = []
    for ti in range(ntraces):
        evs = []
        for _ in range(20):
            # a header is reused for a few calls so that the lru caches are hit as well as missed
            if not evs or rng.random() < 0.6:
                hdr = [rand_range(rng) for _ in range(rng.choice((1, 1, 2, 2, 3, 3, 4, 5)))]
                if rng.random() < 0.25:       # duplicates / near-duplicates differing in q or parameters
                    d = dict(rng.choice(hdr))
                    if rng.random() < 0.5 and d['t'] != '!':
                        d['q'] = rng.choice((-1, 0, 400, 500000, d['q'] + 300 if 0 <= d['q'] < QONE - 300 else 0, QONE))
                    hdr.insert(rng.randrange(len(hdr) + 1), d)
                header = render_header(hdr, rng)
                req = make_request(header, rng.choice(('wsgi', 'asgi')))
                # candidates biased towards what the header mentions
                pool = [{'t': r['t'], 's': r['s'], 'pm': list(r['pm'])} for r in hdr if r['t'] not in '!*' and r['s'] != '*']
            cands = []
            for _ in range(rng.choice((1, 1, 2, 3, 4, 5))):
                if pool and rng.random() < 0.6:
                    m = dict(rng.choice(pool))
                    if rng.random() < 0.4:
                        m['pm'] = rand_pm(rng)
                    cands.append(m)
                else:
                    cands.append(rand_type(rng))
            op = rng.choice(('quality', 'accepts', 'best', 'prefers', 'best', 'prefers'))
            if op in ('quality', 'accepts'):
                cands = cands[:1]
            cstrs = [render_type(m, rng) for m in cands]
            if len(set(cstrs)) != len(cstrs):
                continue
            if op == 'quality':
                res, exc, info = call_quality(cstrs[0], header)
            elif op == 'accepts':
                res, exc, info = call_accepts(req, cstrs[0])
            elif op == 'best':
                res, exc, info = call_best(cstrs, header)
            else:
                res, exc, info = call_prefers(req, cstrs)
            evs.append({'op': op, 'hdr': hdr, 'cands': cands, 'res': res, 'exc': exc,
                        'header': header, 'candidates': cstrs, 'info': info or ''})
        traces.append({'ev': evs})
    verdicts, counts = local_judge(ctx, 'MediaTypesTrace', traces)
    for ti, (t, v, c) in enumerate(zip(traces, verdicts, counts)):
        ctx.case({'leg': 'B-negotiation', 'trace': t['ev'][:3]}, nontrivial=c > 0, key=('bn', ti), n=len(t['ev']))
        if c > 0:
            ctx.nontrivial.update(('bn', ti, i) for i in range(c))      # c events with >= 2 matching ranges
        if v == 'ok':
            continue
        clause, at = v.split('@')
        if clause.startswith('D:'):
            cl, idx = clause.split('#')
            ctx.detail(cl, t['ev'][int(idx) - 1], 'negotiation event judged %s' % clause)
        else:
            e = t['ev'][int(at) - 1]
            ctx.violation(clause, {'leg': 'B-negotiation', 'event': e},
                          '%s(%r, %r) gave res=%r exc=%s %s' % (e['op'], e['candidates'], e['header'], e['res'], e['exc'], e['info']))
    ctx.extra['random_negotiation_events'] = sum(len(t['ev']) for t in traces)
    ctx.progress('leg B negotiation done: %d traces' % len(traces))


BKEYS = None


# ---------------------------------------------------------------------------------------------
# error rendering after in-place edits of resp_options.media_handlers (HandlersError.tla)
# ---------------------------------------------------------------------------------------------
CS = {'n': 'charset', 'v': 'utf-8'}
# application/json, application/xml, text/xml, then what an app may register: a type of its own, keys that only MATCH the
# predefined types (charset parameter, application/*, */*)
EKEYS = [{'t': 'a', 's': 'x', 'pm': []}, {'t': 'a', 's': 'm', 'pm': []}, {'t': 'b', 's': 'm', 'pm': []}, {'t': 'a', 's': 'y', 'pm': []},
         {'t': 'a', 's': 'm', 'pm': [CS]}, {'t': 'a', 's': 'x', 'pm': [CS]}, {'t': 'a', 's': '*', 'pm': []}, {'t': '*', 's': '*', 'pm': []},
         {'t': 'c', 's': 'z', 'pm': []}, {'t': 'a', 's': 'y', 'pm': [{'n': 'p', 'v': '1'}]}]


class ERun(HRun):
    """One app per stack whose resp_options.media_handlers is ONE Handlers object configured at start-up and
    edited in place afterwards; a route that raises an HTTPError, rendered by the default error serializer."""

    def __init__(self, init_map):
        HRun.__init__(self, init_map)
        falcon = self.falcon
        import falcon.asgi

        class Res:
            def on_get(self, req, resp):
                raise falcon.HTTPBadRequest(title='Bad', description='an error to render')

        class ARes:
            async def on_get(self, req, resp):
                raise falcon.HTTPBadRequest(title='Bad', description='an error to render')
        self.eapps = {'wsgi': falcon.App(), 'asgi': falcon.asgi.App()}
        self.eapps['wsgi'].add_route('/e', Res())
        self.eapps['asgi'].add_route('/e', ARes())
        for app in self.eapps.values():
            app.resp_options.media_handlers = self.objs[0]
        for m in EKEYS:
            self.key(m)

    def error(self, hdr, xml, stack, rng):
        """one request answered with a rendered error -> the logged event"""
        app = self.eapps[stack]
        app.resp_options.xml_error_serialization = bool(xml)
        header = render_header(hdr, rng)
        rq = drivers.Req('GET', target=b'/e', headers=[('Accept', header.strip())])
        res = drivers.wsgi_call(app, rq) if stack == 'wsgi' else drivers.asgi_call(app, rq)
        if res.exc is not None or res.errors:
            raise MachineryError('error request failed: %r %r' % (res.exc, res.errors))
        body = res.body
        if body == b'':
            enc = 0
        elif body[:1] == b'H' and body[1:].isdigit():
            enc = int(body[1:])
        elif body[:5] == b'<?xml':
            enc = -1
        elif body[:1] == b'{':
            enc = -2
        else:
            enc = -9
        cth = res.header('content-type')
        ct = self.abst.get(cth, {'t': '?', 's': str(cth), 'pm': []}) if cth is not None else NOKEY
        return {'op': 'error', 'o': 1, 'k': NOKEY, 'h': 0, 'pairs': [], 'r': bool(xml), 'hdr': hdr, 'xml': bool(xml), 'ct': ct, 'enc': enc,
                'status': res.status or 0, 'map': self.view(1), 'via': stack, 'header': header, 'body': body[:80].decode('latin-1'),
                'content_type': cth}


def judge_error_event(ctx, ev, want, case, adm=None):
    """leg A: one rendered error against TLC's outcome [ct, enc] (clauses of HandlersErrorTrace)"""
    if ev['status'] != 400:
        return ctx.violation('P:status', case, 'error reached the client as %s' % ev['status'])
    none = want['ct']['t'] == ''
    if not none and ev['ct'] != norm_type(want['ct']):
        return ctx.violation('P:offered', case, 'Accept %r: Content-Type %r, the mapping at that time offers %s'
                             % (ev['header'], ev['content_type'], canon(want['ct'])))
    if (ev['enc'] not in adm) if adm is not None else (ev['enc'] != want['enc']):
        return ctx.violation('P:offered' if none else 'P:encoder', case, 'Accept %r -> Content-Type %r with body %r (encoder %s); expected encoder %s '
                             '(>0 handler id, 0 none, -1 built-in XML, -2 framework JSON)' % (ev['header'], ev['content_type'], ev['body'], ev['enc'], want['enc']))
    return False


def norm_type(m):
    return {'t': m['t'], 's': m['s'], 'pm': [dict(n=p['n'], v=p['v']) for p in m['pm']]}


def leg_errors(ctx):
    rng = ctx.rng
    # ---- M
    r = ctx.tlc('MC_HandlersError', 'MC_HandlersError.cfg' if ctx.quick else 'MC_HandlersError4.cfg', coverage=ctx.quick, timeout=1500, workers=8)
    if ctx.quick:
        ctx.require_coverage(r, ['MMutate', 'MError'])
    rw = ctx.tlc('MC_HandlersError', 'MC_HandlersErrorW.cfg', must_hold=False, count=False, timeout=600, workers=4)
    if not rw.violated:
        raise MachineryError('wrong-design switch MemoiseOffered=TRUE did not violate OfferedFollowsMapping')
    rx = ctx.tlc('MC_HandlersError', 'MC_HandlersErrorWX.cfg', must_hold=False, count=False, timeout=600, workers=4)
    if not rx.violated:
        raise MachineryError('wrong-design switch ExactLookup=TRUE did not violate TypeAndBodyAgree')
    ctx.progress('error-rendering leg M done')
    # ---- A: TLC-simulated histories on real apps
    ra = ctx.tlc('MC_HandlersError', 'MC_HandlersErrorSim.cfg', simulate={'num': ctx.pick(60, 600)}, depth=8, seed=ctx.seed + 13, workers=4,
                 timeout=900, count=False)
    behs = list({digest(j): j for j in ra.json if 'ev' in j}.values())[:ctx.pick(1200, 30000)]
    n = matched = 0
    for bi, b in enumerate(behs):
        evs = b['ev']
        run = ERun(evs[0]['map'])
        stack = ('wsgi', 'asgi')[bi % 2]
        seen_error = mutated_after = nontrivial = False
        case = {'leg': 'A-errors', 'stack': stack, 'behaviour': evs}
        for si, st in enumerate(evs[1:]):
            call = st['call']
            if call['op'] == 'error':
                e = st['err']
                ev = run.error(e['hdr'], e['xml'], stack, rng)
                nontrivial = nontrivial or (seen_error and mutated_after)
                seen_error = True
                # (counted on the SPEC's outcome) the body is rendered by a handler whose key is not literally the chosen type
                matched += 1 if (e['enc'] > 0 and norm_type(e['ct']) not in [x['k'] for x in norm_map(st['map'])]) else 0
                if judge_error_event(ctx, ev, e, dict(case, step=si + 1, event=ev), st['adm']):
                    break
            else:
                ev = run.apply(spec_call(call))
                mutated_after = seen_error
                if ev['map'] != norm_map(st['map']):
                    ctx.detail('D:map', dict(case, step=si + 1), 'mapping after %s: %r, model %r' % (ev['op'], ev['map'], st['map']))
                    break
        ctx.case(case, nontrivial=nontrivial, key=('err', digest(evs), stack))
        n += 1
    ctx.traces_validated += n
    ctx.extra['error_bodies_rendered_by_a_handler_under_a_non_literal_key'] = matched
    if matched < 30:
        raise MachineryError('only %d simulated errors were rendered through a key that matches without being equal (vacuity guard)' % matched)
    ctx.progress('error-rendering leg A done: %d histories (%d bodies rendered through a merely matching key)' % (n, matched))
    # ---- B: directed + random histories, judged by TLC
    J, AX, TX, Y, Z = ({'t': 'a', 's': 'x', 'pm': []}, {'t': 'a', 's': 'm', 'pm': []}, {'t': 'b', 's': 'm', 'pm': []},
                       {'t': 'a', 's': 'y', 'pm': []}, {'t': 'c', 's': 'z', 'pm': []})
    AXC, JC, AST, STAR = EKEYS[4:8]
    VJ, VX = {'t': 'a', 's': 'w', 'pm': []}, {'t': 'c', 's': 'v', 'pm': []}
    keys = [J, AX, Y, Z, TX, {'t': 'a', 's': 'y', 'pm': [{'n': 'p', 'v': '1'}]}]
    mkeys = [AXC, JC, AST, STAR, AXC]          # keys that serve a predefined type without being literally equal to it

    def R(t, q):
        return {'t': t['t'], 's': t['s'], 'pm': list(t['pm']), 'q': q}
    traces, cases = [], []
    for i in range(ctx.pick(300, 8000)):
        hid = itertools.count(11)
        matching = rng.random() < 0.5
        init = [{'k': rng.choice(mkeys if matching else keys[:3]), 'h': next(hid)} for _ in range(1)]
        if rng.random() < (0.3 if matching else 0.6) and init[0]['k'] != J:
            init.append({'k': J, 'h': next(hid)})
        run = ERun(init)
        stack = ('wsgi', 'asgi')[i % 2]
        xml = rng.random() < 0.5
        evs = []
        pool = keys[:rng.choice((3, 4, 6))] + (rng.sample(mkeys, 2) if matching else [])

        def accept():
            have = [e['k'] for e in run.view(1)]
            t = rng.choice(pool + have) if rng.random() < 0.8 else rng.choice(keys)
            if matching and rng.random() < 0.6:
                t = rng.choice((AX, TX, J, AX))
            u = rng.random()
            if u < 0.12:            # nothing offered is acceptable: the +json / +xml fall-back decides
                return rng.choice(([R(VJ, -1)], [R(VX, -1)], [R(VX, 500000), R(Z, 0)], [R(VJ, -1), R(VX, -1)]))
            u = rng.random()
            if u < 0.45:
                return [R(t, -1), R(J, rng.choice((100000, 500000, 100)))]
            if u < 0.6:
                return [R(t, rng.choice((-1, 900000)))]
            if u < 0.75:
                return [R(t, 800000), R(rng.choice(keys), 900000), R(J, 100000)]
            if u < 0.85:
                return [{'t': '*', 's': '*', 'pm': [], 'q': -1}]
            return [R(rng.choice(keys), -1), R(rng.choice(keys), 500000)]
        evs.append(run.error(accept(), xml, stack, rng))
        for _ in range(rng.randint(2, 10)):
            u = rng.random()
            if u < 0.5:
                if rng.random() < 0.15:
                    xml = not xml
                evs.append(run.error(accept(), xml, stack if rng.random() < 0.85 else ('asgi' if stack == 'wsgi' else 'wsgi'), rng))
                continue
            have = [e['k'] for e in run.view(1)]
            k = rng.choice(have) if have and rng.random() < 0.5 else rng.choice(pool)
            if u < 0.62:
                c = {'op': 'set', 'o': 1, 'k': k, 'h': next(hid)}
            elif u < 0.70:
                c = {'op': 'del', 'o': 1, 'k': k}
            elif u < 0.78:
                c = {'op': 'pop', 'o': 1, 'k': k, 'r': rng.random() < 0.5}
            elif u < 0.86:
                c = {'op': 'update', 'o': 1, 'pairs': [{'k': rng.choice(pool), 'h': next(hid)} for _ in range(rng.randint(1, 2))]}
            elif u < 0.91:
                c = {'op': 'updatefail', 'o': 1, 'pairs': [{'k': rng.choice(pool), 'h': next(hid)} for _ in range(rng.randint(0, 2))]}
            elif u < 0.97:
                c = {'op': 'setdefault', 'o': 1, 'k': k, 'h': next(hid)}
            else:
                c = {'op': 'clear', 'o': 1}
            ev = run.apply(c)
            ev['hdr'], ev['xml'], ev['enc'], ev['status'] = [], False, 0, 0
            evs.append(ev)
        ctx.case({'leg': 'B-errors', 'init': init, 'events': len(evs)}, nontrivial=True, key=('errb', i))
        traces.append({'init': init, 'ev': evs})
        cases.append({'leg': 'B-errors', 'init': init, 'ev': evs})
    verdicts = ctx.judge('HandlersErrorTrace', traces, timeout=900, chunk=3000)
    for case, v in zip(cases, verdicts):
        if v == 'ok':
            continue
        if v.startswith('H:'):
            raise MachineryError('harness produced an invalid error history: %s' % v)
        at = int(v.split('@')[1])
        e = case['ev'][at - 1]
        ctx.violation(v.split('@')[0], dict(case, ev=case['ev'][:at]), 'event %d via %s: Accept %r xml=%s -> Content-Type %r body %r (encoder %s), mapping %r'
                      % (at, e.get('via'), e.get('header'), e.get('xml'), e.get('content_type'), e.get('body'), e.get('enc'), e.get('map')))
    ctx.extra['error_histories'] = n
    ctx.extra['random_error_histories'] = len(traces)
    ctx.progress('error-rendering legs done: %d histories, %d random' % (n, len(traces)))


def leg_b_handlers(ctx):
    rng = ctx.rng
    P1, P2, R1 = {'n': 'p', 'v': '1'}, {'n': 'p', 'v': '2'}, {'n': 'r', 'v': '1'}
    keys = [{'t': 'a', 's': 'x', 'pm': []}, {'t': 'a', 's': 'x', 'pm': [P1]}, {'t': 'a', 's': '*', 'pm': []},
            {'t': 'b', 's': 'y', 'pm': []}, {'t': 'a', 's': 'w', 'pm': []}, {'t': '*', 's': '*', 'pm': []},
            {'t': 'b', 's': '*', 'pm': [R1]}, {'t': 'c', 's': 'z', 'pm': []}]
    mts = keys[:5] + [{'t': 'a', 's': 'x', 'pm': [P2]}, {'t': 'a', 's': 'x', 'pm': [P1, R1]}, {'t': 'a', 's': 'x', 'pm': [R1, P1]},
                      {'t': 'a', 's': 'y', 'pm': []}, {'t': 'b', 's': 'y', 'pm': [R1]}, {'t': 'c', 's': 'x', 'pm': []},
                      {'t': 'e', 's': 'z', 'pm': []}]
    # content types as written: canonical, otherwise spelled, with q = 0 / a positive q at a random position
    cts = [W(m) for m in mts] + [W(m, lit=False) for m in mts] + \
          [W(m, q, rng.randint(0, len(m['pm']))) for m in mts[:8] for q in (0, 0, 500000)] + \
          [W({'t': '*', 's': '*', 'pm': []}), NOTYPE, NOTYPE]
    defaults = [keys[0], keys[3], {'t': 'a', 's': 'y', 'pm': []}]
    ntraces = ctx.pick(250, 6000)
    traces, seen = [], set()
    for ti in range(ntraces):
        hid = itertools.count(1)
        fresh = rng.random() < 0.6       # fresh handler object per assignment makes every stale answer visible
        pool = [1, 2, 3]

        def newh():
            return next(hid) + 10 if fresh else rng.choice(pool)
        init = [{'k': rng.choice(keys), 'h': newh()}]
        run = HRun(init, rng)
        evs = []
        nkeys = keys[:rng.choice((2, 3, 4, 5, 8))] if rng.random() < 0.8 else [keys[0], keys[1], keys[5]]
        # few distinct (content type, default) pairs per history, so that resolutions repeat across mutations
        tcts = rng.sample(cts, rng.choice((1, 2, 2, 3, 5)))
        if rng.random() < 0.5:      # a type the parameterised key serves without being literally equal to it
            tcts.append(rng.choice((W(keys[1], lit=False), W(mts[6], lit=False), W(mts[7]), W(keys[1], 0, rng.randint(0, 1)))))
        tdefs = rng.sample(defaults, rng.choice((1, 1, 2)))
        mutated = nontrivial = False
        asked = []          # resolutions made so far: (call, route); re-asked right after mutations

        def curkey(o):
            have = [e['k'] for e in run.view(o)]
            return rng.choice(have) if have and rng.random() < 0.6 else rng.choice(nkeys)
        for _ in range(rng.randint(4, 30)):
            o = rng.randint(1, len(run.objs))
            u = rng.random()
            if asked and mutated and evs and evs[-1]['op'] != 'resolve' and u < 0.5:
                # the same question, through the same place, on the object that was just changed
                same = [a for a in asked if a[0]['o'] == evs[-1]['o']] or asked
                c, route = rng.choice(same)
                evs.append(run.apply(dict(c), route))
                nontrivial = True
                continue
            if u < 0.45:
                r = rng.random() < 0.9
                c = {'op': 'resolve', 'o': o, 'ct': rng.choice(tcts), 'd': rng.choice(tdefs), 'r': r}
                if not r:
                    c['ct'], c['d'] = W(keys[0]), keys[0]
                nontrivial = nontrivial or mutated
            elif u < 0.60:
                c = {'op': 'set', 'o': o, 'k': rng.choice(nkeys), 'h': newh()}
            elif u < 0.68:
                c = {'op': 'del', 'o': o, 'k': rng.choice(nkeys)}
            elif u < 0.76:
                c = {'op': 'pop', 'o': o, 'k': rng.choice(nkeys), 'r': rng.random() < 0.5}
            elif u < 0.80:
                c = {'op': 'update', 'o': o, 'pairs': [{'k': rng.choice(nkeys), 'h': newh()} for _ in range(rng.randint(1, 3))]}
            elif u < 0.85:
                c = {'op': 'updatefail', 'o': o, 'pairs': [{'k': curkey(o), 'h': newh()} for _ in range(rng.randint(0, 3))]}
            elif u < 0.89:
                c = {'op': 'setdefault', 'o': o, 'k': rng.choice(nkeys), 'h': newh()}
            elif u < 0.93:
                c = {'op': 'clear', 'o': o}
            else:
                if len(run.objs) >= 3 or len(run.objs[o - 1]) == 0:
                    continue
                c = {'op': 'copy', 'o': o}
            if c['op'] != 'resolve':
                mutated = True
            route = rng.choice(ROUTES) if rng.random() < 0.25 else rng.choice(ROUTES[:4])
            evs.append(run.apply(c, route))
            if c['op'] == 'resolve':
                asked.append((c, route))
        t = {'init': init, 'ev': evs}
        k = digest([init, [[e[f] for f in ('op', 'o', 'k', 'h', 'pairs', 'ct', 'd', 'r', 'res', 'exc', 'map')] for e in evs]])
        ctx.case({'leg': 'B-handlers', 'init': init, 'calls': len(evs)}, nontrivial=nontrivial, key=k)
        if k not in seen:
            seen.add(k)
            traces.append(t)
    verdicts, counts = local_judge(ctx, 'HandlersTrace', traces)
    ctx.extra['random_resolutions_only_first_of_best_decides'] = sum(counts)
    for t, v in zip(traces, verdicts):
        if v == 'ok':
            continue
        clause, at = v.split('@')
        if clause.startswith('D:'):
            cl, idx = clause.split('#')
            ctx.detail(cl, {'init': t['init'], 'event': t['ev'][int(idx) - 1]}, 'handler trace judged %s' % clause)
        elif clause.startswith('H:'):
            raise MachineryError('harness produced an invalid handler trace: %s' % v)
        else:
            e = t['ev'][int(at) - 1]
            ctx.violation(clause, {'leg': 'B-handlers', 'init': t['init'], 'ev': t['ev'][:int(at)]},
                          'event %s: %s via %s -> res=%r exc=%s, mapping %r' % (at, e['op'], e['via'], e['res'], e['exc'], e['map']))
    ctx.extra['random_handler_traces'] = len(traces)
    ctx.progress('leg B handlers done: %d traces' % len(traces))


def run(ctx):
    ctx.rule = ('negotiation case = (abstract header, candidate list, rendering); non-trivial iff >= 2 ranges of the header '
                'match a candidate (counted by TLC: nmatch / Matching); handler case = (initial mapping, call history); '
                'non-trivial iff a resolution follows a mutation; distinct by hash of the case')
    ctx.trusted_base = ['TLC evaluation of spec/MediaTypesOps.tla and spec/Handlers.tla',
                        'header renderer of checks/c11.py (abstract range -> Accept syntax)',
                        'engine/drivers.py (PEP 3333 / ASGI drivers)']
    ctx.assumptions = ['media types in candidate lists and mapping keys carry no q parameter',
                       'type/subtype tokens are compared as given (no case variation is generated)',
                       'a malformed member makes the whole header malformed; what quality/best_match/client_* answer then '
                       'is model detail (D), only the exception type is demanded (P)',
                       'which of several equally good mapping keys wins (exact key first, then first inserted) is model '
                       'detail (D); P demands a handler of the CURRENT mapping under a key of maximal positive quality',
                       'when the content type is LITERALLY equal to a key the resolver returns that key\'s handler although an earlier registered '
                       'key may match with the same quality (*/* or application/json; version=2 registered before application/json): the statement '
                       'does not say which of equally good keys wins there, so this is model detail (Handlers!ShortcutApplies; TLC refutes the strict '
                       'reading ShortcutIsRule for this design in the thorough tier); P:first applies wherever no key is literally equal',
                       'content types reach the resolver as written: surrounding blanks only through Response.content_type (servers strip them from requests)',
                       'Handlers.__ior__ and copy() of an emptied mapping are excluded (not in the property)',
                       'a bulk update() that fails part-way (raising iterable, malformed pair) leaves its prefix in the mapping; '
                       'the mapping the object itself reports afterwards is the current mapping',
                       'error rendering: the default error serializer on one app per stack whose resp_options.media_handlers is edited in place '
                       'between errors; the +json/+xml fall-back is modelled on subtypes (Accept parameters never contain "+")',
                       'resolutions are observed through Request.get_media, Response.render_body, get_param_as_json '
                       '(the only raise_not_found=False path reachable with arbitrary mappings) and whole requests']
    leg_m(ctx)
    leg_a_table(ctx)
    leg_a_table(ctx, positions=True)
    leg_a_cases(ctx)
    leg_a_handlers(ctx)
    leg_b_negotiation(ctx)
    leg_b_handlers(ctx)
    leg_errors(ctx)


def replay(ctx, case):
    leg = case.get('leg')
    print(json.dumps(case, indent=1, default=repr)[:4000])
    if leg in ('A-table', 'A-cases'):
        hdr, header = case['hdr'], case['header']
        cstrs = case.get('candidates') or [case['type']]
        cands = case.get('cands')
        for ms in cstrs:
            print('quality(%r, %r) ->' % (ms, header), call_quality(ms, header))
        print('best_match ->', call_best(cstrs, header))
        req = make_request(header, 'wsgi')
        print('client_prefers ->', call_prefers(req, cstrs), 'client_accepts ->', [call_accepts(req, m) for m in cstrs])
        if cands:
            evs = [{'op': 'best', 'hdr': hdr, 'cands': cands, 'res': call_best(cstrs, header)[0], 'exc': call_best(cstrs, header)[1]}]
            evs += [{'op': 'quality', 'hdr': hdr, 'cands': [m], 'res': call_quality(s, header)[0], 'exc': call_quality(s, header)[1]}
                    for m, s in zip(cands, cstrs)]
            v, _ = local_judge(ctx, 'MediaTypesTrace', [{'ev': evs}], workers=1)
            print('verdict:', v)
            if v[0] != 'ok' and v[0].startswith('P:'):
                ctx.violation(v[0].split('@')[0], case, 'replayed: %s' % v[0])
    elif leg == 'B-negotiation':
        e = case['event']
        cstrs, header = e['candidates'], e['header']
        req = make_request(header, 'wsgi')
        got = {'quality': lambda: call_quality(cstrs[0], header), 'accepts': lambda: call_accepts(req, cstrs[0]),
               'best': lambda: call_best(cstrs, header), 'prefers': lambda: call_prefers(req, cstrs)}[e['op']]()
        ev = dict(e, res=got[0], exc=got[1])
        v, _ = local_judge(ctx, 'MediaTypesTrace', [{'ev': [ev]}], workers=1)
        print('now:', got, 'verdict:', v)
        if v[0] != 'ok' and v[0].startswith('P:'):
            ctx.violation(v[0].split('@')[0], case, 'replayed: %s' % v[0])
    elif leg == 'B-handlers':
        run_ = HRun(case['init'])
        evs = [run_.apply(e, e['via'] if e['via'] in ROUTES else 'wreq') for e in case['ev']]
        v = ctx.judge('HandlersTrace', [{'init': case['init'], 'ev': evs}], workers=1)
        print('verdict:', v)
        if v[0] != 'ok' and v[0].startswith('P:'):
            ctx.violation(v[0].split('@')[0], case, 'replayed: %s' % v[0])
    elif leg == 'A-handlers':
        evs = case['behaviour']
        run_ = HRun(evs[0]['maps'][0])
        for si, st in enumerate(evs[1:case.get('step', len(evs)) + 1]):
            c = spec_call(st['call'])
            ev = run_.apply(c, case['routes'][si] if si < len(case.get('routes', [])) else 'wreq')
            print(si + 1, ev)
            o = ev['res'] if c['op'] == 'copy' else c['o']
            judge_handler_event(ctx, ev, st['call'], norm_map(st['maps'][o - 1]), st['ds'], dict(case, step=si + 1))
