"""C15 - response headers act as a case-insensitive map; cookies get separate lines.

spec:   spec/RespHeadersOps.tla (operators), spec/RespHeaders.tla (three stores + ghost map, invariants,
        wrong-design switches), spec/MC_RespHeaders.tla (bounded instances, behaviour export, encoding-law
        decision table), spec/RespHeadersTrace.tla (trace judge)
legs:   M  exhaustive TLC check of the design + its four wrong-design switches (each must break an invariant)
        A  TLC-generated call histories (and the encoding-law table) replayed on falcon.Response and
           falcon.asgi.Response inside real App calls; every step compared with what the spec holds
        B  the traces recorded in A plus seeded random histories beyond the bound, judged by TLC
        cookie names: spec/MC_RespHeadersCkn.tla (alphabet of names: law + table), leg A4 in run()
"""
import calendar
import datetime as dt
import email.utils
import http.cookies
import json
import os
import re
import time
import urllib.parse

META = {
    'property_id': 'C15',
    'design_ref': 'DESIGN.md section 4, C15',
    'technique': 'TLA+ specification of the header stores and a case-insensitive ghost map model-checked with TLC; '
                 'TLC-generated histories replayed on both Response classes through raw WSGI/ASGI drivers; recorded '
                 'traces (headers read back, server-side header list, parsed Set-Cookie lines, cookies echoed to the '
                 'request API, RFC-decoded helper output) judged by TLC',
    'level_text': 'The design (three stores merged at emission, name normalisation, Set-Cookie guard, cookie writes) is '
                  'model-checked exhaustively for small constants together with four wrong designs that must fail. '
                  'Every generated or random history is executed on real Response objects in real App calls and TLC '
                  'decides, per event, whether what was read back / handed to the server / decoded equals the '
                  'specification (every rejection is a violation; a sample is re-judged under five named, since '
                  'repaired, deviations only to add a diagnostic hint).',
    'level_note': 'Bounded: exhaustive histories <= 3 calls (thorough: 4) over {x-a, etag, set-cookie} x 3 casings x '
                  '2 values, 4 typed settings, 2 links, 3 bulk lists, 2 cookie names x 3 attribute sets, 2 unset forms; '
                  'generated histories of 7 calls over larger pools (30 typed settings, 8 cookie attribute sets), random '
                  'ones <= 12 calls; encoding law over all strings of <= 2 (thorough: 3) blocks of a 20-block unicode '
                  'pool x 9 helpers. Codec fidelity (percent-encoding, RFC 6266/8187/8288, HTTP-date, cookie octets) is '
                  'not re-specified in TLA+: it is the law Decode(emitted) = original with the trusted decoders named in '
                  'trusted_base. Failed bulk sets and rejected cookie arguments are not driven (outcome not stated by '
                  'the property). Order among Set-Cookie lines and Content-Length are D-clauses. unset_cookie on a name '
                  'already written in the response: value empty, expired, SameSite and any Domain/Path the call gave are '
                  'P-clauses; attributes it did not give may be absent or inherited from the earlier write (D:unset-inherit) '
                  '- unset_cookie cannot be asked for Secure/HttpOnly and falcon\'s own suite pins their inheritance. '
                  'Cookie NAMES: RespHeadersOps states CookieNameLegal (RFC 7230 token: the 15 specials, digits, letters), the '
                  'Cookie-header reader (ReadCookieHeader) and the law CookieNameRoundTrip (accepted => emitted verbatim => read '
                  'back under the same name with the same value, two other cookies before and two after it in one header); '
                  'MC_RespHeadersCkn enumerates every name of <= 2 characters over the complete alphabet (106 characters: all '
                  'tchars, all 17 separators, blank, TAB, 5 controls, DEL, 4 non-ASCII) and every 3-character name over 31 of '
                  'them in quick (all 15 specials, 11 separators, 0, a, blank, \\x01, e-acute; 41 134 names), over the complete '
                  'alphabet in thorough (1.2 million names, law only; the same 41 134 are exported); each exported name is driven '
                  'through set_cookie (2 of 3) or unset_cookie (1 of 3) on WSGI and ASGI responses and echoed into both Request '
                  'classes; random histories draw token / spoiled names <= 6 characters, judged by TLC (P:cookie-name-refusal). '
                  'The kind of exception unset_cookie raises for a refused name is not checked (undocumented: KeyError or '
                  'http.cookies.CookieError count as refusal).',
}

from engine import drivers
from engine.core import MachineryError, digest

EPOCH = dt.datetime(1970, 1, 1)
UTC = dt.timezone.utc


# =================================================================================================
# trusted decoders (independent of falcon)
# =================================================================================================

class ParseError(Exception):
    pass


TCHAR = set("!#$%&'*+-.^_`|~0123456789abcdefghijklmnopqrstuvwxyzABCDEFGHIJKLMNOPQRSTUVWXYZ")


def _ows(s, i):
    while i < len(s) and s[i] in ' \t':
        i += 1
    return i


def _token(s, i):
    j = i
    while j < len(s) and s[j] in TCHAR:
        j += 1
    if j == i:
        raise ParseError('token expected at %d in %r' % (i, s))
    return s[i:j], j


def _quoted(s, i):
    """RFC 9110 5.6.4 quoted-string starting at s[i] == '"'."""
    i += 1
    out = []
    while True:
        if i >= len(s):
            raise ParseError('unterminated quoted-string')
        c = s[i]
        o = ord(c)
        if c == '"':
            return ''.join(out), i + 1
        if c == '\\':
            i += 1
            if i >= len(s):
                raise ParseError('dangling backslash')
            c = s[i]
            o = ord(c)
            if not (c in '\t ' or 0x21 <= o <= 0x7e or o >= 0x80):
                raise ParseError('bad quoted-pair')
        elif not (c in '\t ' or o == 0x21 or 0x23 <= o <= 0x5b or 0x5d <= o <= 0x7e or o >= 0x80):
            raise ParseError('character %#x not allowed in quoted-string' % o)
        out.append(c)
        i += 1


def _params(s, i):
    """*( OWS ";" OWS token [ BWS "=" BWS ( token / quoted-string ) ] ) ; stops at end or at a top-level comma."""
    out = []
    while True:
        i = _ows(s, i)
        if i >= len(s) or s[i] == ',':
            return out, i
        if s[i] != ';':
            raise ParseError('";" expected at %d in %r' % (i, s))
        i = _ows(s, i + 1)
        name, i = _token(s, i)
        j = _ows(s, i)
        if j < len(s) and s[j] == '=':
            j = _ows(s, j + 1)
            if j < len(s) and s[j] == '"':
                val, i = _quoted(s, j)
            else:
                val, i = _token(s, j)
        else:
            val = None
        out.append((name.lower(), val))


def _ext_value(v):
    """RFC 8187 ext-value -> (language, text)."""
    m = re.fullmatch(r"([A-Za-z0-9!#$%&+\-^_`{}~]+)'([A-Za-z0-9\-]*)'((?:[A-Za-z0-9!#$&+\-.^_`|~]|%[0-9A-Fa-f]{2})*)", v)
    if not m:
        raise ParseError('bad ext-value %r' % v)
    if m.group(1).lower() != 'utf-8':
        raise ParseError('charset %r' % m.group(1))
    return m.group(2), urllib.parse.unquote(m.group(3), encoding='utf-8', errors='strict')


def uri_decode(text):
    return urllib.parse.unquote(text, encoding='utf-8', errors='strict')


def parse_content_disposition(text):
    """RFC 6266 -> (disposition type, filename); filename* wins over filename."""
    typ, i = _token(text, 0)
    ps, i = _params(text, i)
    if i != len(text):
        raise ParseError('trailing garbage in %r' % text)
    d = {}
    for k, v in ps:
        if k in d:
            raise ParseError('duplicate parameter %s' % k)
        d[k] = v
    if 'filename*' in d:
        return typ.lower(), _ext_value(d['filename*'])[1]
    if d.get('filename') is None:
        raise ParseError('no filename')
    return typ.lower(), d['filename']


def parse_links(text):
    """RFC 8288 Link field value -> list of link records (members as the spec's LinkRec)."""
    out = []
    i = 0
    while True:
        i = _ows(text, i)
        if i >= len(text) or text[i] != '<':
            raise ParseError('"<" expected at %d in %r' % (i, text))
        j = text.find('>', i)
        if j < 0:
            raise ParseError('">" missing')
        target = text[i + 1:j]
        ps, i = _params(text, j + 1)
        rec = {'target': uri_decode(target), 'rel': '', 'title': [], 'tstar': [], 'anchor': [], 'type': [],
               'hreflang': [], 'crossorigin': []}
        seen = set()
        for k, v in ps:
            if v is None and k != 'crossorigin':
                raise ParseError('link parameter %r has no value' % k)
            if k == 'hreflang':
                rec['hreflang'].append(v)
                continue
            if k in seen:
                continue            # RFC 8288 3.3/3.4: later occurrences are ignored
            seen.add(k)
            if k == 'rel':
                rec['rel'] = ' '.join(uri_decode(r) if '//' in r else r for r in (v or '').split(' '))
            elif k == 'title':
                rec['title'] = [v]
            elif k == 'title*':
                lang, t = _ext_value(v)
                rec['tstar'] = [{'lang': lang, 'text': t}]
            elif k == 'anchor':
                rec['anchor'] = [uri_decode(v)]
            elif k == 'type':
                rec['type'] = [v]
            elif k == 'crossorigin':
                rec['crossorigin'] = ['anonymous' if v is None else v]
            else:
                raise ParseError('unexpected link parameter %r' % k)
        out.append(rec)
        if i >= len(text):
            return out
        i += 1                      # the comma


def http_date_epoch(text):
    d = email.utils.parsedate_to_datetime(text)
    if d.tzinfo is None:
        d = d.replace(tzinfo=UTC)
    return calendar.timegm(d.utctimetuple())


def parse_set_cookie(text):
    """RFC 6265 5.2: what a user agent makes of one Set-Cookie line."""
    parts = text.split(';')
    name, _, value = parts[0].partition('=')
    rec = {'text': text, 'name': name.strip(), 'value': value.strip(), 'vcps': [ord(ch) for ch in value.strip()], 'hasexp': False, 'exp': -1, 'hasmaxage': False,
           'maxage': 0, 'domain': '', 'path': '', 'secure': False, 'httponly': False, 'samesite': '',
           'partitioned': False, 'other': [], 'dup': False}
    seen = set()
    for av in parts[1:]:
        k, _, v = av.partition('=')
        k = k.strip().lower()
        v = v.strip()
        if k in seen:
            rec['dup'] = True
        seen.add(k)
        if k == 'expires':
            rec['hasexp'] = True
            try:
                rec['exp'] = http_date_epoch(v)
            except Exception:
                rec['other'].append('expires-unparseable')
        elif k == 'max-age':
            if re.fullmatch(r'-?[0-9]+', v) and abs(int(v)) < 2 ** 31:
                rec['hasmaxage'] = True
                rec['maxage'] = int(v)
            else:
                rec['other'].append('max-age-unparseable')
        elif k == 'domain':
            rec['domain'] = v
        elif k == 'path':
            rec['path'] = v
        elif k == 'secure':
            rec['secure'] = True
        elif k == 'httponly':
            rec['httponly'] = True
        elif k == 'samesite':
            rec['samesite'] = v
        elif k == 'partitioned':
            rec['partitioned'] = True
        else:
            rec['other'].append(k)
    return rec


# =================================================================================================
# concretisation: abstract calls of the specification -> Python arguments
# =================================================================================================

def render(n):
    """name record [b, c] -> spelling: bit i of c upper-cases letter i."""
    b, c = n['b'], n['c']
    return ''.join(ch.upper() if (c >> i) & 1 else ch for i, ch in enumerate(b))


def typed_value(p, a):
    k = a['kind']
    if k == 'none':
        return None
    if k == 'str':
        return a['s']
    if k == 'int':
        return a['i']
    if k == 'list':
        return list(a['l'])
    if k == 'range':
        ln = int(a['s']) if a['s'].isdigit() else a['s']
        return (a['i'], a['j'], ln) + ((a['u'],) if a['u'] else ())
    if k == 'codec':
        if p in ('expires', 'last_modified'):
            return EPOCH + dt.timedelta(seconds=a['i'])
        return a['s']
    raise ValueError(k)


def cookie_kwargs(ca):
    kw = {}
    if ca['exp'] != -1:
        if ca['expkind'] == 'aware':
            kw['expires'] = dt.datetime.fromtimestamp(ca['exp'], tz=dt.timezone(dt.timedelta(minutes=ca['off'])))
        else:
            kw['expires'] = EPOCH + dt.timedelta(seconds=ca['exp'])
    ma = ca['ma']
    if ma['kind'] == 'int':
        kw['max_age'] = ma['num']
    elif ma['kind'] == 'float':
        kw['max_age'] = float('%d.%d' % (ma['num'], ma['frac']))
    elif ma['kind'] == 'str':
        kw['max_age'] = str(ma['num'])
    if ca['domain']:
        kw['domain'] = ca['domain']
    if ca['path']:
        kw['path'] = ca['path']
    if ca['secure'] != 'none':
        kw['secure'] = ca['secure'] == 'true'
    kw['http_only'] = ca['httponly']
    if ca['ss']['b']:
        kw['same_site'] = render(ca['ss'])
    if ca['partitioned']:
        kw['partitioned'] = True
    return kw


def link_kwargs(l):
    kw = {}
    if l['title']:
        kw['title'] = l['title'][0]
    if l['tstar']:
        kw['title_star'] = (l['tstar'][0]['lang'], l['tstar'][0]['text'])
    if l['anchor']:
        kw['anchor'] = l['anchor'][0]
    if l['type']:
        kw['type_hint'] = l['type'][0]
    if l['hreflang']:
        kw['hreflang'] = l['hreflang'][0] if len(l['hreflang']) == 1 else list(l['hreflang'])
    if l['crossorigin']:
        kw['crossorigin'] = l['crossorigin'][0]
    return kw


# uniform call records (the shape MC_RespHeaders.tla exports and RespHeadersTrace.tla reads)
NONAME = {'b': '', 'c': 0}
NOARG = {'kind': 'none', 's': '', 'i': 0, 'j': 0, 'l': [], 'u': '', 'text': ''}
NOLINK = {'target': '', 'rel': '', 'title': [], 'tstar': [], 'anchor': [], 'type': [], 'hreflang': [], 'crossorigin': []}
NOCA = {'value': '', 'exp': -1, 'expkind': '', 'off': 0, 'ma': {'kind': 'none', 'num': 0, 'frac': 0}, 'domain': '',
        'path': '', 'secure': 'none', 'httponly': True, 'ss': {'b': '', 'c': 0}, 'partitioned': False}
NOUA = {'samesite': '', 'domain': '', 'path': ''}
NOLAW = {'cps': [], 'uricps': [], 'orig': [], 'ok': True, 'dec': [], 'dtype': '', 'deci': 0, 'link': NOLINK, 'text': ''}


_COMMON = ('op', 'err', 'exc', 'res', 'after')
EVENT_FIELDS = {
    'get': _COMMON + ('n',), 'set': _COMMON + ('n', 'v'), 'delete': _COMMON + ('n',), 'append': _COMMON + ('n', 'v'),
    'set_headers': _COMMON + ('items', 'asdict'), 'typed': _COMMON + ('p', 'a', 'law'), 'typed_get': _COMMON + ('p',),
    'link': _COMMON + ('link', 'law'), 'set_cookie': _COMMON + ('ck', 'ckcps', 'ca', 'vcps'),
    'unset_cookie': _COMMON + ('ck', 'ckcps', 'ua', 't0', 't1'), 'set_option': _COMMON + ('flag',),
}


# every documented way to hand "an iterable of [name, value] pairs, or a dict-like object" to set_headers();
# the form is not part of the specification (the outcome must not depend on it)
BULK_FORMS = ('dict', 'list', 'lists', 'tuple', 'items', 'genexp', 'zip', 'iter')


def bulk_argument(items, form):
    distinct = len({k for k, _ in items}) == len(items)
    if form in ('dict', 'items') and not distinct:
        form = 'genexp'         # a repeated spelling would keep its first position in a dict
    if form == 'dict':
        return dict(items)
    if form == 'items':
        return dict(items).items()
    if form == 'list':
        return list(items)
    if form == 'lists':
        return [[k, v] for k, v in items]
    if form == 'tuple':
        return tuple(items)
    if form == 'genexp':
        return ((k, v) for k, v in items)
    if form == 'zip':
        return zip([k for k, _ in items], [v for _, v in items])
    if form == 'iter':
        return iter(list(items))
    raise MachineryError('unknown bulk form %r' % form)


def call(op, **kw):
    c = {'op': op, 'n': NONAME, 'v': '', 'items': [], 'asdict': False, 'p': '', 'a': NOARG, 'link': NOLINK, 'text': '',
         'ck': '', 'ca': NOCA, 'ua': NOUA, 'flag': False}
    c.update(kw)
    return c


def cps(s):
    return [ord(ch) for ch in s]


# =================================================================================================
# the runner: one history on one real Response inside one real App call
# =================================================================================================

_APPS = {}


class FakeClock:
    """time.time() while a history runs: deterministic, strictly increasing (0.3 s per reading), so that what
    unset_cookie calls "now" is known to the harness and traces do not depend on the wall clock."""

    def __init__(self, base):
        self.t = float(base)

    def time(self):
        self.t += 0.3
        return self.t


def _app(iface, sd, media):
    key = (iface, sd, media)
    if key not in _APPS:
        import falcon
        import falcon.asgi

        class Res:
            fn = None
            echo = None

            def on_get(self, req, resp):
                self.fn(req, resp)

        class ARes(Res):
            async def on_get(self, req, resp):
                self.fn(req, resp)

        res = Res() if iface == 'wsgi' else ARes()
        app = falcon.App(media_type=media) if iface == 'wsgi' else falcon.asgi.App(media_type=media)
        app.resp_options.secure_cookies_by_default = sd
        app.add_route('/r', res)
        _APPS[key] = (app, res)
    return _APPS[key]


def _do(resp, c, ev):
    """Perform one abstract call through the public API; fill the observation fields of ev."""
    from falcon.errors import HeaderNotSupported
    op = c['op']
    try:
        if op == 'get':
            r = resp.get_header(render(c['n']))
            ev['res'] = [] if r is None else [r]
        elif op == 'set':
            resp.set_header(render(c['n']), c['v'])
        elif op == 'delete':
            resp.delete_header(render(c['n']))
        elif op == 'append':
            resp.append_header(render(c['n']), c['v'])
        elif op == 'set_headers':
            items = [(render(it['n']), it['v']) for it in c['items']]
            # a dict only when the spellings are pairwise distinct (a repeated key would keep its first position)
            resp.set_headers(bulk_argument(items, c.get('form', 'dict' if c['asdict'] else 'list')))
        elif op == 'typed':
            setattr(resp, c['p'], typed_value(c['p'], c['a']))
        elif op == 'typed_get':
            r = getattr(resp, c['p'])
            ev['res'] = [] if r is None else [r]
        elif op == 'link':
            before = resp.get_header('Link')
            resp.append_link(c['link']['target'], c['link']['rel'], **link_kwargs(c['link']))
            after = resp.get_header('Link') or ''
            part = after[len(before) + 2:] if before is not None and after.startswith(before + ', ') else after
            law = dict(NOLAW, cps=cps(part), text=part, orig=cps(c['link']['title'][0]) if c['link']['title'] else [],
                       uricps=cps(part[1:part.index('>')]) if part.startswith('<') and '>' in part else cps(part))
            try:
                ls = parse_links(part)
                if len(ls) != 1:
                    raise ParseError('%d link-values where one was appended' % len(ls))
                law['link'] = ls[0]
            except (ParseError, UnicodeError, ValueError) as ex:
                law['ok'] = False
                law['why'] = str(ex)
            ev['law'] = law
        elif op == 'set_cookie':
            ev['vcps'] = cps(c['ca']['value'])
            ev['ckcps'] = cps(c['ck'])
            try:
                resp.set_cookie(c['ck'], c['ca']['value'], **cookie_kwargs(c['ca']))
            except ValueError:          # documented: "`value` is not a valid cookie value" (not ASCII)
                ev['err'] = True
            except KeyError:            # documented: "`name` is not a valid cookie name"
                ev['err'] = True
        elif op == 'set_option':
            # the application changes the option mid-request (resp.options is app.resp_options)
            resp.options.secure_cookies_by_default = c['flag']
        elif op == 'unset_cookie':
            ev['t0'] = int(time.time())
            ev['ckcps'] = cps(c['ck'])
            kw = {k: c['ua'][k] for k in ('domain', 'path') if c['ua'][k]}
            try:
                resp.unset_cookie(c['ck'], samesite=c['ua']['samesite'], **kw)
            except (KeyError, http.cookies.CookieError):    # a name that cannot be a cookie name is refused (the kind of
                ev['err'] = True                            # exception is not documented for unset_cookie)
            ev['t1'] = int(time.time())
        else:
            raise MachineryError('unknown op %r' % op)
    except HeaderNotSupported:
        ev['err'] = True
    except MachineryError:
        raise
    except Exception as ex:     # nothing else is documented for these calls with these arguments
        ev['exc'] = '%s: %s' % (type(ex).__name__, ex)
    if op == 'typed' and c['a']['kind'] == 'codec' and not ev['exc']:
        text = getattr(resp, c['p'])
        text = '' if text is None else text
        a = dict(c['a'], text=text)
        law = dict(NOLAW, cps=cps(text), uricps=cps(text), text=text)
        try:
            if c['p'] in ('expires', 'last_modified'):
                law['deci'] = http_date_epoch(text)
            elif c['p'] in ('downloadable_as', 'viewable_as'):
                law['orig'] = cps(c['a']['s'])
                law['dtype'], name = parse_content_disposition(text)
                law['dec'] = cps(name)
            else:
                law['orig'] = cps(c['a']['s'])
                law['dec'] = cps(uri_decode(text))
        except (ParseError, UnicodeError, ValueError, TypeError) as ex:
            law['ok'] = False
            law['why'] = str(ex)
        ev['a'] = a
        ev['law'] = law
    if op not in ('get', 'typed_get'):
        ev['after'] = sorted([k.lower(), v] for k, v in resp.headers.items())


# POSIX TZ specifications (no zoneinfo database needed): every history runs under one of them
TIMEZONES = ('UTC', 'EST5', 'IST-5:30', 'NZST-12', 'JST-9')


def execute(iface, sd, calls, media='application/json', tz='UTC'):
    """Run `calls` on a real Response inside a real App call; then echo the cookies to a second request.
    Returns the trace for RespHeadersTrace (calls + observations + one final emit event)."""
    real = time.time
    oldtz = os.environ.get('TZ')
    time.time = FakeClock(1700000000 + 9973 * len(calls)).time
    os.environ['TZ'] = tz           # the process time zone must not matter: a naive datetime denotes UTC (documented)
    time.tzset()
    try:
        return _execute(iface, sd, calls, media)      # (the zone is recorded in the case, not in the trace)
    finally:
        time.time = real
        if oldtz is None:
            os.environ.pop('TZ', None)
        else:
            os.environ['TZ'] = oldtz
        time.tzset()


def _execute(iface, sd, calls, media):
    app, res = _app(iface, sd, media)
    app.resp_options.secure_cookies_by_default = sd       # a history may have changed it ('set_option')
    evs = []

    def script(req, resp):
        for c in calls:
            ev = dict(c, err=False, exc='', res=[], after=[], law=NOLAW, t0=0, t1=0, vcps=[], ckcps=[])
            _do(resp, c, ev)
            # keep what the judge reads for this kind of call (traces are big otherwise)
            evs.append({k: ev[k] for k in EVENT_FIELDS[c['op']]})

    res.fn = script
    drive = drivers.wsgi_call if iface == 'wsgi' else drivers.asgi_call
    r = drive(app, drivers.Req('GET', '/r'))
    emit = {'op': 'emit', 'exc': '', 'plain': [], 'rawnames': [], 'lownames': [], 'lines': [], 'echo': [], 'echo1': [],
            'now': int(time.time())}
    if r.exc is not None or r.status != 200 or len(evs) != len(calls):
        emit['exc'] = 'app call failed: exc=%r status=%r events=%d/%d' % (r.exc, r.status, len(evs), len(calls))
    else:
        emit['plain'] = [[k, v] for k, v in r.headers if k != 'set-cookie']
        raw = [(k.decode('latin-1') if isinstance(k, bytes) else k) for k, _ in r.raw_headers]
        emit['rawnames'] = raw
        emit['lownames'] = [k.lower() for k in raw]
        emit['lines'] = [parse_set_cookie(v) for k, v in r.headers if k == 'set-cookie']
        names = []
        for ln in emit['lines']:
            if ln['name'] not in names:
                names.append(ln['name'])
        if names:
            got = {}

            def echo(req, resp):
                for nm in names:
                    vs = req.get_cookie_values(nm)
                    got[nm] = (list(vs) if vs is not None else [], [req.cookies[nm]] if nm in req.cookies else [])

            res.fn = echo
            hdr = '; '.join('%s=%s' % (ln['name'], ln['value']) for ln in emit['lines'])
            r2 = drive(app, drivers.Req('GET', '/r', headers=[('Cookie', hdr)]))
            if r2.exc is not None or r2.status != 200:
                emit['exc'] = 'echo request failed: exc=%r status=%r' % (r2.exc, r2.status)
            emit['echo'] = [[nm, got.get(nm, ([], []))[0]] for nm in names]
            emit['echo1'] = [[nm, got.get(nm, ([], []))[1]] for nm in names]
    return {'iface': iface, 'sd': sd, 'media': media, 'ev': evs + [emit]}


def nontrivial(calls):
    """DESIGN 2.6: a name is touched in >= 2 casings, or a cookie and a raw Set-Cookie coexist."""
    seen = {}
    rawc = jar = False
    for c in calls:
        ns = [c['n']] if c['op'] in ('get', 'set', 'delete', 'append') else [it['n'] for it in c['items']]
        for n in ns:
            seen.setdefault(n['b'], set()).add(n['c'])
        if c['op'] == 'append' and c['n']['b'] == 'set-cookie':
            rawc = True
        if c['op'] in ('set_cookie', 'unset_cookie'):
            jar = True
    return any(len(v) >= 2 for v in seen.values()) or (rawc and jar)


# =================================================================================================
# leg A comparison: what the spec says (TLC export) vs what the real objects did
# =================================================================================================

ABSTRACTION = {
    'link': lambda v: parse_links(v),
    'content-disposition': lambda v: parse_content_disposition(v),
    'location': uri_decode, 'content-location': uri_decode,
    'expires': http_date_epoch, 'last-modified': http_date_epoch,
}


def compare_map(want, got):
    """want: {name: text}; got: {name: text}.  Returns (p_mismatch, d_mismatch) descriptions or None."""
    if want == got:
        return None, None
    if set(want) != set(got):
        return 'names %r, spec %r' % (sorted(got), sorted(want)), None
    d = None
    for k in want:
        if want[k] != got[k]:
            f = ABSTRACTION.get(k)
            try:
                same = f is not None and f(want[k]) == f(got[k])
            except Exception:
                same = False
            if not same:
                return '%s: %r, spec %r' % (k, got[k], want[k]), None
            d = '%s: text %r differs from the instance text %r but decodes to the same' % (k, got[k], want[k])
    return None, d


def compare_behaviour(ctx, b, trace, case):
    """Returns the first P-mismatch (clause, what) between spec behaviour b and the recorded trace, or None."""
    for i, (w, g) in enumerate(zip(b['ev'], trace['ev'])):
        if g['exc']:
            return 'P:exception', 'step %d %s raised %s' % (i, g['op'], g['exc'])
        if g['err'] != w['err']:
            return 'P:setcookie-guard', 'step %d %s: raised=%r, spec %r' % (i, g['op'], g['err'], w['err'])
        if g['res'] != w['res']:
            return 'P:readback', 'step %d %s read %r, spec %r' % (i, g['op'], g['res'], w['res'])
        if g['op'] in ('get', 'typed_get'):
            continue
        want = {k: v[0] for k, v in w['map'].items() if v}
        p, d = compare_map(want, {k: v for k, v in g['after']})
        if p:
            return 'P:readback', 'step %d after %s: resp.headers has %s' % (i, g['op'], p)
        if d:
            ctx.detail('D:codec-text', case, d)
    e = trace['ev'][-1]
    if e['exc']:
        return 'P:exception', e['exc']
    names = [k for k, _ in e['plain']]
    if len(set(names)) != len(names):
        return 'P:emit-once', 'duplicated plain header in %r' % (names,)
    want = {k: v[0] for k, v in b['plain'].items() if v}
    got = dict((k, v) for k, v in e['plain'])
    if want.get('content-length') != got.get('content-length'):
        ctx.detail('D:content-length', case, 'content-length %r, spec %r' % (got.get('content-length'), want.get('content-length')))
    want.pop('content-length', None)
    got.pop('content-length', None)
    p, d = compare_map(want, got)
    if p:
        return 'P:emit-once', 'server received %s' % p
    if trace['iface'] == 'asgi' and e['rawnames'] != e['lownames']:
        return 'P:asgi-lower', 'ASGI header names %r' % (e['rawnames'],)
    if len(e['lines']) != len(b['raw']) + len(b['jar']):
        return 'P:cookie-lines', '%d Set-Cookie lines, spec %d raw + %d cookies' % (len(e['lines']), len(b['raw']), len(b['jar']))
    rest = list(e['lines'])
    for t in b['raw']:
        hit = [ln for ln in rest if ln['text'] == t]
        if not hit:
            return 'P:raw-cookies', 'raw cookie %r not among %r' % (t, [ln['text'] for ln in rest])
        rest.remove(hit[0])
    echo = dict((k, v) for k, v in e['echo'])
    for j in b['jar']:
        name, c = j['name'], j['c']
        lns = [ln for ln in rest if ln['name'] == name]
        if len(lns) != 1:
            return 'P:cookie-lines', '%d lines for cookie %r' % (len(lns), name)
        ln = lns[0]
        if c['unset']:
            # stated: SameSite, and Domain/Path when the call gave them (j['w'] = what was asked); what it did not
            # give may be absent or inherited from an earlier write (c = TLC's model of the code).  Expiry and the
            # empty value are judged by TLC (they need the clock / the line).
            w = j['w']
            got = {'samesite': ln['samesite']}
            want = {'samesite': w['samesite']}
            for k in ('domain', 'path'):
                if w[k]:
                    got[k], want[k] = ln[k], w[k]
                elif ln[k] not in ('', c[k]):
                    ctx.detail('D:unset-inherit', case, 'unset cookie %r: %s=%r neither absent nor inherited (%r)' % (name, k, ln[k], c[k]))
            for k in ('secure', 'httponly', 'partitioned'):
                if ln[k] not in (False, c[k]):
                    ctx.detail('D:unset-inherit', case, 'unset cookie %r: %s neither absent nor inherited' % (name, k))
        else:
            got = {k: ln[k] for k in ('domain', 'path', 'secure', 'httponly', 'samesite', 'partitioned')}
            got.update(expires=ln['exp'] if ln['hasexp'] else -1, max_age=ln['maxage'] if ln['hasmaxage'] else None,
                       other=ln['other'], dup=ln['dup'])
            want = {k: c[k] for k in ('domain', 'path', 'secure', 'httponly', 'samesite', 'partitioned')}
            want.update(expires=c['exp'], max_age=c['maxage'] if c['hasmaxage'] else None, other=[], dup=False)
        if got != want:
            return 'P:cookie-attrs', 'cookie %r line %r has %r, spec %r' % (name, ln['text'], got, want)
        if not c['unset'] and echo.get(name) != [c['value']]:
            return 'P:cookie-echo', 'cookie %r=%r echoed back is read as %r' % (name, c['value'], echo.get(name))
    return None


# =================================================================================================
# judging
# =================================================================================================

# named deviations the judge can be given (diagnosis only): the five defects found by this check and repaired since
DEVIATIONS = {
    'M': 'set_cookie on a name written before in the response keeps the attributes of the earlier write',
    'Z': 'set_cookie(max_age=0) emits no Max-Age attribute',
    'E': 'a cookie with the empty value is echoed back as \'""\' by the request API',
    'Q': 'double quote / backslash are copied unescaped into filename="..." / title="..."',
    'C': 'control characters are copied into filename="..." instead of taking the filename* form',
}


def ascii_safe(x):
    """Re-encode every string of a trace injectively into ASCII (Python's unicode_escape: a character-wise code, so
    concatenation and equality are preserved).  TLC 1.8 was observed to compare non-ASCII strings inconsistently
    in large batches (equal strings built by \\o and read from JSON judged different: 43 spurious read-back
    rejections in a batch of 2000 traces, none when the same traces were judged in a smaller batch or escaped)."""
    if isinstance(x, str):
        return x.encode('unicode_escape').decode('ascii')
    if isinstance(x, list):
        return [ascii_safe(y) for y in x]
    if isinstance(x, dict):
        return {k: ascii_safe(v) for k, v in x.items()}
    return x


def judge_all(ctx, items, timeout=1500):
    """items: list of (trace, case).  TLC judges every trace against the property; every rejection is a violation.
    A sample of the rejected traces is re-judged under the named deviations to add a diagnostic hint."""
    traces = [ascii_safe(t) for t, _ in items]
    verdicts = ctx.judge('RespHeadersTrace', traces, 'RespHeadersTrace.cfg', timeout=timeout, workers=ctx.pick(8, 16))
    bad = []
    rejected = set()
    safe = []
    for i, ((trace, case), v) in enumerate(zip(items, verdicts)):
        if v == 'ok':
            continue
        clause = v.split('|')[0].split('@')[0]
        if clause.startswith('D:'):
            ctx.detail(clause, case, v)
        else:
            bad.append((trace, case, v))
            safe.append(traces[i])
            rejected.add(i)
    ctx.progress('judge: %d traces, %d rejected under the property' % (len(traces), len(bad)))
    # diagnosis only (no suppression): which named deviation(s) would explain a rejected trace.  All five were
    # defects of falcon that have been repaired; a recurrence is a plain violation.
    explained = {}
    todo = list(range(min(len(bad), 300)))
    for cfg in ('RespHeadersTraceK1.cfg', 'RespHeadersTraceK.cfg'):
        if not todo:
            break
        path = os.path.join(ctx.scratch, 'rejected.json')
        with open(path, 'w') as f:
            json.dump([safe[i] for i in todo], f)
        r = ctx.tlc('RespHeadersTrace', cfg, env={'TRACE_FILE': path}, workers=8, timeout=timeout, count=False)
        for tag, fields in r.tuples:
            if tag == 'VERDICT' and len(fields) >= 4 and (fields[1] == 'ok' or fields[1].startswith('D:')):
                i, k = todo[fields[0] - 1], fields[3]
                cur = explained.get(i)
                if cur is None or (len(k), k) < (len(cur), cur):
                    explained[i] = k
        os.unlink(path)
        todo = [i for i in todo if i not in explained]
    nfail = 0
    for i, (trace, case, v) in enumerate(bad):
        clause = v.split('|')[0]
        k = explained.get(i)
        hint = '' if not k else ' [would be accepted with the repaired defect(s) back: %s]' % '; '.join(DEVIATIONS[d] for d in k)
        sig = None
        if clause == 'P:cookie-name-refusal':
            try:
                e = trace['ev'][int(v.rsplit('@', 1)[1]) - 1]
                sig = name_signature(e['op'], e['ck'], e['err'])
            except (ValueError, IndexError, KeyError):
                sig = None
        if ctx.violation(clause, {'case': case, 'trace': trace}, 'trace rejected by RespHeadersTrace: %s%s' % (v, hint), signature=sig) is not False:
            nfail += 1
    return rejected, nfail


# =================================================================================================
# random driver (leg B)
# =================================================================================================

R_BASES = ['x-a', 'x-b', 'etag', 'link', 'location', 'content-type', 'vary', 'content-disposition', 'cache-control',
           'x-request-id', 'www-authenticate', 'set-cookie', 'set-cookie']
R_VALUES = ['v1', 'v2', 'a, b', 'caf\xe9', 'x=1; y', '"q"', '', 'text/html; charset=utf-8', '\xa0\xff', 'W/"1"']
R_RAWCOOKIES = ['r1=x; Path=/r', 'r2=y', 'r1=z; HttpOnly', 'r3="q q"; Max-Age=5']
R_BLOCKS = ['a', 'b.txt', '"', '\\', ' ', '%', '%41', '%20', '%-5', '%+F', '%4', '%zz', '/', '<', '>', ',', ';', "'", '+', '=', '\xe9', '€', '\U0001f600',
            '\r\n', '\t', '\x7f', 'Ж', 'z', '?q=1&r', '#f', '[', ']']
R_COOKIE_NAMES = ['sid', 'SID', 'a.b', 'x-y_z', 't0k']
R_COOKIE_VALUES = ['v1', 'v2', 'a b', 'x;y', 'q"q', 'b\\s', 'k=v', '', 'c,d', '1234567890abcdef', ' lead', '\t']
R_DOMAINS = ['', '', 'example.com', '.example.com', 'sub.example.org']
R_PATHS = ['', '', '/', '/p', '/a/b']
R_EPOCHS = [784111777, 1000000000, 2114380800, 1700000000, 86400]


def rstring(rng, ascii_only=False, maxblocks=4, ctl=True):
    bl = [b for b in R_BLOCKS if (b.isascii() or not ascii_only) and (ctl or not any(ord(c) < 32 and c != '\t' or ord(c) == 127 for c in b))]
    return ''.join(rng.choice(bl) for _ in range(rng.randint(1, maxblocks)))


def looks_escaped(s):
    """every "%" starts a valid escape: the URI helpers pass such a value through (see RespHeadersOps.LooksEscaped)"""
    return '%' in s and re.fullmatch(r'(?:[^%]|%[0-9A-Fa-f]{2})*', s) is not None


def ruri(rng, maxblocks=4):
    while True:
        s = rstring(rng, maxblocks=maxblocks)
        if not looks_escaped(s):
            return s


def rname(rng):
    b = rng.choice(R_BASES)
    t = rng.random()
    c = 0 if t < 0.3 else (1 << len(b)) - 1 if t < 0.4 else rng.getrandbits(len(b))
    return {'b': b, 'c': c}


def rtyped(rng):
    p = rng.choice(['cache_control', 'content_location', 'content_length', 'content_range', 'content_type',
                    'downloadable_as', 'viewable_as', 'etag', 'expires', 'last_modified', 'location', 'retry_after',
                    'vary', 'accept_ranges'])
    if rng.random() < 0.15:
        return p, NOARG
    a = dict(NOARG)
    if p in ('content_location', 'location'):
        a.update(kind='codec', s=rstring(rng))
    elif p in ('downloadable_as', 'viewable_as'):
        a.update(kind='codec', s=rstring(rng, ascii_only=rng.random() < 0.5))
    elif p in ('expires', 'last_modified'):
        a.update(kind='codec', i=rng.choice(R_EPOCHS + [rng.randrange(0, 2 ** 31 - 1)]))
    elif p in ('cache_control', 'vary'):
        a.update(kind='list', l=[rng.choice(['no-cache', 'public', 'max-age=3', 'Accept', 'Cookie', '*', 'x-a'])
                                 for _ in range(rng.randint(1, 3))])
    elif p in ('content_length', 'retry_after'):
        if rng.random() < 0.7:
            a.update(kind='int', i=rng.choice([0, 1, 42, 120, 65536]))
        else:
            a.update(kind='str', s=rng.choice(['7', '0', '1000']))
    elif p == 'content_range':
        i = rng.randint(0, 50)
        a.update(kind='range', i=i, j=i + rng.randint(0, 50), s=rng.choice(['100', '*', '12345']), u=rng.choice(['', '', 'items']))
    elif p == 'etag':
        a.update(kind='str', s=rng.choice(['abc', '"q"', 'W/"w"', 'a"b', '0', '\xe9t']))
    else:
        a.update(kind='str', s=rng.choice(['text/plain', 'application/xml', 'bytes', 'none', 'text/html; charset=utf-8']))
    return p, a


def rlink(rng):
    l = dict(NOLINK)
    l['target'] = ruri(rng)
    l['rel'] = rng.choice(['next', 'prev', 'alternate', 'http://example.com/rel/' + ruri(rng, 2).replace(' ', '_'),
                           'http://example.com/a https://example.org/b\xe9'])
    if rng.random() < 0.4:
        l['title'] = [rstring(rng, ascii_only=True, ctl=False)]
    if rng.random() < 0.4:
        l['tstar'] = [{'lang': rng.choice(['', 'en', 'de-CH']), 'text': ruri(rng)}]
    if rng.random() < 0.3:
        l['anchor'] = [ruri(rng)]
    if rng.random() < 0.3:
        l['type'] = [rng.choice(['text/html', 'application/json'])]
    if rng.random() < 0.3:
        l['hreflang'] = [rng.choice(['en', 'de', 'fr']) for _ in range(rng.randint(1, 3))]
    if rng.random() < 0.2:
        l['crossorigin'] = [rng.choice(['anonymous', 'use-credentials'])]
    return l


CK_ALPHABET = '\\\\\\01237' + '89"",;  aZ\n\t\x01\x7f=:/%'


def rcookie(rng):
    ca = dict(NOCA)
    if rng.random() < 0.5:
        ca['value'] = rng.choice(R_COOKIE_VALUES)
    else:       # strings over backslash / octal digits / quote / separators / controls (the coded form is what matters)
        ca['value'] = ''.join(rng.choice(CK_ALPHABET) for _ in range(rng.randint(1, 12)))
        if rng.random() < 0.05:
            ca['value'] += rng.choice('\xe9\u20ac')          # not ASCII: set_cookie must refuse it
    if rng.random() < 0.4:
        aware = rng.random() < 0.5
        ca.update(exp=rng.choice(R_EPOCHS), expkind='aware' if aware else 'naive',
                  off=rng.choice([0, 60, 120, -330, 765]) if aware else 0)
    t = rng.random()
    if t < 0.2:
        ca['ma'] = {'kind': 'int', 'num': rng.choice([0, 1, 100, 86400, -5]), 'frac': 0}
    elif t < 0.3:
        ca['ma'] = {'kind': 'float', 'num': rng.choice([0, 1, 100]), 'frac': rng.choice([0, 5, 9])}
    elif t < 0.4:
        ca['ma'] = {'kind': 'str', 'num': rng.choice([0, 37, 100]), 'frac': 0}
    ca['domain'] = rng.choice(R_DOMAINS)
    ca['path'] = rng.choice(R_PATHS)
    ca['secure'] = rng.choice(['none', 'none', 'true', 'false'])
    ca['httponly'] = rng.random() < 0.6
    if rng.random() < 0.5:
        b = rng.choice(['lax', 'strict', 'none'])
        ca['ss'] = {'b': b, 'c': rng.getrandbits(len(b))}
    ca['partitioned'] = rng.random() < 0.25
    return ca


TOKEN_SPECIALS = "!#$%&'*+-.^_`|~"
NAME_REFUSED = '()<>@,;:\\"/[]?={} \t\x00\x01\n\r\x1f\x7f\x80\xe9\xff\u20ac'


def rckname(rng):
    """cookie names: the fixed pool, random RFC 7230 tokens (specials at the start / in the middle / at the end, names
    of specials only), and tokens spoiled by one character set_cookie must refuse"""
    t = rng.random()
    if t < 0.4:
        return rng.choice(R_COOKIE_NAMES)
    n = ''.join(rng.choice(TOKEN_SPECIALS if rng.random() < 0.6 else 'aZ09bk') for _ in range(rng.randint(1, 5)))
    if t < 0.85:
        return n
    i = rng.randint(0, len(n))
    return n[:i] + rng.choice(NAME_REFUSED) + n[i:]


def nontoken_chars(name):
    return sorted({ch for ch in name if ch not in TCHAR})


def name_signature(op, name, err):
    """structural signature of a name-refusal failure: which call, accepted or refused, which non-token characters"""
    return {'clause': 'P:cookie-name-refusal', 'op': op, 'refused': bool(err), 'nontoken': nontoken_chars(name)}


def random_history(rng):
    calls = []
    for _ in range(rng.randint(1, 12)):
        t = rng.random()
        if t < 0.12:
            calls.append(call('get', n=rname(rng)))
        elif t < 0.27:
            calls.append(call('set', n=rname(rng), v=rng.choice(R_VALUES)))
        elif t < 0.35:
            calls.append(call('delete', n=rname(rng)))
        elif t < 0.50:
            n = rname(rng)
            calls.append(call('append', n=n, v=rng.choice(R_RAWCOOKIES if n['b'] == 'set-cookie' else R_VALUES)))
        elif t < 0.57:
            if rng.random() < 0.2:
                items = [{'n': {'b': 'set-cookie', 'c': rng.getrandbits(10)}, 'v': 'v1'}]
            else:
                items = []
                while len(items) < rng.randint(1, 4):
                    n = rname(rng)
                    if n['b'] != 'set-cookie':
                        items.append({'n': n, 'v': rng.choice(R_VALUES)})
            calls.append(call('set_headers', items=items, form=rng.choice(BULK_FORMS)))
        elif t < 0.70:
            p, a = rtyped(rng)
            calls.append(call('typed', p=p, a=a))
        elif t < 0.74:
            calls.append(call('typed_get', p=rtyped(rng)[0]))
        elif t < 0.80:
            calls.append(call('link', link=rlink(rng)))
        elif t < 0.90:
            calls.append(call('set_cookie', ck=rckname(rng), ca=rcookie(rng)))
        elif t < 0.94:
            calls.append(call('set_option', flag=rng.random() < 0.5))
        else:
            calls.append(call('unset_cookie', ck=rckname(rng),
                              ua={'samesite': rng.choice(['Lax', 'Lax', 'Strict', 'None']), 'domain': rng.choice(R_DOMAINS),
                                  'path': rng.choice(R_PATHS)}))
    return calls


# =================================================================================================
# encoding-law table (leg A2): one spec case -> one call
# =================================================================================================

def enc_call(case):
    s = ''.join(chr(c) for c in case['s'])
    hp = case['helper']
    if hp in ('location', 'content_location', 'downloadable_as', 'viewable_as'):
        return call('typed', p=hp, a=dict(NOARG, kind='codec', s=s))
    l = dict(NOLINK, target='/t', rel='next')
    if hp == 'link_target':
        l['target'] = s
    elif hp == 'link_title':
        l['title'] = [s]
    elif hp == 'link_title_star':
        l['tstar'] = [{'lang': 'en', 'text': s}]
    elif hp == 'link_anchor':
        l['anchor'] = [s]
    elif hp == 'link_rel':
        l['rel'] = 'http://example.com/rel/' + s
    else:
        raise MachineryError('unknown helper %r' % hp)
    return call('link', link=l)


def enc_decoded(case, ev):
    """the decoded counterpart of the spec's `dec` in the recorded event (None: the decoder rejected the text)."""
    law = ev['law']
    if not law['ok']:
        return None
    hp = case['helper']
    if ev['op'] == 'typed':
        return law['dec']
    l = law['link']
    pick = {'link_target': lambda: l['target'], 'link_title': lambda: l['title'][0], 'link_title_star': lambda: l['tstar'][0]['text'],
            'link_anchor': lambda: l['anchor'][0], 'link_rel': lambda: l['rel'][len('http://example.com/rel/'):]}
    try:
        return cps(pick[hp]())
    except (IndexError, KeyError):
        return None


# =================================================================================================

def run(ctx):
    ctx.rule = ('case = (interface, secure default, call history); non-trivial iff some header name is touched in >= 2 '
                'casings or a cookie and a raw Set-Cookie coexist; distinct by hash of the case')
    ctx.trusted_base = ['TLC 1.8 evaluation of spec/RespHeadersOps.tla', 'engine/drivers.py (PEP 3333 / ASGI HTTP drivers)',
                        'urllib.parse.unquote (percent-decoding, UTF-8 strict)', 'email.utils.parsedate_to_datetime',
                        'hand-written RFC 9110 quoted-string / RFC 6266 + 8187 Content-Disposition / RFC 8288 Link / '
                        'RFC 6265 5.2 Set-Cookie parsers in checks/c15.py',
                        'falcon.Request.cookies / get_cookie_values for the echo clause (the property names both ends)']
    ctx.assumptions = ['the handler produces no body: Content-Length is the framework\'s (compared as a D-clause)',
                       'bulk set_headers never mixes Set-Cookie with other names; rejected cookie names / same_site '
                       'values are not driven (outcome of a failed call is not stated by the property)',
                       'a plain link title is ASCII without control characters (documented: use title_star otherwise; a '
                       'quoted-string cannot carry them); relation types are single tokens or URIs',
                       'a value that already looks percent-escaped is passed through by the URI helpers (documented '
                       'heuristic of encode_check_escaped): the law is not stated for such originals, link members are '
                       'not generated that way', 'raw cookie names are disjoint from set_cookie names',
                       'unset_cookie on a name already written in the response may inherit the attributes the call did not '
                       'give (interpretation fixed with the coordinator: not decidable from the statement, pinned by '
                       'tests/test_cookies.py::test_response_complex_case)',
                       'expiry instants lie before 2038 (TLC integers)']

    # ---- leg M: the design, and the wrong designs ------------------------------------------------
    r = ctx.tlc('MC_RespHeaders', ctx.pick('MC_RespHeaders.cfg', 'MC_RespHeadersT.cfg'), coverage=True, workers=ctx.pick(8, 16),
                timeout=1500)
    ctx.require_coverage(r, ['XGet', 'XSet', 'XDelete', 'XAppend', 'XSetHeaders', 'XSetTyped', 'XGetTyped', 'XAppendLink',
                             'XSetCookie', 'XUnsetCookie', 'XEmitWsgi', 'XEmitAsgi', 'XSetOption'])
    ctx.exhaustive = True
    wrong = {}
    for name, inv in (('NoLower', {'XReadBackIsMap', 'EmitOncePerPlainHeader', 'AsgiNamesLower'}),
                      ('NoGuard', {'NoSetCookieInMap', 'OneLinePerCookieAndRawCookie'}),
                      ('Morsel', {'CookieExactAttrs', 'UnsetExpires', 'SecureDefaultsFromOption'}),
                      ('NoSecDef', {'CookieExactAttrs', 'SecureDefaultsFromOption'}),
                      ('Snapshot', {'CookieExactAttrs', 'SecureDefaultsFromOption'})):
        rw = ctx.tlc('MC_RespHeaders', 'MC_RespHeaders_%s.cfg' % name, must_hold=False, count=False, workers=4, timeout=300)
        if rw.violated not in inv:
            raise MachineryError('wrong design %s should violate one of %s, TLC says %r' % (name, sorted(inv), rw.violated))
        wrong[name] = rw.violated
    rw = ctx.tlc('MC_RespHeaders', 'MC_RespHeadersCk_TwoPass.cfg', must_hold=False, count=False, workers=4, timeout=300)
    if rw.violated != 'CookieRoundTrip':
        raise MachineryError('the two-pass cookie unquoter should violate CookieRoundTrip, TLC says %r' % rw.violated)
    wrong['TwoPassUnquote'] = rw.violated
    ctx.extra['wrong_designs_rejected'] = wrong
    ctx.progress('leg M done: %d states; wrong designs rejected: %s' % (r.distinct, wrong))

    items = {}          # digest -> (trace, case)

    def keep(trace, case, calls):
        ctx.case(case, nontrivial=nontrivial(calls), key=digest(case))
        k = digest(trace)
        if k not in items:
            items[k] = (trace, case)

    # ---- leg A1: TLC histories replayed on both Response classes ---------------------------------
    nsim = ctx.pick(200, 2000)
    rs = ctx.tlc('MC_RespHeaders', 'MC_RespHeadersSim.cfg', simulate={'num': nsim}, depth=8, seed=ctx.seed + 1, workers=4,
                 timeout=900, count=False)
    behaviours = {digest(b): b for b in rs.json}
    if len(behaviours) < nsim:
        raise MachineryError('behaviour export produced only %d behaviours' % len(behaviours))
    # ... plus, exhaustively, every history of 3 (thorough: 4) calls on the Link header (plain calls in two casings
    # and append_link): 10^3 resp. 10^4 behaviours
    rl = ctx.tlc('MC_RespHeaders', ctx.pick('MC_RespHeadersLink.cfg', 'MC_RespHeadersLink4.cfg'), workers=4, timeout=900, count=False)
    linkb = {digest(b): b for b in rl.json}
    if len(linkb) != ctx.pick(1000, 10000):
        raise MachineryError('exhaustive Link export produced %d behaviours' % len(linkb))
    ctx.extra['exhaustive_link_histories'] = len(linkb)
    behaviours.update(linkb)
    replayed = mism = nbulk = 0
    pending = []
    for b in behaviours.values():
        calls = [e['call'] for e in b['ev']]
        for c in calls:
            if c['op'] == 'set_headers':          # the container form is the harness' choice: rotate through all of them
                c['form'] = BULK_FORMS[nbulk % len(BULK_FORMS)]
                nbulk += 1
        for iface in ('wsgi', 'asgi'):
            tz = TIMEZONES[replayed % len(TIMEZONES)]
            trace = execute(iface, b['sd'], calls, tz=tz)
            case = {'origin': 'spec-behaviour', 'iface': iface, 'sd': b['sd'], 'calls': calls, 'tz': tz}
            keep(trace, case, calls)
            replayed += 1
            m = compare_behaviour(ctx, b, trace, case)
            if m:
                mism += 1
                pending.append((digest(trace), m, case))
    ctx.traces_validated += replayed
    ctx.extra['spec_behaviours'] = len(behaviours)
    ctx.progress('leg A1 done: %d behaviours, %d replays, %d with a mismatch' % (len(behaviours), replayed, mism))

    # ---- leg A2: the encoding-law table -------------------------------------------------------------
    re_ = ctx.tlc('MC_RespHeaders', ctx.pick('MC_RespHeadersEnc.cfg', 'MC_RespHeadersEnc3.cfg'), workers=4, timeout=900, count=False)
    table = {digest(c): c for c in re_.json}
    if not table:
        raise MachineryError('encoding table is empty')
    nenc = 0
    for j, c in enumerate(table.values()):
        iface = 'wsgi' if j % 2 == 0 else 'asgi'
        calls = [enc_call(c)]
        trace = execute(iface, True, calls)
        case = {'origin': 'spec-encoding-table', 'iface': iface, 'sd': True, 'calls': calls, 'helper': c['helper'], 's': c['s']}
        ctx.case(case, nontrivial=False, key=digest(case))
        k = digest(trace)
        items.setdefault(k, (trace, case))
        nenc += 1
        ev = trace['ev'][0]
        got = enc_decoded(c, ev)
        if ev['exc'] or got != c['dec'] or any(x > 127 for x in ev['law']['cps']) or (
                c['helper'] in ('location', 'content_location', 'link_target')
                and re.search(r'%(?![0-9A-Fa-f]{2})', ''.join(map(chr, ev['law']['uricps'])))):
            pending.append((k, ('P:decode', '%s(%r): emitted %r decodes to %r' % (
                c['helper'], ''.join(map(chr, c['s'])), ev['law']['text'], None if got is None else ''.join(map(chr, got)))), case))
    ctx.traces_validated += nenc
    ctx.extra['encoding_cases'] = nenc
    ctx.progress('leg A2 done: %d encoding cases' % nenc)

    # ---- leg A3: cookie-value coding: law model-checked + every value of the table round-tripped -----------------
    # TLC checks CookieDecode(CookieEncode(v)) = v for every value of the instance and exports (v, coded, refused);
    # 25 values per response: set_cookie -> the server's Set-Cookie lines -> Cookie header -> req.cookies
    tabs = [ctx.tlc('MC_RespHeaders', ctx.pick('MC_RespHeadersCkQ.cfg', 'MC_RespHeadersCk.cfg'), workers=4, timeout=900)]
    if not ctx.quick:
        tabs.append(ctx.tlc('MC_RespHeaders', 'MC_RespHeadersCk5.cfg', workers=4, timeout=900))
    cvals = {}
    for rt in tabs:
        for c in rt.json:
            cvals.setdefault(tuple(c['v']), c)
    cvals = list(cvals.values())
    if len(cvals) < ctx.pick(11000, 50000):
        raise MachineryError('cookie value table has only %d values' % len(cvals))
    per = 25
    nck = 0
    for off in range(0, len(cvals), per):
        part = cvals[off:off + per]
        calls = [call('set_cookie', ck='c%02d' % i, ca=dict(NOCA, value=''.join(map(chr, c['v'])))) for i, c in enumerate(part)]
        iface = 'wsgi' if (off // per) % 2 == 0 else 'asgi'
        trace = execute(iface, True, calls)
        case = {'origin': 'spec-cookie-value-table', 'iface': iface, 'sd': True, 'calls': calls}
        ctx.case(case, nontrivial=False, key=digest(case))
        k = digest(trace)
        items.setdefault(k, (trace, case))
        nck += len(part)
        e = trace['ev'][-1]
        lines = {ln['name']: ln for ln in e['lines']}
        echo = dict((a, b) for a, b in e['echo'])
        for i, (c, ev) in enumerate(zip(part, trace['ev'])):
            name, v = 'c%02d' % i, ''.join(map(chr, c['v']))
            if ev['exc'] or ev['err'] != c['refused']:
                pending.append((k, ('P:cookie-refusal', 'set_cookie(%r): raised=%r exc=%r, spec refused=%r' % (v, ev['err'], ev['exc'], c['refused'])), case))
            elif not c['refused']:
                if name in lines and lines[name]['vcps'] != c['coded']:
                    ctx.detail('D:cookie-coding', case, 'value %r is sent as %r, spec %r' % (v, lines[name]['value'], ''.join(map(chr, c['coded']))))
                if echo.get(name) != [v]:
                    pending.append((k, ('P:cookie-echo', 'cookie value %r sent as %r is read back as %r' % (
                        v, lines.get(name, {}).get('value'), echo.get(name))), case))
    ctx.traces_validated += (len(cvals) + per - 1) // per
    ctx.extra['cookie_values_round_tripped'] = nck
    ctx.progress('leg A3 done: %d cookie values (law model-checked, each round-tripped)' % nck)

    # ---- leg A4: the alphabet of cookie NAMES ------------------------------------------------------------------
    # TLC checks CookieNameRoundTrip / CookieNameVerbatim / CookieNameRefusals for every name of <= 3 characters
    # (quick: <= 2 over the complete alphabet, 3 over specials + separators + representatives; thorough: 3 over the
    # complete alphabet) and exports (name, legal) plus the neighbours of the law.  Each exported name goes through
    # set_cookie or unset_cookie on a real response between the spec's neighbours (two before, two after), the Set-Cookie
    # lines as the server got them go back in one Cookie header, and both Request classes read it.
    rw = ctx.tlc('MC_RespHeadersCkn', 'MC_RespHeadersCkn_Colon.cfg', must_hold=False, count=False, workers=2, timeout=300)
    if rw.violated != 'CookieNameRoundTrip':
        raise MachineryError('accepting the names of http.cookies (colon) should violate CookieNameRoundTrip, TLC says %r' % rw.violated)
    wrong['HttpCookiesNames'] = rw.violated
    rn = ctx.tlc('MC_RespHeadersCkn', ctx.pick('MC_RespHeadersCknQ.cfg', 'MC_RespHeadersCkn.cfg'), coverage=True,
                 workers=ctx.pick(6, 16), timeout=ctx.pick(600, 3000))
    ctx.require_coverage(rn, ['CknNext'])
    table = {}
    konst = None
    for c in rn.json:
        table.setdefault(tuple(c['n']), c['legal'])
        if not c['n']:
            konst = c
    if konst is None or len(table) < ctx.pick(40000, 40000) or not any(table.values()):
        raise MachineryError('cookie name table: %d names, constants %r' % (len(table), konst))
    txt = lambda cp: ''.join(map(chr, cp))
    nvalue = txt(konst['value'])
    before = [call('set_cookie', ck=txt(p['n']), ca=dict(NOCA, value=txt(p['v']))) for p in konst['before']]
    after = [call('set_cookie', ck=txt(p['n']), ca=dict(NOCA, value=txt(p['v']))) for p in konst['after']]
    neigh = {c['ck']: c['ca']['value'] for c in before + after}
    names = sorted(table)
    ctx.rng.shuffle(names)          # (so that every response mixes lengths, legal and refused names)
    per = 60
    agg = {}                        # (clause, signature json) -> [count, first what, first case]

    def name_fail(clause, sig, what, case):
        k = (clause, json.dumps(sig, sort_keys=True))
        a = agg.setdefault(k, [0, what, case, sig])
        a[0] += 1

    nnames = 0
    for bi, off in enumerate(range(0, len(names), per)):
        part = [txt(n) for n in names[off:off + per]]
        iface = 'wsgi' if bi % 2 == 0 else 'asgi'
        # two of three responses write the names with set_cookie, the third with unset_cookie; names <= 2 characters
        # (the complete alphabet) take both routes on both stacks over the seeds
        mid = []
        for j, nm in enumerate(part):
            if (bi // 2 + j) % 3 == 2:
                mid.append(call('unset_cookie', ck=nm, ua={'samesite': 'Lax', 'domain': '', 'path': ''}))
            else:
                mid.append(call('set_cookie', ck=nm, ca=dict(NOCA, value=nvalue)))
        calls = before + mid + after
        trace = execute(iface, True, calls)
        case = {'origin': 'spec-cookie-name-table', 'iface': iface, 'sd': True, 'calls': calls}
        ctx.case(case, nontrivial=False, key=digest(case))
        if bi % 8 == 0:             # a share of these traces is judged by TLC as well
            items.setdefault(digest(trace), (trace, case))
        nnames += len(part)
        e = trace['ev'][-1]
        if e['exc']:
            pending.append((digest(trace), ('P:exception', e['exc']), case))
            continue
        lines = {}
        for ln in e['lines']:
            lines.setdefault(ln['name'], []).append(ln)
        echo = dict((a, b) for a, b in e['echo'])
        echo1 = dict((a, b) for a, b in e['echo1'])
        small = lambda c: dict(case, calls=before + [c] + after)
        for c, ev in zip(mid, trace['ev'][len(before):]):
            nm, op, legal = c['ck'], c['op'], table[tuple(cps(c['ck']))]
            if ev['exc']:
                name_fail('P:exception', {'clause': 'P:exception', 'op': op, 'nontoken': nontoken_chars(nm)},
                          '%s(%r) raised %s' % (op, nm, ev['exc']), small(c))
            elif ev['err'] != (not legal):
                name_fail('P:cookie-name-refusal', name_signature(op, nm, ev['err']),
                          '%s(%r): refused=%r, spec CookieNameLegal=%r' % (op, nm, ev['err'], legal), small(c))
            elif legal:
                want = [nvalue] if op == 'set_cookie' else ['']
                ls = lines.get(nm, [])
                if len(ls) != 1 or not ls[0]['text'].startswith(nm + '='):
                    name_fail('P:cookie-lines', {'clause': 'P:cookie-lines', 'op': op, 'emitted-verbatim': False},
                              '%s(%r): %d Set-Cookie lines carry the name verbatim (lines %r)' % (op, nm, len(ls), [l['text'] for l in ls][:2]), small(c))
                elif echo.get(nm) != want or echo1.get(nm) != want:
                    name_fail('P:cookie-echo', {'clause': 'P:cookie-echo', 'op': op, 'legal-name': True},
                              'cookie %r written by %s and echoed between other cookies is read as get_cookie_values=%r cookies=%r, spec %r'
                              % (nm, op, echo.get(nm), echo1.get(nm), want), small(c))
            elif nm in lines:
                name_fail('P:cookie-lines', {'clause': 'P:cookie-lines', 'op': op, 'refused-but-emitted': nontoken_chars(nm)},
                          '%s(%r) was refused but a line carries the name' % (op, nm), small(c))
        for nm, v in neigh.items():
            if echo.get(nm) != [v] or echo1.get(nm) != [v]:
                name_fail('P:cookie-echo', {'clause': 'P:cookie-echo', 'neighbour': nm},
                          'neighbour cookie %r=%r is read as %r next to the names %r' % (nm, v, echo.get(nm), part[:5]), case)
    for (clause, _), (cnt, what, case1, sig) in sorted(agg.items(), key=lambda kv: kv[0]):
        ctx.violation(clause, case1, '%s  [%d names of the table fail this way]' % (what, cnt), signature=sig)
    ctx.traces_validated += (len(names) + per - 1) // per
    ctx.extra['cookie_names_round_tripped'] = nnames
    ctx.extra['cookie_names_legal'] = sum(1 for v in table.values() if v)
    ctx.progress('leg A4 done: %d cookie names (%d legal; law model-checked over %d states, each exported name replayed), %d failure classes'
                 % (nnames, ctx.extra['cookie_names_legal'], rn.distinct, len(agg)))

    # ---- leg B: seeded random histories beyond the bound --------------------------------------------
    nrand = ctx.pick(2500, 30000)
    rng = ctx.rng
    for i in range(nrand):
        calls = random_history(rng)
        iface = 'wsgi' if i % 2 == 0 else 'asgi'
        sd = rng.random() < 0.5
        tz = rng.choice(TIMEZONES)
        trace = execute(iface, sd, calls, tz=tz)
        keep(trace, {'origin': 'random', 'iface': iface, 'sd': sd, 'calls': calls, 'tz': tz}, calls)
    ctx.progress('leg B recorded: %d executions, %d distinct traces' % (ctx.evaluations, len(items)))

    # ---- TLC judges every distinct trace -------------------------------------------------------------
    keys = list(items)
    rejected, nfail = judge_all(ctx, [items[k] for k in keys])
    ctx.extra['distinct_traces_judged'] = len(keys)
    ctx.extra['traces_rejected_under_property'] = len(rejected)
    # a replay mismatch must also have been rejected by the judge; otherwise report it on its own
    badkeys = {keys[i] for i in rejected}
    for k, (clause, what), case in pending:
        if k not in badkeys:
            ctx.violation(clause, case, 'replay differs from the specification although the judge accepted the trace: %s' % what)


def replay(ctx, case):
    c = case.get('case', case)
    trace = execute(c['iface'], c['sd'], c['calls'], tz=c.get('tz', 'UTC'))
    for e in trace['ev']:
        print({k: v for k, v in e.items() if k in ('op', 'err', 'exc', 'res', 'after', 'law', 'plain', 'lines', 'echo')})
    judge_all(ctx, [(trace, c)])


def selftest(ctx):
    """Binding demonstration for the judge (DESIGN 2.3): one recorded trace is accepted, and each of nine
    corruptions of it (one field changed / one event dropped) is rejected with the clause it breaks.
    Run:  PYTHONPATH=/verif python -c "import engine.srcimport, checks.c15 as c; from engine.core import Ctx; c.selftest(Ctx('C15','quick',0))" """
    import copy
    calls = [call('set', n={'b': 'x-a', 'c': 1}, v='v1'), call('append', n={'b': 'x-a', 'c': 4}, v='v2'),
             call('get', n={'b': 'x-a', 'c': 5}), call('append', n={'b': 'set-cookie', 'c': 17}, v='r1=x'),
             call('set_cookie', ck='sid', ca=dict(NOCA, value='v1')),
             call('unset_cookie', ck='old', ua={'samesite': 'Lax', 'domain': '', 'path': ''}),
             call('typed', p='location', a=dict(NOARG, kind='codec', s='/caf\xe9 x')),
             call('delete', n={'b': 'set-cookie', 'c': 0})]
    t = execute('asgi', True, calls)
    muts = [('unchanged', 'ok', lambda m: None),
            ('get result corrupted', 'P:readback', lambda m: m['ev'][2].__setitem__('res', ['v1'])),
            ('append event dropped', 'P:readback', lambda m: m['ev'].pop(1)),
            ('cookie line lost Secure', 'P:cookie-attrs', lambda m: m['ev'][-1]['lines'][1].__setitem__('secure', False)),
            ('raw cookie line missing', 'P:cookie-lines', lambda m: m['ev'][-1]['lines'].pop(0)),
            ('ASGI name not lower-case', 'P:asgi-lower', lambda m: m['ev'][-1]['rawnames'].__setitem__(0, 'X-A')),
            ('delete Set-Cookie did not raise', 'P:setcookie-guard', lambda m: m['ev'][7].__setitem__('err', False)),
            ('decoded location differs', 'P:decode', lambda m: m['ev'][6]['law']['dec'].pop()),
            ('unset cookie expires in the future', 'P:unset-expired',
             lambda m: m['ev'][-1]['lines'][2].__setitem__('exp', m['ev'][-1]['now'] + 5)),
            ('echo reads another value', 'P:cookie-echo',
             lambda m: m['ev'][-1].__setitem__('echo', [[k, ['zz']] for k, _ in m['ev'][-1]['echo']]))]
    traces = []
    for _, _, f in muts:
        m = copy.deepcopy(t)
        f(m)
        traces.append(m)
    vs = ctx.judge('RespHeadersTrace', [ascii_safe(m) for m in traces], 'RespHeadersTrace.cfg', workers=2)
    for (name, want, _), v in zip(muts, vs):
        print('%-36s %s' % (name, v))
        if v.split('|')[0] != want:
            raise MachineryError('selftest: %s judged %s, expected %s' % (name, v, want))
