"""C09 - typed request-header accessors agree with the RFC reading or answer 400.

spec:   spec/HeaderAccessOps.tla   token-level grammars (Range, Content-Length, entity-tag lists, Forwarded,
                                   X-Forwarded-For, Host authority), access_route precedence, URL composition,
                                   Fresh(req, accessor) = the outcome a fresh computation has to give
        spec/HeaderAccess.tla      request state machine (Extend / Read / GetHeader), memoisation invariants
        spec/MC_HeaderAccess.tla   bounded instances (G: grammar exploration + decision-table export,
                                   M: memoisation, S: read histories for -simulate), firing counters
        spec/MC_HeaderDates.tla    HTTP-dates: every value within MaxMut slot edits of a valid IMF-fixdate / rfc850-date /
                                   asctime-date (slot vocabularies of valid and near-valid spellings), decided valid | invalid
                                   by the specification's own calendar; decision table for the seven date-typed reads
        spec/HeaderAccessTrace.tla trace judge (P:total, P:value, P:memo, D:doc400)
legs:   M  exhaustive TLC check of the grammars' well-formedness invariants and of the memo design
        A  TLC-exported decision tables (every header value up to the bound, with the specified outcome of
           each accessor) and TLC-simulated read histories replayed on falcon.Request / falcon.asgi.Request
        B  seeded random requests beyond the bound (longer values, several headers at once, opaque fuzz,
           random read orders with repeats) recorded from both real request classes and judged by TLC
        L  laws for what is not re-specified in TLA+ (DESIGN section 5): HTTP-dates, cookies and
           Read(Write(v)) = v against the response API, with email.utils / http.cookies as trusted decoders
"""
import datetime
import email.utils
import http.cookies
import itertools

META = {
    'property_id': 'C09',
    'design_ref': 'DESIGN.md section 4, C09',
    'technique': 'TLA+ token-level header grammars and request memo state machine model-checked with TLC; TLC decision '
                 'tables and simulated read histories replayed on both Request classes; recorded accessor traces '
                 'judged by TLC; round-trip laws with trusted stdlib decoders for dates and cookies',
    'level_text': 'Every header value up to the token bound is enumerated by TLC together with the outcome the '
                  'specification demands of each accessor (exact value for syntactically valid input, value-or-400 '
                  'otherwise) and replayed on the WSGI and ASGI request objects; read histories explore the memo '
                  'caches exhaustively in the model and by replay/trace judging on the code.',
    'level_note': 'Bounded: token sequences <= 3..6 per grammar exhaustively (vocabulary of spec/HeaderAccessOps.tla), '
                  '<= 14 tokens and opaque character fuzz randomly. HTTP-dates are specified at slot level (day-name, day, '
                  'month, year, time, zone, separators, tail; valid and near-valid spellings such as Avr/Okt/apr/APR, Don/Thx, '
                  'day 00/32/Feb 30, hour 24, minute/second 60-99, 2- and 5-digit years, UTC/+0000/gmt, one-digit day, doubled or '
                  'missing spaces, trailing garbage): TLC enumerates every value within 2 slot edits of a valid IMF-fixdate, '
                  'rfc850-date and asctime-date (quick: one base per format, ~6.4 k values; thorough: nine bases), decides '
                  'validity with the specification\'s Gregorian calendar (days per month, leap years, day name of the date) and '
                  'the table is replayed on req.date, if_modified_since, if_unmodified_since and get_header_as_datetime with and '
                  'without obs_date on both stacks, each read twice; leg B edits up to 5 slots. A valid obs-date read without '
                  'obs_date=True is "that instant or 400" (documented RFC 1123-only reading; counted in the evidence); a leap '
                  'second and a day name contradicting the date are value-or-400; two-digit years only where the 50-year rule '
                  'and the pivot 69 agree (94, 96, 00, 24). Range positions beyond TLC integers (2^63-1, 2^63, 2^64-1, 2^64, 25 '
                  'digits, leading zeros) are single tokens ordered by a table. Cookie octets and instants outside the date '
                  'vocabulary are not re-specified in TLA+: totality, idempotence, email.utils / http.cookies cross-checks and '
                  'Read(Write(v)) = v only. TLC -coverage does not terminate on this module; the vacuity guard '
                  'uses firing counters printed by a one-worker run instead. Trusted: TLC, engine/drivers.py, '
                  'email.utils, http.cookies.',
}

from engine.core import MachineryError, digest
from engine.drivers import Req, environ, scope

NIL = '~nil~'
WIRE = {'range': 'Range', 'content-length': 'Content-Length', 'if-match': 'If-Match',
        'if-none-match': 'If-None-Match', 'forwarded': 'Forwarded', 'x-forwarded-for': 'X-Forwarded-For',
        'x-real-ip': 'X-Real-IP', 'x-forwarded-proto': 'X-Forwarded-Proto', 'x-forwarded-host': 'X-Forwarded-Host',
        'host': 'Host', 'accept': 'Accept', 'date': 'Date', 'if-modified-since': 'If-Modified-Since',
        'if-unmodified-since': 'If-Unmodified-Since'}
HNAMES = sorted(WIRE)
CASINGS = ('lower', 'Title', 'UPPER', 'mIxEd')
ABSENT = {'p': False, 'o': False, 't': []}
WS_SCHEMES = ('ws', 'wss')
PREFERS_POOL = ['text/plain', 'application/json', 'application/xml']       # HeaderAccessOps!PrefersPool


def kinds(rq):
    """stacks that can express the request: ws / wss exist on ASGI only."""
    return ('asgi',) if rq['scheme'] in WS_SCHEMES else ('wsgi', 'asgi')
G_HDR = {'accept': 'accept', 'range': 'range', 'rset': 'range', 'clenx': 'content-length', 'clen': 'content-length', 'etag': 'if-none-match', 'fwd': 'forwarded',
         'xff': 'x-forwarded-for', 'host': 'host', 'rbig': 'range', 'date': 'date'}
DATE_HDRS = ('date', 'if-modified-since', 'if-unmodified-since')      # a 'date' table row is carried by all three
# date-typed reads that are not attributes: get_header_as_datetime(name, obs_date=..)
DATE_CALLS = {'date_hdr': ('Date', False), 'date_obs': ('Date', True), 'ims_obs': ('If-Modified-Since', True),
              'ius_obs': ('If-Unmodified-Since', True)}
# accessors the specification says nothing about beyond "value or 400, same on every read"
EXTRA_ATTRS = ('cookies', 'accept', 'client_accepts_msgpack', 'user_agent', 'if_range', 'content_type')


def cased(name, c):
    w = WIRE.get(name, name)
    if c == 'lower':
        return w.lower()
    if c == 'UPPER':
        return w.upper()
    if c == 'mIxEd':
        return ''.join(ch.upper() if i % 2 else ch.lower() for i, ch in enumerate(w))
    return w


def esc(s):
    """injective-enough printable spelling of a string (TLC strings stay ASCII)."""
    return ''.join(ch if 32 <= ord(ch) < 127 else '\\u{%x}' % ord(ch) for ch in s)


def unesc(s):
    """inverse of esc() for the \\u{hex} spelling: the text that goes on the wire (latin-1 characters: a
    native string in the WSGI environ, raw bytes in the ASGI scope - engine/drivers.py encodes latin-1)."""
    import re
    s = re.sub(r'\\r\{(.)\*(\d+)\}', lambda m: m.group(1) * int(m.group(2)), s)      # \\r{char*count}: a long run
    return re.sub(r'\\u\{([0-9a-f]+)\}', lambda m: chr(int(m.group(1), 16)), s)


def hdr(tokens):
    return {'p': True, 'o': False, 't': list(tokens)}


def opaque(text):
    return {'p': True, 'o': True, 't': ['?'], 'x': text}


def text_of(h):
    return h['x'] if h.get('o') else unesc(''.join(h['t']))


def base_req(scheme='http'):
    return {'scheme': scheme, 'server': ['srv.test', 8000], 'peer': '127.0.0.1', 'root': '', 'path': '/',
            'query': '', 'h': {n: dict(ABSENT) for n in HNAMES}}


def spec_view(rq):
    """the request as the specification sees it (no raw text of opaque values, no extra headers)."""
    return {'scheme': rq['scheme'], 'server': rq['server'], 'peer': rq['peer'], 'root': rq['root'],
            'path': rq['path'], 'query': rq['query'],
            'h': {n: {'p': h['p'], 'o': h['o'], 't': h['t']} for n, h in rq['h'].items()}}


async def _receive():
    return {'type': 'http.disconnect'}


def build(rq, kind, wire_casing='Title', extra=()):
    """a real request object for the abstract request rq ('wsgi' | 'asgi')."""
    import falcon
    import falcon.asgi
    headers = [(cased(n, wire_casing), text_of(h)) for n, h in rq['h'].items() if h['p']]
    headers += list(extra)
    r = Req(method='GET', target=rq['path'], query=rq['query'], headers=headers, scheme=rq['scheme'],
            host=rq['server'][0], port=rq['server'][1], client=(rq['peer'], 51234), root_path=rq['root'])
    if kind == 'wsgi':
        env = environ(r)
        if not rq['h']['host']['p']:
            env.pop('HTTP_HOST', None)          # HTTP/1.0 style request: the driver adds Host when absent
        return falcon.Request(env)
    sc = scope(r)
    if rq['scheme'] in WS_SCHEMES:                 # the handshake request of a WebSocket connection
        sc['type'] = 'websocket'
        sc.pop('method', None)
        sc['subprotocols'] = []
    if not rq['h']['host']['p']:
        sc['headers'] = [kv for kv in sc['headers'] if kv[0] != b'host']
    return falcon.asgi.Request(sc, _receive)


def _int(n):
    return -(2 ** 31) < n < 2 ** 31


def project(a, v):
    """harness projection of a returned value onto the specification's uniform record."""
    val = lambda s, i=(), l=(): {'k': 'value', 's': s, 'i': list(i), 'l': list(l)}
    if v is None:
        return val(NIL)
    if isinstance(v, bool):
        return val('true' if v else 'false')
    if isinstance(v, int):
        return val('#i', [v]) if _int(v) else val('#big:%d' % v)
    if isinstance(v, datetime.datetime):
        return val(v.isoformat())
    if isinstance(v, str):
        return val(esc(v))
    if isinstance(v, tuple) and all(isinstance(x, int) for x in v):
        return val('#i', v) if all(_int(x) for x in v) else val('#big:%r' % (v,))
    if isinstance(v, dict):
        return val('#l', l=['%s=%s' % (esc(str(k)), esc(str(x))) for k, x in sorted(v.items())])
    if isinstance(v, list):
        if a in ('if_match', 'if_none_match'):
            return val('#l', l=[esc(x) if not hasattr(x, 'is_weak') else
                                ('W/' if x.is_weak else '') + '"' + esc(str(x)) + '"' for x in v])
        if a == 'forwarded':
            out = []
            for e in v:
                out += [NIL if x is None else esc(x) for x in (e.src, e.dest, e.host, e.scheme)]
            return val('#l', l=out)
        return val('#l', l=[esc(str(x)) for x in v])
    return val('#repr:' + esc(repr(v)))


def observe(q, a, hn='', casing='Title'):
    """one public read; returns (observation, exception or None)."""
    import falcon
    try:
        if a == 'get_header':
            v = q.get_header(cased(hn, casing))
        elif a == 'accepts_text_plain':
            v = q.client_accepts('text/plain')
        elif a == 'prefers':
            v = q.client_prefers(list(PREFERS_POOL))
        elif a in DATE_CALLS:
            name, obs = DATE_CALLS[a]
            v = q.get_header_as_datetime(cased(name.lower(), casing), obs_date=obs) if obs else \
                q.get_header_as_datetime(cased(name.lower(), casing))
        else:
            v = getattr(q, a)
        return project(a, v), None
    except falcon.HTTPError as ex:
        code = getattr(ex, 'status_code', None)
        if isinstance(code, int) and 400 <= code <= 499:
            return {'k': 'err400', 's': NIL, 'i': [], 'l': []}, None
        return {'k': 'exc', 's': type(ex).__name__, 'i': [], 'l': []}, ex
    except Exception as ex:  # noqa - anything else is what the property forbids
        return {'k': 'exc', 's': type(ex).__name__, 'i': [], 'l': []}, ex


def accepts(spec, obs):
    """comparison of an observation with a TLC-computed outcome (mirror of HeaderAccessOps!Accepts)."""
    if obs['k'] == 'exc':
        return 'P:total'
    if spec['k'] == 'value':
        same = obs['k'] == 'value' and obs['s'] == spec['s'] and obs['i'] == spec['i'] and obs['l'] == spec['l']
        return 'ok' if same else 'P:value'
    if spec['k'] == 'value400':
        if obs['k'] == 'err400':
            return 'D:obs400'
        return 'ok' if obs['k'] == 'value' and obs['s'] == spec['s'] and obs['i'] == [] and obs['l'] == [] else 'P:value'
    if spec['k'] == 'doc400':
        return 'ok' if obs['k'] == 'err400' else 'D:doc400'
    return 'ok'


SIMPLE = {
    'accept': lambda t: t in (['application/json'], ['*/*;q=0.1']),
    'range': lambda t: len(t) >= 3 and t[0] == 'bytes' and t[1] == '=' and ',' not in t and ' ' not in t
    and not (len(t) > 3 and t[2] == '0' and t[3].isdigit()) and not any(len(x) > 9 for x in t),
    'content-length': lambda t: len(t) >= 1 and all(x.isdigit() for x in t) and (t[0] != '0' or len(t) == 1),
    'if-match': lambda t: len(t) == 1,
    'if-none-match': lambda t: len(t) == 1,
    'forwarded': lambda t: len(t) == 1 and t[0].startswith('for=') and '"' not in t[0],
    'x-forwarded-for': lambda t: len(t) == 1,
    'x-real-ip': lambda t: len(t) == 1,
    'x-forwarded-proto': lambda t: t in (['http'], ['https']),
    'x-forwarded-host': lambda t: len(t) == 1,
    'host': lambda t: len(t) == 1 and t[0] in ('localhost', 'example.com'),
}
# a date in the untouched IMF-fixdate layout (whatever its slots hold) is the simplest form
_IMF = lambda t: len(t) == 13 and t[1:3] == [',', ' '] and t[4] == t[6] == t[8] == t[10] == ' ' and t[11:] == ['GMT', '']
SIMPLE.update({n: (lambda t: _IMF(t) and t[0] in ('Sun', 'Mon', 'Tue', 'Wed', 'Thu', 'Fri', 'Sat') and len(t[7]) == 4
                   and t[5] in ('Jan', 'Feb', 'Mar', 'Apr', 'May', 'Jun', 'Jul', 'Aug', 'Sep', 'Oct', 'Nov', 'Dec'))
               for n in DATE_HDRS})


def nontrivial(rq):
    """DESIGN 2.6: some header value is not the grammar's canonical simplest form."""
    return any(h['p'] and (h['o'] or not SIMPLE[n](h['t'])) for n, h in rq['h'].items())


# ---------------------------------------------------------------------------------------------------
# random requests for leg B
# ---------------------------------------------------------------------------------------------------

FUZZ_CHARS = list('0123456789-=,;:. "[]\\/*Ww_xbytes') + ['\t', '\x00', '\xe9', '\xff', '%', '+', '@', '\xb2', '\xb3', '\xb9']


class Gen:
    def __init__(self, rng, vocab):
        self.r = rng
        # run tokens (\r{..}) expand on the wire: they are used through opaque values only (see header())
        self.v = {k: sorted(t for t in x if not t.startswith('\\r{')) if k[:4] != 'date' or k == 'date' else x
                  for k, x in vocab.items()}

    def num(self, lo=1, hi=4):
        return [self.r.choice('0123456789') for _ in range(self.r.randint(lo, hi))]

    def valid(self, g):
        r = self.r
        if g == 'range':
            unit = [r.choice(['bytes', 'bytes', 'bytes', 'items', 'x'])]
            k = r.random()
            a = self.num() if r.random() < 0.8 else ['0'] * r.randint(1, 3)      # first/last = 0 and 0-0 forms
            b = a if r.random() < 0.25 else self.num()
            if r.random() < 0.2:                                                 # numerals around 2^63 / 2^64 / 25 digits
                big = lambda: ['0'] * (r.random() < 0.2) + [r.choice(self.v['big'])]
                a, b = r.choice([(big(), b), (a, big()), (big(), big())])
            spec = a + ['-'] + b if k < 0.4 else a + ['-'] if k < 0.7 else ['-'] + a
            if r.random() < 0.15:
                spec += [','] + ([' '] if r.random() < 0.5 else []) + self.num() + ['-']
            return unit + ['='] + spec
        if g == 'clen':
            return self.num(1, 9)
        if g == 'etag':
            if r.random() < 0.1:
                return ['*']
            out = []
            for i in range(r.randint(1, 4)):
                if i:
                    out += r.choice([[','], [',', ' '], [' ', ',', ' '], [',', ',']])
                out += (['W/'] if r.random() < 0.4 else []) + [r.choice(self.v['qtags'])]
            return out
        if g == 'fwd':
            out = []
            for i in range(r.randint(1, 4)):
                if i:
                    out += r.choice([[','], [',', ' '], [' ', ',']])
                names, el = set(), []
                for j in range(r.randint(1, 4)):
                    p = r.choice(self.v['fwdpairs'])
                    n = p.split('=')[0].lower()
                    if n in names:
                        continue
                    names.add(n)
                    el += ([';'] if el else []) + [p]
                out += el
            return out
        if g == 'accept':
            out = []
            for i in range(r.randint(1, 4)):
                out += ([',', ' '] if i and r.random() < 0.6 else [','] if i else []) + [r.choice(self.v['accranges'])]
            return out
        if g == 'date':
            return list(r.choice(self.v['datebases']))
        if g == 'xff':
            out = []
            for i in range(r.randint(1, 4)):
                out += ([',', ' '] if i and r.random() < 0.6 else [','] if i else []) + [r.choice(self.v['addr'])]
            return out
        if g == 'host':
            k = r.random()
            if k < 0.25:
                hp = [r.choice(['[::1]', '[2001:db8::1]'])]
            elif k < 0.4:
                hp = ['192.0.2.7']
            else:
                hp = [r.choice(['api.', 'abc', '_p'])] * (r.random() < 0.4) + [r.choice(['localhost', 'example.com'])]
            k = r.random()
            return hp + ([] if k < 0.4 else [':'] + self.num(1, 5) if k < 0.9 else [':'])
        raise KeyError(g)

    def mutate(self, toks, g):
        r = self.r
        toks = list(toks)
        if g == 'date':                         # slot edits that keep the shape, more of them than the exhaustive bound
            kinds_ = self.v['datekinds'][str(len(toks))]
            for _ in range(r.choice([1, 2, 3, 3, 4, 5])):
                j = r.randrange(len(toks))
                toks[j] = r.choice(self.v['datealpha'][kinds_[j]])
            return toks
        for _ in range(r.randint(1, 2)):
            k = r.random()
            pool = self.v[g]
            if k < 0.35 and toks:
                del toks[r.randrange(len(toks))]
            elif k < 0.7:
                toks.insert(r.randint(0, len(toks)), r.choice(pool))
            elif k < 0.85 and toks:
                toks[r.randrange(len(toks))] = r.choice(pool)
            elif len(toks) >= 2:
                i = r.randrange(len(toks) - 1)
                toks[i], toks[i + 1] = toks[i + 1], toks[i]
        return toks

    def header(self, g):
        r = self.r
        k = r.random()
        if g == 'clen' and k < 0.25:
            # digit look-alikes (str.isdigit() is true for them, int() refuses), digit runs around CPython's
            # 4300-digit conversion limit, signs, leading zeros, surrounding whitespace
            return opaque(r.choice(['\xb2', '4\xb3', '\xb9\xb2', '1\xb9', '9' * 4300, '9' * 4301, '1' * 5000, '0' * 4400 + '7',
                                    '007', '+5', '-0', '+0', ' 5', '5 ', ' 12 ', '\t3', '0', '00', '1_0', '\xb2' * 3]))
        if k < 0.45:
            return hdr(self.valid(g))
        if k < 0.8:
            return hdr(self.mutate(self.valid(g), g))
        if k < 0.9 and g != 'date':
            return hdr([r.choice(self.v[g]) for _ in range(r.randint(0, 14))])
        if k < 0.87:
            return hdr(self.mutate(self.valid(g), g))
        text = list(unesc(''.join(self.valid(g))))
        if g == 'date' and k > 0.93:                         # any instant of 1970..2096, outside the token vocabulary
            dt = datetime.datetime(1970, 1, 1, tzinfo=datetime.timezone.utc) + \
                datetime.timedelta(seconds=r.randrange(0, 4 * 10 ** 9))
            text = list(email.utils.format_datetime(dt, usegmt=True))
        for _ in range(r.randint(1, 3) if not (g == 'date' and k > 0.965) else 0):                     # character-level fuzz: not expressible in tokens
            j = r.randint(0, len(text))
            if r.random() < 0.5 and text:
                text[min(j, len(text) - 1)] = r.choice(FUZZ_CHARS)
            else:
                text.insert(j, r.choice(FUZZ_CHARS))
        return opaque(''.join(text))

    def request(self):
        r = self.r
        rq = base_req(r.choice(['http', 'https', 'http', 'https', 'ws', 'wss']))
        rq['server'] = [r.choice(['srv.test', 'localhost']), r.choice([80, 443, 8000])]
        rq['peer'] = r.choice(['127.0.0.1', '192.0.2.1', '198.51.100.9'])
        rq['root'] = r.choice(['', '', '/app'])
        rq['path'] = r.choice(['/', '/a/b', '/items/7'])
        rq['query'] = r.choice(['', '', 'x=1', 'a=1&b=2'])
        h = rq['h']
        for name, g, p in (('range', 'range', .5), ('content-length', 'clen', .4), ('if-match', 'etag', .3),
                           ('if-none-match', 'etag', .4), ('forwarded', 'fwd', .45), ('x-forwarded-for', 'xff', .3),
                           ('host', 'host', .85), ('date', 'date', .3), ('if-modified-since', 'date', .3),
                           ('if-unmodified-since', 'date', .25)):
            if r.random() < p:
                h[name] = self.header(g)
        if r.random() < 0.55:
            # Accept: elements (quoted parameters and weights included) recur inside DIFFERENT header values
            # across the requests of this process, so process-wide parser caches are exercised by history
            h['accept'] = self.header('accept') if r.random() < 0.85 else opaque(r.choice([
                'application/json', '*/*', 'text/*;q=0', 'application/xml;q=x', ',,', '', 'a/b/c', ';',
                'application/json; q=0.5, text/plain', 'text/html;q=1.5', 'text/plain;x="a,b";q=0, */*']))
        if r.random() < 0.25:
            h['x-real-ip'] = hdr([r.choice(self.v['addr'] + ['x y'])])
        if r.random() < 0.3:
            h['x-forwarded-proto'] = hdr([r.choice(self.v['xfp'] + ['ftp,http'])])
        if r.random() < 0.3:
            h['x-forwarded-host'] = hdr([r.choice(self.v['xfh'] + ['a b'])])
        return rq

    def extra_headers(self):
        """headers outside the TLA+ vocabulary: cookies (value-or-400 and idempotence only)."""
        r = self.r
        out = []
        if r.random() < 0.3:
            parts = []
            for _ in range(r.randint(1, 4)):
                parts.append(r.choice(['a', 'b', 'sid', 'a b', '', 'x"y']) + r.choice(['=', '=', '', ' = ']) +
                             r.choice(['1', 'abc', '"q\\"uoted"', '"', 'v;', '\xe9', '']))
            out.append(('Cookie', r.choice(['; ', ';', ' ;; ']).join(parts)))
        return out


# ---------------------------------------------------------------------------------------------------

def run(ctx):
    import falcon
    ctx.rule = ('case = (stack, abstract request: header values as token sequences + URL parts, accessor reads in '
                'order); non-trivial iff some header value is not its grammar\'s canonical simplest form (bytes=N-M, '
                'plain digits, one strong tag, one for=token, one address, bare reg-name); distinct by hash of the case')
    ctx.trusted_base = ['TLC 1.8 evaluation of spec/HeaderAccessOps.tla', 'engine/drivers.py environ()/scope()',
                        'email.utils.parsedate_to_datetime / format_datetime', 'http.cookies.SimpleCookie']
    ctx.assumptions = [
        'token reading: a header value is a concatenation of vocabulary tokens; Val is only specified where tokens cannot fuse',
        'an IP-literal host and a Forwarded node are reported without brackets and without port (as urllib.parse / the documented access_route)',
        'the peer address closes access_route unless it already is its last element (documented for falcon.asgi.Request)',
        'proto / X-Forwarded-Proto are compared in canonical lower case (RFC 3986 3.1)',
        'multi-range headers: the documented 400 is a detail clause; suffix-range 0 and last<first are "value or 400"',
        'cookie octets and HTTP-date instants outside the slot vocabulary are not specified in TLA+ (DESIGN 5): laws and trusted decoders only',
        'a valid obs-date (rfc850 / asctime) read without obs_date=True may be refused with 400 (falcon documents RFC 1123 dates '
        'there) but must never be read as another instant; a day name that contradicts the date makes the value invalid',
    ]
    quick = ctx.quick

    # ---- leg M: the design ------------------------------------------------------------------------
    guard = {}
    for cfg in ('MC_HeaderAccessGC.cfg', 'MC_HeaderAccessMC.cfg'):
        r = ctx.tlc('MC_HeaderAccess', cfg, workers=1, timeout=600)
        for tag, f in r.tuples:
            if tag == 'FIRED':
                guard[f[0]] = guard.get(f[0], 0) + f[1]
        if cfg.endswith('GC.cfg'):
            meta = [j for j in r.json if 'vocab' in j]
            if not meta:
                raise MachineryError('vocabulary export missing')
            vocab = meta[0]['vocab']
            spec_attrs = set(meta[0]['attrs'])
    r.coverage = {k: (v, v) for k, v in guard.items()}          # firing counters stand in for -coverage (see META)
    ctx.require_coverage(r, ['XAccept', 'XRange', 'XRSet', 'XRBig', 'XCLen', 'XCLenX', 'XETag', 'XFwd', 'XXff', 'XHost', 'XReadUri', 'XReadForwardedUri',
                             'XReadRelativeUri', 'XReadPrefix', 'XReadForwardedPrefix', 'XReadForwarded',
                             'XReadAccessRoute', 'XReadETags', 'XReadPlain', 'XGetHeader'])
    ctx.extra['action_firings'] = guard
    # HTTP-dates: slot-level grammar (MC_HeaderDates): named-action coverage + the vocabulary for leg B
    rd = ctx.tlc('MC_HeaderDates', 'MC_HeaderDatesC.cfg', workers=2, timeout=600, coverage=True)
    ctx.require_coverage(rd, ['XMutDayName', 'XMutDay', 'XMutMonth', 'XMutYear', 'XMutTime', 'XMutZone', 'XMutSep', 'XMutTail'])
    dv = [j for j in rd.json if 'datevocab' in j]
    if not dv:
        raise MachineryError('date vocabulary export missing')
    dv = dv[0]['datevocab']
    vocab['datebases'] = sorted(dv['bases'])
    vocab['datekinds'] = {'13': dv['kinds13'], '10': dv['kinds10']}
    vocab['datealpha'] = {k: sorted(v) for k, v in dv['alpha'].items()}
    vocab['date'] = sorted(set(t for v in dv['alpha'].values() for t in v))
    rb = ctx.tlc('MC_HeaderAccess', 'MC_HeaderAccessBad.cfg', workers=4, timeout=600, must_hold=False, count=False)
    if rb.violated not in ('MemoSound', 'CacheSound'):
        raise MachineryError('wrong-design switch SharedUriSlot did not violate the memo invariants (%r)' % rb.violated)
    ctx.progress('leg M guard + wrong-design done')
    rm = ctx.tlc('MC_HeaderAccess', 'MC_HeaderAccessMQ.cfg' if quick else 'MC_HeaderAccessM.cfg', workers=4, timeout=900)
    ctx.progress('leg M memo: %d distinct states' % rm.distinct)
    if quick:
        rg = ctx.tlc('MC_HeaderAccess', 'MC_HeaderAccessGQ.cfg', workers=4, timeout=600)
        table = rg.json
    else:
        rg = ctx.tlc('MC_HeaderAccess', 'MC_HeaderAccessG.cfg', workers=4, timeout=1500)
        ctx.progress('leg M grammars: %d distinct states' % rg.distinct)
        table = ctx.tlc('MC_HeaderAccess', 'MC_HeaderAccessGE.cfg', workers=4, timeout=1500, count=False).json
    rdt = ctx.tlc('MC_HeaderDates', 'MC_HeaderDatesQ.cfg' if quick else 'MC_HeaderDates.cfg', workers=4, timeout=1500)
    dtable = list({tuple(j['t']): j for j in rdt.json if j.get('g') == 'date'}.values())    # a value is reached along several edit orders
    by_fmt = {}
    for row in dtable:
        by_fmt[row['fmt']] = by_fmt.get(row['fmt'], 0) + 1
    if not all(by_fmt.get(f, 0) > 1 for f in ('imf', 'rfc850', 'asctime', 'none')):
        raise MachineryError('date decision table is vacuous: rows by format %r' % by_fmt)
    ctx.extra['date_table_rows_by_format'] = by_fmt
    table = table + dtable
    ctx.progress('leg M grammars + decision table: %d + %d states, %d table rows (dates by format: %r)'
                 % (rg.distinct, rdt.distinct, len(table), by_fmt))
    ctx.exhaustive = True

    tally = ctx.extra.setdefault('failures_by_clause', {})

    def fail(clause, case, what, a=None, ex=None):
        k = '%s %s' % (clause, a)
        tally[k] = tally.get(k, 0) + 1
        return ctx.violation(clause, case, what)

    # ---- leg A1: decision tables replayed -----------------------------------------------------------
    rows = {}
    for row in table:
        if 'g' in row:
            rows[(row['g'], row['scheme'], tuple(row['t']))] = row
    n_a1 = 0
    obs400 = {}
    order = sorted(rows.items())
    # HistoryFree across requests: what a request reports is a function of its own headers, whatever the
    # process parsed before.  Accept elements are parsed through process-wide caches, so the Accept table is
    # replayed a second time in the opposite order (every element text has then been seen inside other values).
    order += [x for x in reversed(order) if x[0][0] == 'accept']
    for idx, ((g, scheme, toks), row) in enumerate(order):
        rq = base_req(scheme)
        for hn_ in (DATE_HDRS if g == 'date' else (G_HDR[g],)):
            rq['h'][hn_] = hdr(toks)
        if ''.join(toks) != row['text']:
            raise MachineryError('text mismatch for %r' % (row,))
        nt = nontrivial(rq)
        casings = (CASINGS[idx % 4],) if quick else (CASINGS[idx % 4], CASINGS[(idx + 1 + idx // 4) % 4])
        for kind in kinds(rq):
            for wc in casings:
                q = build(rq, kind, wc)
                case = {'leg': 'A1', 'kind': kind, 'grammar': g, 'scheme': scheme, 'tokens': list(toks),
                        'text': row['text'], 'wire_casing': wc}
                ctx.case(case, nontrivial=nt, key=(kind, g, scheme, toks, idx >= len(rows)))
                n_a1 += 1
                for ao in row['out']:
                    a, want = ao['a'], ao['o']
                    o1, ex = observe(q, a)
                    v = accepts(want, o1)
                    if v == 'D:obs400':
                        # a valid obs-date read without obs_date=True: 400 is the documented answer (counted, one NOTE)
                        if not obs400:
                            ctx.detail(v, case, '%s gave %r for the valid %s %r' % (a, o1, row.get('fmt'), row['text']))
                        obs400[(row.get('fmt'), a)] = obs400.get((row.get('fmt'), a), 0) + 1
                    elif v == 'D:doc400':
                        ctx.detail(v, case, '%s gave %r' % (a, o1))
                    elif v != 'ok':
                        fail(v, dict(case, accessor=a, spec=want, observed=o1), '%s on %s %r: spec %r, observed %r %r'
                             % (a, kind, row['text'], want, o1, ex), a, ex)
                        continue
                    o2, ex2 = observe(q, a)
                    if o2 != o1:
                        fail('P:memo', dict(case, accessor=a, first=o1, second=o2),
                             '%s on %s %r: first read %r, second read %r' % (a, kind, row['text'], o1, o2), a, ex2)
                # raw lookup under every casing of the name
                for lc in CASINGS:
                    o, ex = observe(q, 'get_header', G_HDR[g], lc)
                    if o != {'k': 'value', 's': esc(unesc(row['text'])), 'i': [], 'l': []}:
                        fail('P:lookup', dict(case, lookup_casing=lc, observed=o),
                             'get_header(%r) gave %r for wire text %r' % (cased(G_HDR[g], lc), o, row['text']))
    ctx.traces_validated += n_a1
    ctx.extra['decision_table_rows'] = len(rows)
    ctx.extra['valid_obs_dates_refused_without_obs_date'] = {'%s %s' % k: v for k, v in sorted(obs400.items())}
    ctx.progress('leg A1 done: %d table rows, %d replays' % (len(rows), n_a1))

    # ---- leg A2: TLC-simulated read histories replayed ----------------------------------------------
    rs = ctx.tlc('MC_HeaderAccess', 'MC_HeaderAccessS.cfg', simulate={'num': ctx.pick(40, 1500)}, depth=9,
                 seed=ctx.seed + 1, workers=4, timeout=900, count=False)
    behaviours = {digest(b): b for b in rs.json if 'ev' in b}
    n_a2 = 0
    for b in behaviours.values():
        rq = b['req']
        for kind in ('wsgi', 'asgi'):
            q = build(rq, kind, CASINGS[n_a2 % 4])
            case = {'leg': 'A2', 'kind': kind, 'req': rq, 'ev': b['ev']}
            ctx.case(case, nontrivial=nontrivial(rq), key=('A2', kind, digest(b)))
            n_a2 += 1
            for i, e in enumerate(b['ev']):
                o, ex = observe(q, e['a'], e['hn'], e['c'])
                v = accepts(e['o'], o)
                if v != 'ok':
                    fail(v, dict(case, step=i, observed=o), 'history step %d %s: spec %r, observed %r %r'
                         % (i, e['a'], e['o'], o, ex), e['a'], ex)
                    break
    ctx.traces_validated += n_a2
    ctx.extra['spec_behaviours_replayed'] = len(behaviours)
    ctx.progress('leg A2 done: %d behaviours, %d replays' % (len(behaviours), n_a2))

    # ---- leg B: recorded traces judged by TLC ---------------------------------------------------------
    gen = Gen(ctx.rng, vocab)
    read_pool = sorted(spec_attrs) + list(EXTRA_ATTRS)
    seen = {}
    for i in range(ctx.pick(4000, 60000)):
        rq = gen.request()
        extra = gen.extra_headers()
        nreads = ctx.rng.randint(6, 14)
        reads = []
        for _ in range(nreads):
            k = ctx.rng.random()
            if k < 0.12:
                reads.append(('get_header', ctx.rng.choice(HNAMES), ctx.rng.choice(CASINGS)))
            elif k < 0.3 and reads:
                reads.append(ctx.rng.choice(reads))              # repeated read
            else:
                reads.append((ctx.rng.choice(read_pool), '', 'Title'))
        nt = nontrivial(rq)
        for kind in kinds(rq):
            q = build(rq, kind, ctx.rng.choice(CASINGS), extra)
            evs, excs = [], []
            for a, hn, c in reads:
                o, ex = observe(q, a, hn, c)
                evs.append({'a': a, 'hn': hn, 'o': o})
                excs.append(ex)
            trace = {'req': spec_view(rq), 'ev': evs}
            case = {'leg': 'B', 'kind': kind, 'req': rq, 'extra': extra, 'reads': [list(x) for x in reads]}
            ctx.case(case, nontrivial=nt, key=('B', kind, i))
            k = digest(trace)
            if k not in seen:
                seen[k] = (trace, case, excs)
    ctx.progress('leg B recorded: %d executions, %d distinct traces' % (ctx.evaluations - n_a1 - n_a2, len(seen)))
    items = list(seen.values())
    verdicts = ctx.judge('HeaderAccessTrace', [t for t, _, _ in items], timeout=1800, workers=4)
    for (trace, case, excs), v in zip(items, verdicts):
        if v == 'ok':
            continue
        clause, _, at = v.partition('@')
        at = int(at) - 1
        if clause.startswith('D:'):
            ctx.detail(clause, case, 'event %d %r' % (at, trace['ev'][at]))
            continue
        e = trace['ev'][at]
        fail(clause, {'case': case, 'trace': trace, 'event': at},
             'trace rejected at event %d (%s): observed %r %r' % (at, e['a'], e['o'], excs[at]), e['a'], excs[at])
    ctx.extra['distinct_traces_judged'] = len(seen)
    ctx.progress('leg B judged')

    laws(ctx)


# ---------------------------------------------------------------------------------------------------
# leg L: laws for dates, entity-tags written by the response API, cookies
# ---------------------------------------------------------------------------------------------------

def laws(ctx):
    import falcon
    import falcon.asgi
    rng = ctx.rng
    UTC = datetime.timezone.utc
    n = 0
    # HTTP-dates.  The laws are run under several PROCESS time zones (TZ + time.tzset()): a naive datetime
    # handed to the response API is documented as UTC, and code that lets the local zone leak in (e.g.
    # naive.astimezone()) is invisible on a box whose local zone is UTC.
    import os
    import time
    zones = ('UTC', 'EST5', 'IST-5:30', 'NZST-12')            # POSIX specs: no zoneinfo database needed
    old_tz = os.environ.get('TZ')
    try:
        for zi, zone in enumerate(zones):
            os.environ['TZ'] = zone
            time.tzset()
            for i in range(ctx.pick(120, 1600)):
                n += _date_case(ctx, rng, zone, i)
    finally:
        if old_tz is None:
            os.environ.pop('TZ', None)
        else:
            os.environ['TZ'] = old_tz
        time.tzset()
    ctx.extra['date_law_process_timezones'] = list(zones)
    # entity-tags written by the response API read back the same
    tagc = 'abcXYZ019!#$%&\'()*+,-./:;<=>?@[]^_`{|}~'
    for i in range(ctx.pick(300, 4000)):
        opaque_tag = ''.join(rng.choice(tagc) for _ in range(rng.randint(0, 8)))
        weak = rng.random() < 0.4
        form = rng.choice(['bare', 'quoted']) if not weak else 'quoted'
        if form == 'bare' and opaque_tag == '':
            form = 'quoted'
        value = ('W/' if weak else '') + ('"%s"' % opaque_tag if form == 'quoted' else opaque_tag)
        for kind, resp in zip(('wsgi', 'asgi'), (falcon.Response(), falcon.asgi.Response())):
            resp.etag = value
            written = resp.get_header('ETag')
            q = build(base_req(), kind, CASINGS[i % 4], [('If-None-Match', written), ('If-Match', written)])
            case = {'leg': 'L-etag', 'kind': kind, 'set': value, 'written': written}
            ctx.case(case, nontrivial=True, key=('Le', kind, value))
            n += 1
            for a in ('if_none_match', 'if_match'):
                o1, ex = observe(q, a)
                o2, _ = observe(q, a)
                want = {'k': 'value', 's': '#l', 'i': [], 'l': [('W/' if weak else '') + '"' + opaque_tag + '"']}
                if o1 != want or o2 != want:
                    ctx.violation('P:roundtrip-etag', dict(case, accessor=a, observed=o1),
                                  'resp.etag = %r wrote %r; %s read back %r %r' % (value, written, a, o1, ex))
    # cookies: valid cookie strings agree with http.cookies; Set-Cookie written by the response API reads back
    namec = 'abcdefgXYZ0123_-'
    valc = 'abcXYZ0189!#$%&\'()*+-./:<=>?@[]^_`{|}~'
    for i in range(ctx.pick(300, 4000)):
        pairs, names = [], set()
        for _ in range(rng.randint(1, 4)):
            name = 'c' + ''.join(rng.choice(namec) for _ in range(rng.randint(0, 5)))
            if name in names:
                continue
            names.add(name)
            pairs.append((name, ''.join(rng.choice(valc) for _ in range(rng.randint(0, 8)))))
        text = '; '.join('%s=%s' % p for p in pairs)
        try:
            sc = http.cookies.SimpleCookie()
            sc.load(text)
            want = {k: m.value for k, m in sc.items()}
        except http.cookies.CookieError:
            continue
        if set(want) != names:
            continue                                    # the trusted decoder does not read this one: no opinion
        for kind in ('wsgi', 'asgi'):
            q = build(base_req(), kind, CASINGS[i % 4], [('Cookie', text)])
            case = {'leg': 'L-cookie', 'kind': kind, 'text': text}
            ctx.case(case, nontrivial=len(pairs) > 1, key=('Lc', kind, text))
            n += 1
            try:
                got, got2 = dict(q.cookies), dict(q.cookies)
                vals = {k: q.get_cookie_values(k) for k in names}
            except Exception as ex:  # noqa
                ctx.violation('P:cookie', case, 'cookies raised %r' % (ex,))
                continue
            if got != want or got2 != want or vals != {k: [v] for k, v in want.items()}:
                ctx.violation('P:cookie', dict(case, observed=got), 'cookies %r / %r, http.cookies reads %r' % (got, vals, want))
        # Read(Write(v)) through a real response (the empty value is left out: set_cookie writes it as `""`,
        # and whether those two DQUOTEs belong to the value is not settled by RFC 6265)
        name, value = pairs[0]
        if value == '':
            continue
        for kind in ('wsgi', 'asgi'):
            setc = _set_cookie_via_app(kind, name, value)
            if len(setc) != 1:
                raise MachineryError('could not observe Set-Cookie: %r' % (setc,))
            sc = http.cookies.SimpleCookie()
            sc.load(setc[0])
            back = '; '.join('%s=%s' % (k, m.coded_value) for k, m in sc.items())
            q = build(base_req(), kind, 'Title', [('Cookie', back)])
            case = {'leg': 'L-cookie-rt', 'kind': kind, 'name': name, 'value': value, 'set_cookie': setc[0]}
            ctx.case(case, nontrivial=True, key=('Lr', kind, name, value))
            n += 1
            try:
                got = q.cookies.get(name)
            except Exception as ex:  # noqa
                got = ex
            if got != value:
                ctx.violation('P:roundtrip-cookie', case, 'set_cookie(%r, %r) -> %r -> cookies[%r] = %r'
                              % (name, value, setc[0], name, got))
    ctx.traces_validated += n
    ctx.extra['law_cases'] = n
    ctx.progress('leg L done: %d law cases' % n)


def _date_case(ctx, rng, zone, i):
    """one instant: trusted text -> request accessors; response API (naive = UTC, aware) -> request accessors."""
    import falcon
    import falcon.asgi
    UTC = datetime.timezone.utc
    dt = datetime.datetime(1970, 1, 1, tzinfo=UTC) + datetime.timedelta(seconds=rng.randrange(0, 4 * 10 ** 9))
    naive = dt.replace(tzinfo=None)
    text = email.utils.format_datetime(dt, usegmt=True)                     # trusted encoder (IMF-fixdate)
    want = email.utils.parsedate_to_datetime(text)                           # trusted decoder
    given = naive if i % 2 else dt                                            # "assumed to be UTC" / aware UTC
    n = 0
    for kind, resp in zip(('wsgi', 'asgi'), (falcon.Response(), falcon.asgi.Response())):
        resp.last_modified = given
        resp.expires = given
        err = falcon.HTTPServiceUnavailable(retry_after=given)
        written = {'last_modified': resp.get_header('Last-Modified'), 'expires': resp.get_header('Expires'),
                   'retry_after': (err.headers or {}).get('Retry-After')}
        # cookie expiry: naive = UTC, aware datetimes of any offset denote their instant
        off = datetime.timezone(datetime.timedelta(minutes=rng.choice([0, -300, 330, 765])))
        cgiven = naive if i % 2 else dt.astimezone(off)
        setc = _set_cookie_via_app(kind, 'cexp', 'v', expires=cgiven)
        sc = http.cookies.SimpleCookie()
        sc.load(setc[0] if setc else '')
        written['cookie_expires'] = sc['cexp']['expires'] if 'cexp' in sc else None
        case = {'leg': 'L-date', 'kind': kind, 'tz': zone, 'instant': text, 'given': repr(given),
                'cookie_given': repr(cgiven), 'written': written}
        ctx.case(case, nontrivial=True, key=('Ld', kind, zone, text))
        n += 1
        # what the response API wrote must denote the instant (trusted decoder), ...
        for wname, w in written.items():
            try:
                back = email.utils.parsedate_to_datetime(w)
            except Exception as ex:  # noqa
                back = ex
            if back != dt:
                ctx.violation('P:roundtrip-date', dict(case, source=wname),
                              '%s written as %r for %r under TZ=%s: denotes %r, expected %r' % (wname, w, given, zone, back, dt))
        # ... and must read back through the request API as the same value
        q = build(base_req(), kind, CASINGS[i % 4], [('Date', text), ('If-Modified-Since', written['last_modified'] or ''),
                                                   ('If-Unmodified-Since', written['expires'] or ''),
                                                   ('X-Retry', written['retry_after'] or '')])
        reads = [('date', lambda: q.date, want, 'P:date'),
                 ('if_modified_since', lambda: q.if_modified_since, dt, 'P:roundtrip-date'),
                 ('if_unmodified_since', lambda: q.if_unmodified_since, dt, 'P:roundtrip-date'),
                 ('get_header_as_datetime(X-Retry)', lambda: q.get_header_as_datetime('X-Retry'), dt, 'P:roundtrip-date'),
                 ('get_header_as_datetime(Date, obs_date)', lambda: q.get_header_as_datetime('Date', obs_date=True), want, 'P:date')]
        for a, f, w, clause in reads:
            try:
                v1, v2 = f(), f()
            except Exception as ex:  # noqa
                ctx.violation(clause, dict(case, accessor=a), '%s raised %r under TZ=%s' % (a, ex, zone))
                continue
            if not (isinstance(v1, datetime.datetime) and v1.tzinfo is not None and v1 == w and v1 == v2):
                ctx.violation(clause, dict(case, accessor=a), '%s gave %r / %r, expected %r (TZ=%s, given %r)'
                              % (a, v1, v2, w, zone, given))
    return n


_APPS = {}


def _set_cookie_via_app(kind, name, value, expires=None):
    """Set-Cookie header(s) a real app emits for resp.set_cookie(name, value) (public surface only)."""
    import falcon
    import falcon.asgi
    from engine.drivers import wsgi_call, asgi_call
    if kind not in _APPS:
        box = {}
        if kind == 'wsgi':
            class Res:
                def on_get(self, req, resp):
                    resp.set_cookie(box['name'], box['value'], expires=box['expires'])
            app = falcon.App()
        else:
            class Res:
                async def on_get(self, req, resp):
                    resp.set_cookie(box['name'], box['value'], expires=box['expires'])
            app = falcon.asgi.App()
        app.add_route('/', Res())
        _APPS[kind] = (app, box)
    app, box = _APPS[kind]
    box['name'], box['value'], box['expires'] = name, value, expires
    res = (wsgi_call if kind == 'wsgi' else asgi_call)(app, Req())
    if res.exc is not None or res.status != 200:
        raise MachineryError('cookie app failed: %r %r' % (res.status, res.exc))
    return res.header_all('set-cookie')


def replay(ctx, case):
    c = case.get('case', case)
    print('case:', c)
    if c.get('leg') == 'A1':
        rq = base_req(c['scheme'])
        for hn_ in (DATE_HDRS if c['grammar'] == 'date' else (G_HDR[c['grammar']],)):
            rq['h'][hn_] = hdr(c['tokens'])
        reads = [(case.get('accessor') or c.get('accessor'), '', 'Title')] * 2
        extra = ()
    elif c.get('leg') == 'A2':
        rq, reads, extra = c['req'], [(e['a'], e['hn'], e['c']) for e in c['ev']], ()
    elif c.get('leg') == 'B':
        rq, reads, extra = c['req'], [tuple(x) for x in c['reads']], [tuple(x) for x in c['extra']]
    else:
        print('law cases are replayed by re-running the check with the same seed')
        return
    q = build(rq, c['kind'], c.get('wire_casing', 'Title'), extra)
    evs, excs = [], []
    for a, hn, cs in reads:
        o, ex = observe(q, a, hn, cs)
        print('  %s %s -> %r %r' % (a, hn, o, ex))
        evs.append({'a': a, 'hn': hn, 'o': o})
        excs.append(ex)
    v = ctx.judge('HeaderAccessTrace', [{'req': spec_view(rq), 'ev': evs}], workers=1)[0]
    print('verdict:', v)
    if v != 'ok' and not v.startswith('D:'):
        at = int(v.split('@')[1]) - 1
        ctx.violation(v.split('@')[0], c, 'trace rejected at %s' % v)
