"""C01 - the compiled router resolves every path as the depth-first walk of the template tree dictates.

spec:   spec/SegMatch.tla (one template segment vs one path segment), spec/Router.tla (reference trie,
        incremental tree + generated-program snapshot, add_route acceptance, lookup walk, invariants),
        spec/MC_Router.tla (bounded instances), spec/RouterTrace.tla (trace judge)
legs:   M  exhaustive TLC check of the router design over all add histories of small template universes (one of them
           with line feeds in the representatives of multi-field segments, one with user-defined multi-segment
           converters) (+ the three wrong-design switches must break it)
        A  TLC-generated behaviours replayed on CompiledRouter: every add history of the small universe
           with the COMPLETE lookup table of each state, and -simulate add/find histories of a larger one
        B  random route tables (5..40 templates, fresh names) driven on CompiledRouter beyond the bound,
           lookups over a complete set of representatives; the recorded traces are judged by TLC
"""
import itertools

META = {
    'property_id': 'C01',
    'design_ref': 'DESIGN.md section 4, C01',
    'technique': 'TLA+ router specification (reference trie + depth-first walk) model-checked with TLC; '
                 'TLC-generated add/lookup behaviours replayed on CompiledRouter; recorded traces judged by TLC',
    'level_text': 'The router design (spec/Router.tla: incremental tree, rejection rules, generated-program snapshot) is '
                  'model-checked exhaustively over all add histories of a small template universe against a declarative '
                  'reference (trie of the accepted templates, priority-first matching route); the reference is bound to '
                  'CompiledRouter in both directions: every state of the small universe is replayed with its complete '
                  'lookup table, simulated add/find histories are replayed, and traces of random route tables with '
                  'representative-complete lookups are judged by TLC.  Every real router runs next to a shadow router '
                  'that only receives the accepted adds, so a rejected add that is not a no-op is told apart from a '
                  'disagreement about acceptance rules.',
    'level_note': 'Bounded: exhaustive for all histories of <= 2 add_route calls (thorough: <= 3) over the templates of <= 2 '
                  'segments from 8 template segments (thorough also 10) with all paths of <= 3 segments over 5 (7) '
                  'representatives; simulated histories of <= 7 adds / 12 calls over 19 segments; random tables of <= 40 '
                  'templates of depth <= 4 with 200 lookups each beyond.  Trusted: TLC, CPython '
                  'int()/float()/uuid.UUID()/strptime() (the converter table CT is computed with them over every substring '
                  'of the path segments used), str() of converted values, a second real router as shadow.  Line feed: a '
                  'fifth exhaustive universe (5 template segments, 11 representatives with trailing / doubled / leading / '
                  'embedded line feeds and a carriage return, paths of <= 2 segments) binds the regular-expression reading '
                  'of multi-field segments (SegMatch!Split: no field takes a line feed, the end is reached before a final '
                  'line feed; SplitSound + the LFBlind switch as vacuity guard); such representatives are also in the '
                  'simulated universe and in every random table.  User-defined multi-segment converters: {t:tail} '
                  '(subclass of PathConverter, vetoes lists of > 2 segments) and {s:segs} (BaseConverter + '
                  'CONSUME_MULTIPLE_SEGMENTS, vetoes by list membership, value = list length) registered through '
                  'router_options.converters; CT.multi holds the answers of their own convert() for every LIST of <= 3 '
                  'segments of the instance (trusted base); a sixth exhaustive universe (7 template segments, 4 '
                  'representatives), the simulated universe and the random tables use them trailing (hit / veto then '
                  'another route / veto then miss), followed by a segment and embedded in a segment (must be rejected: '
                  'P:multiseg-not-last, the rejected add a no-op).  Not covered: path segments containing a backslash or '
                  'braces, white space other than blank/TAB/LF/CR/FF, float bounds that are not whole numbers, user-defined '
                  'converters that consume ONE segment or take arguments, responder-suffix/method-map handling of '
                  'add_route, concurrency of the lazy compile (C19).  The action-coverage guard runs on the same state '
                  'graph with one-segment paths because TLC -coverage cannot digest the recursive Lookup operator.',
}

import datetime
import math
import uuid

from engine.core import MachineryError, digest

# ------------------------------------------------------------------------------------------------
# universe: template segments as data (the same records the specification reads)

def conv(k='', nd=-1, lo=None, hi=None, fin=True):
    return {'k': k, 'nd': nd, 'hasLo': lo is not None, 'lo': lo or 0, 'hasHi': hi is not None, 'hi': hi or 0,
            'fin': bool(fin)}


NOCONV = conv()


def lit(text):
    return {'t': 'lit', 'v': list(text), 'f': '', 'c': NOCONV}


def fld(name, c=None):
    return {'t': 'fld', 'v': [], 'f': name, 'c': c or NOCONV}


def seg(*items):
    """canonical template segment: adjacent literal chunks merged, empty ones dropped"""
    out = []
    for it in items:
        if isinstance(it, str):
            it = lit(it)
        if it['t'] == 'lit':
            if not it['v']:
                continue
            if out and out[-1]['t'] == 'lit':
                out[-1] = lit(''.join(out[-1]['v']) + ''.join(it['v']))
                continue
        out.append(it)
    return {'items': out}


def render_conv(c):
    if not c['k']:
        return ''
    args = []
    if c['nd'] != -1:
        args.append('num_digits=%d' % c['nd'])
    if c['hasLo']:
        args.append('min=%d' % c['lo'])
    if c['hasHi']:
        args.append('max=%d' % c['hi'])
    if not c['fin']:
        args.append('finite=False')
    return ':' + c['k'] + ('(%s)' % ', '.join(args) if args else '')


def render_seg(s):
    return ''.join(''.join(it['v']) if it['t'] == 'lit' else '{%s%s}' % (it['f'], render_conv(it['c']))
                   for it in s['items'])


def seg_kind(s):
    n = sum(1 for it in s['items'] if it['t'] == 'fld')
    return 'lit' if n == 0 else ('var' if len(s['items']) == 1 else 'cx')


def has_path(s):
    return any(it['t'] == 'fld' and it['c']['k'] in MULTI_ALL for it in s['items'])


def is_rest_seg(s):
    """a single field whose converter consumes the rest of the path"""
    return seg_kind(s) == 'var' and s['items'][0]['c']['k'] in MULTI_ALL


# ---- user-defined converters that consume multiple segments (converter vocabulary of the specification) ----
# The classes are the TRUSTED BASE for CT.multi (as int()/float() are for CT.int/CT.float): the table holds what
# their own convert() answers for a LIST of segments.  Both answers depend on list semantics: a joined string
# has another len(), another membership relation and is joined character by character.
MULTI = ('tail', 'segs')            # identifiers under which they are registered in router_options.converters
MULTI_ALL = MULTI + ('path',)
_CUSTOM = {}


def custom_converters():
    if not _CUSTOM:
        from falcon.routing.converters import BaseConverter, PathConverter

        class TailConverter(PathConverter):
            """subclass of the built-in path converter: at most two segments, joined by '|'"""
            def convert(self, value):
                if len(value) > 2:
                    return None
                return '|'.join(value)

        class SegsConverter(BaseConverter):
            """derived from BaseConverter only; vetoes a list that has the segment 'q'; value = number of segments"""
            CONSUME_MULTIPLE_SEGMENTS = True

            def convert(self, value):
                if 'q' in value:
                    return None
                return len(value)

        _CUSTOM.update(tail=TailConverter, segs=SegsConverter)
    return _CUSTOM


def norm_path(segs):
    """the list of segments the router walks for the path '/' + '/'.join(segs) (leading slashes are stripped)"""
    return ('/' + '/'.join(segs)).lstrip('/').split('/')


def multi_rows(lists):
    """TRUSTED BASE: {converter: {list written as one string: answer of the real convert(list)}}"""
    out = {}
    for name, cls in custom_converters().items():
        obj, tab = cls(), {}
        for l in lists:
            v = obj.convert(list(l))
            tab['/'.join(l)] = ({'ok': False, 'ty': 'none', 'v': []} if v is None else
                                {'ok': True, 'ty': TYPES.get(type(v), 'other:' + type(v).__name__), 'v': list(str(v))})
        out[name] = tab
    return out


class Universe:
    """Template segments (1-based ids as in the specification) + the trusted converter table."""

    def __init__(self, segs=(), bad=('9x', 'a b', 'class', '')):
        self.ts = []
        self.text = []
        self.ids = {}
        self.bad = list(bad)
        self.strings = set()          # path segments the converter table must cover
        self.lists = set()            # lists of remaining segments the multi-segment converter table must cover
        for s in segs:
            self.add(s)

    def add(self, s):
        txt = render_seg(s)
        if txt not in self.ids:
            self.ts.append(s)
            self.text.append(txt)
            self.ids[txt] = len(self.ts)
        return self.ids[txt]

    def template(self, tp):
        return '/' + '/'.join(self.text[i - 1] for i in tp)

    def conv_rows(self):
        subs = set()
        for s in self.strings:
            for i in range(len(s)):
                for j in range(i + 1, len(s) + 1):
                    subs.add(s[i:j])
        subs.add('')
        rows = []
        for s in sorted(subs):
            rows += conv_rows_for(s)
        return rows

    def note_path(self, segs):
        """a path that will be looked up: every list of remaining segments a multi-segment converter may be handed"""
        n = norm_path(segs)
        for i in range(len(n)):
            self.lists.add(tuple(n[i:]))

    def write(self, path, ps=(), maxlen=0):
        """maxlen: the instance looks up every path of <= maxlen segments over ps"""
        import json
        for p in ps:
            self.strings.add(p)
        for n in range(1, maxlen + 1):
            self.lists.update(itertools.product(ps, repeat=n))
        with open(path, 'w') as f:
            json.dump({'ts': self.ts, 'ps': [list(p) for p in ps], 'conv': self.conv_rows(), 'bad': self.bad,
                       'mconv': multi_rows(sorted(self.lists))}, f)
        return path


DT_FORMAT = '%Y-%m-%dT%H:%M:%S%z'


def conv_rows_for(s):
    """TRUSTED BASE: what CPython's own parsers accept for the text s, and str() of the value."""
    rows = []
    big = 2 ** 31 - 1
    clip = lambda n: max(-big, min(big, n))  # noqa  TLC integers are 32-bit; bounds in templates are small

    def row(k, n, n2, v, fin=True, nan=False):
        rows.append({'k': k, 's': list(s), 'n': clip(n), 'n2': clip(n2), 'nan': nan, 'fin': fin, 'v': list(str(v))})
    try:
        n = int(s)
        row('int', n, n, n)      # n is only compared with the min/max arguments; the value travels as str(n)
    except ValueError:
        pass
    try:
        x = float(s)
        if math.isnan(x):
            row('float', 0, 0, x, fin=False, nan=True)
        elif math.isinf(x):
            row('float', big if x > 0 else -big, big if x > 0 else -big, x, fin=False)
        else:
            row('float', math.floor(x), math.ceil(x), x)
    except ValueError:
        pass
    try:
        row('uuid', 0, 0, uuid.UUID(s))
    except ValueError:
        pass
    try:
        row('dt', 0, 0, datetime.datetime.strptime(s, DT_FORMAT))
    except ValueError:
        pass
    return rows


TYPES = {str: 'str', int: 'int', float: 'float', uuid.UUID: 'uuid', datetime.datetime: 'dt'}


def project_params(params):
    """abstraction function for field values: the type of the object and the characters of its str()"""
    return sorted(({'f': k, 'ty': TYPES.get(type(v), 'other:' + type(v).__name__), 'v': list(str(v))}
                   for k, v in params.items()), key=lambda d: d['f'])


# ------------------------------------------------------------------------------------------------
# the bounded instances

INT = conv('int')


def mc_universe(thorough=False):
    """DESIGN C01/MC1: 2 literals (one of them the empty segment), {x}, {y}, {x:int}, {p:path}, one 2-field
    segment, and a 2-field segment with a path field (rejected at insertion, after nodes may have been made);
    thorough adds a second 2-field shape matching the same representative and a converter inside one."""
    segs = [seg('a'), seg(), seg(fld('x')), seg(fld('y')), seg(fld('x', INT)), seg(fld('p', conv('path'))),
            seg(fld('m'), '.', fld('n')), seg(fld('m'), '.', fld('p', conv('path')))]
    if thorough:
        segs += [seg(fld('k'), '-', fld('n')), seg(fld('m', INT), '.', fld('x'))]
    ps = ['a', '', '7', 'q', 'u.v'] + (['7.q', '1-2.3'] if thorough else [])
    return Universe(segs), ps


# ------------------------------------------------------------------------------------------------
# driving the real router (public API only: add_route / find) next to its shadow

class Res:
    def __init__(self, rid):
        self.rid = rid

    def on_get(self, req, resp):
        pass


def _new_router():
    from falcon.routing import CompiledRouter
    r = CompiledRouter()
    for name, cls in custom_converters().items():      # the documented way to add converters
        r.options.converters[name] = cls
    return r


def _add(router, text, res, c):
    from falcon.routing.compiled import UnacceptableRouteError
    try:
        if c:
            router.add_route(text, res, compile=True)
        else:
            router.add_route(text, res)
        return 'ok', ''
    except UnacceptableRouteError:
        return 'rej', ''
    except Exception as ex:  # noqa  anything else is an internal error
        return 'exc', repr(ex)[:200]


class Pair:
    """The router under test is fed the whole history; the shadow is a real router that is fed the
    accepted adds only (for a rejected add: a fresh router with the accepted adds, then this add)."""

    def __init__(self, u):
        self.u = u
        self.main = _new_router()
        self.shadow = _new_router()
        self.accepted = []            # (text, res, c)
        self.ids = {}                 # template text -> segment ids
        self.rejected = []            # templates (ids) the router under test rejected
        self.after_reject = False
        self.log = []                 # every public call made, for the replay file

    def add(self, tp, r, c):
        text = self.u.template(tp)
        self.ids[text] = list(tp)
        self.log.append(['add', list(tp), r, bool(c)])
        res = Res(r)
        out, x = _add(self.main, text, res, c)
        if out == 'ok':
            sout, sx = _add(self.shadow, text, res, c)
            self.accepted.append((text, res, c))
        else:
            probe = _new_router()
            for t, rs, _ in self.accepted:
                _add(probe, t, rs, False)
            sout, sx = _add(probe, text, res, c)
            self.rejected.append(list(tp))
            self.after_reject = True
        return {'op': 'add', 't': list(tp), 'r': r, 'c': bool(c), 'out': out, 'sout': sout, 'p': [], 'res': 0,
                'tmpl': [], 'params': [], 'sres': 0, 'stmpl': [], 'sparams': [], 'x': x or sx}

    def _find(self, router, path):
        try:
            got = router.find(path)
        except Exception as ex:  # noqa
            return 'exc', 0, [], [], repr(ex)[:200]
        if got is None:
            return 'miss', 0, [], [], ''
        try:
            resource, _mm, params, tmpl = got
            return ('hit', resource.rid if isinstance(resource, Res) else -1, self.ids.get(tmpl, [0]),
                    project_params(params), '')
        except Exception as ex:  # noqa  not the documented 4-tuple
            return 'exc', 0, [], [], 'malformed result %r: %r' % (got, ex)

    def find(self, segs, shadow=True):
        path = '/' + '/'.join(segs)
        self.log.append(['find', list(segs)])
        out, res, tmpl, params, x = self._find(self.main, path)
        sout, sres, stmpl, sparams, sx = self._find(self.shadow, path) if shadow else ('', 0, [], [], '')
        return {'op': 'find', 't': [], 'r': 0, 'c': False, 'out': out, 'sout': sout, 'p': [list(s) for s in segs],
                'res': res, 'tmpl': tmpl, 'params': params, 'sres': sres, 'stmpl': stmpl, 'sparams': sparams,
                'x': x or sx}


def siblings_nontrivial(accepted_tps, hit_tmpl):
    """DESIGN 2.6 rule, measured structurally: the walk had >= 2 sibling nodes to choose from at some level
    it visited (for a hit: along the returned route; for a miss: at the root)."""
    def kids(pre):
        return {tuple(t[:len(pre) + 1]) for t in accepted_tps if len(t) > len(pre) and list(t[:len(pre)]) == list(pre)}
    if not hit_tmpl or hit_tmpl == [0]:
        return len(kids([])) >= 2
    return any(len(kids(hit_tmpl[:k])) >= 2 for k in range(len(hit_tmpl)))


def same_obs(ev, want):
    """compare an observed find event with a specification record (Router!Rec)"""
    if ev['out'] != want['out']:
        return 'P:route'
    if want['out'] != 'hit':
        return 'ok'
    if ev['res'] != want['res'] or ev['tmpl'] != list(want['tmpl']):
        return 'P:route'
    wp = sorted(({'f': p['f'], 'ty': p['ty'], 'v': list(p['v'])} for p in want['params']), key=lambda d: d['f'])
    if [p['f'] for p in ev['params']] != [p['f'] for p in wp]:
        return 'P:leak' if set(p['f'] for p in ev['params']) - set(p['f'] for p in wp) else 'P:params'
    return 'ok' if ev['params'] == wp else 'P:params'


def shadow_view(ev):
    return {'out': ev['sout'], 'res': ev['sres'], 'tmpl': ev['stmpl'], 'params': ev['sparams']}


MISS = {'out': 'miss', 'res': 0, 'tmpl': [], 'params': []}


def replay_info(pair, upto=None):
    """what `./check C01 --replay` needs: the calls made and the template segments they use"""
    ops = pair.log if upto is None else pair.log[:upto]
    used = sorted({sid for op in ops if op[0] == 'add' for sid in op[1]})
    return {'ops': [[op[0], pair.u.template(op[1])] + op[1:] if op[0] == 'add' else op for op in ops],
            'segs': {str(sid): pair.u.ts[sid - 1] for sid in used}}


class Replayer:
    """Leg A: performs specification behaviours on a Pair and compares every outcome with the specification's."""

    def __init__(self, ctx, u):
        self.ctx, self.u = ctx, u
        self.lookups = 0

    def report(self, clause, pair, case, what):
        case = dict(case, **replay_info(pair))
        if clause.startswith('D:'):
            self.ctx.detail(clause, case, what)
        else:
            self.ctx.violation(clause, case, what)

    def add(self, pair, tp, r, c, want_out, case):
        """want_out = the outcome of the specification (Router!AddTo); returns True if the history can be continued"""
        want_ok = want_out == 'ok'
        ev = pair.add(tp, r, c)
        if ev['out'] != ev['sout']:
            self.report('P:reject-noop', pair, case, 'add_route(%r): router under test %s, router fed only the accepted adds %s %s'
                        % (self.u.template(tp), ev['out'], ev['sout'], ev['x']))
            return False
        if ev['out'] == 'exc':
            self.report('P:internal-error', pair, case, 'add_route(%r) raised %s' % (self.u.template(tp), ev['x']))
            return False
        if ev['out'] == 'ok' and want_out in ('pathNotLast', 'pathInMulti'):
            self.report('P:multiseg-not-last', pair, case, 'add_route(%r) accepted: a field whose converter consumes multiple '
                        'segments is followed by, or shares its segment with, something else (specification: %s)'
                        % (self.u.template(tp), want_out))
            return False
        if (ev['out'] == 'ok') != want_ok:
            self.report('D:accept', pair, case, 'add_route(%r): %s, acceptance rules of the specification say %s'
                        % (self.u.template(tp), ev['out'], 'ok' if want_ok else 'rejected'))
            return False
        return True

    def find(self, pair, segs, want, case):
        ev = pair.find(segs, shadow=False)
        self.lookups += 1
        clause = same_obs(ev, want) if ev['out'] != 'exc' else 'P:internal-error'
        if clause == 'ok':
            return True
        pair.log.pop()
        ev = pair.find(segs)          # disagreement: ask the shadow router too, to classify it
        if pair.after_reject and ev['sout'] != 'exc' and same_obs(shadow_view(ev), want) == 'ok':
            clause = 'P:reject-noop'      # only the router that saw the rejected add(s) is wrong
        self.report(clause, pair, case, 'find(%r): got %s, specification %s %s'
                    % ('/' + '/'.join(segs), {k: ev[k] for k in ('out', 'res', 'tmpl', 'params')},
                       {k: want[k] for k in ('out', 'res', 'tmpl', 'params')}, ev['x']))
        return False


def all_paths(ps, maxlen):
    return [p for n in range(1, maxlen + 1) for p in itertools.product(ps, repeat=n)]


def all_templates(u, maxdepth):
    """every template of <= maxdepth segments in normal form (the router strips leading slashes, so a
    template cannot start with an empty segment unless it is the root template)"""
    n = len(u.ts)
    return [tp for d in range(1, maxdepth + 1) for tp in itertools.product(range(1, n + 1), repeat=d)
            if d == 1 or u.ts[tp[0] - 1]['items']]


def table_key(tps):
    return tuple(tuple(t) for t in tps)


def replay_history(rp, u, tables, hist, paths_final, paths_mid, origin):
    """hist = [(tp, compile flag)]; the decision table says, per state (= accepted templates in order), the
    outcome of every add and the result of every lookup.  Returns False at the first disagreement."""
    ctx = rp.ctx
    pair = Pair(u)
    acc, racc = [], []           # accepted templates / their resource numbers in this history
    case = {'origin': origin, 'history': [[u.template(tp), bool(c)] for tp, c in hist], 'ids': [list(tp) for tp, _ in hist]}
    nontrivial = False
    ok = True
    for i, (tp, c) in enumerate(hist):
        tab = tables[table_key(acc)]
        if not rp.add(pair, tp, i + 1, c, tab['outs'][tuple(tp)], case):
            ok = False
            break
        if tab['outs'][tuple(tp)] == 'ok':
            acc.append(tuple(tp))
            racc.append(i + 1)
        tab = tables.get(table_key(acc))
        if tab is None:           # beyond the tabulated bound
            break
        for segs in (paths_final if i == len(hist) - 1 else paths_mid):
            w = tab['hits'].get(segs)
            want = MISS if w is None else dict(w, res=racc[w['res'] - 1])
            if pair.after_reject or siblings_nontrivial(acc, want['tmpl']):
                nontrivial = True
            if not rp.find(pair, segs, want, case):
                ok = False
                break
        if not ok:
            break
    ctx.case(case, nontrivial=nontrivial, key=digest(case['ids'] + [c for _, c in hist]))
    return ok


def load_tables(rjson):
    tables = {}
    for st in rjson:
        hits = {}
        for hrec in st['hits']:
            segs = tuple(''.join(s) for s in hrec['p'])
            hits[segs] = {'out': 'hit', 'res': hrec['res'], 'tmpl': list(hrec['tmpl']), 'params': hrec['params']}
        tables[table_key(a['t'] for a in st['acc'])] = {
            'outs': {tuple(o['t']): o['out'] for o in st['outs']}, 'hits': hits, 'racc': [a['r'] for a in st['acc']]}
    return tables


def overlap_universe():
    """Second exhaustive universe, aimed at two shapes a small random choice rarely produces:
    (a) multi-field segments that mix a converted and a plain field at two consecutive levels ({m:int}.{x} above
        {k:int}-{n}) with a single-field sibling below -- the values of the outer segment must survive the inner
        match, and an inner veto must leave nothing behind;
    (b) a literal ('7.q') or an earlier multi-field sibling ({g}-{h}) that matches the same path segment as a later
        multi-field sibling which alone has a continuation -- the walk must backtrack to the later sibling."""
    segs = [seg('7.q'), seg(fld('m', INT), '.', fld('x')), seg(fld('k', INT), '-', fld('n')), seg(fld('y')),
            seg(fld('g'), '-', fld('h'))]
    return Universe(segs), ['7.q', '7-q', 'q-q', '7.q-q']


def bounds_universe():
    """Third exhaustive universe: int and float converters with inclusive bounds at 0, at negative and positive
    values, path segments on both sides of every bound and on it; a vetoing converter under the literal 'a' makes
    the walk backtrack to the single-field sibling of 'a' (paths of <= 2 segments)."""
    segs = [seg('a'), seg(fld('n', conv('int', lo=0))), seg(fld('t', conv('float', hi=0))),
            seg(fld('i', conv('int', lo=-2, hi=3))), seg(fld('f', conv('float', lo=-1, hi=2))), seg(fld('y'))]
    return Universe(segs), ['a', '-1', '0', '-0', '0.0', '-0.5', '0.5', '2', '2.5', '3', '4', '-2', '-3']


def levels_universe():
    """Fourth exhaustive universe, templates of <= 3 segments: a literal, a converted single field and a
    multi-field segment with a converter, in every order -- each converted field has its own value on the path
    ('7' vs '3.q'), so a value that ends up under the wrong name shows as P:params."""
    segs = [seg('a'), seg(fld('u', INT)), seg(fld('n', INT), '.', fld('e'))]
    return Universe(segs), ['a', '7', '3.q']


def lf_universe():
    """Fifth exhaustive universe (paths of <= 2 segments): multi-field segments against representatives with a line
    feed -- trailing (the pattern's end is reached before it: match, the line feed in no field), doubled, leading,
    embedded, directly after the last literal chunk (field would be empty) -- and a carriage return (ordinary
    character); a literal with the same text and a single-field sibling that takes what the patterns refuse."""
    segs = [seg('u.v'), seg(fld('m'), '.', fld('n')), seg(fld('k', INT), '-', fld('h')),
            seg('v', fld('a'), '.', fld('b')), seg(fld('y'))]
    ps = ['u.v', 'u.v\n', 'u\n.v', '\nu.v', 'u.v\n\n', '7-q\n', '7\n-q', 'q-7\n', 'v1.2\n', 'u\r.v', 'u.\n']
    return Universe(segs), ps


def multiseg_universe():
    """Sixth exhaustive universe: user-defined converters that consume multiple segments -- {t:tail} (subclass of
    PathConverter: vetoes lists of > 2 segments, joins with '|') and {s:segs} (BaseConverter + flag: vetoes a list
    that has the segment 'q', value = number of segments) -- next to {p:path}, a plain field and a literal; two
    segments that embed such a field (rejected when added).  'q.x' is not the segment 'q'; 'u.v' has three characters."""
    segs = [seg('a'), seg(fld('x')), seg(fld('t', conv('tail'))), seg(fld('s', conv('segs'))),
            seg(fld('p', conv('path'))), seg(fld('m'), '.', fld('t', conv('tail'))), seg('q', fld('s', conv('segs')))]
    return Universe(segs), ['a', 'q', 'q.x', 'u.v']


def sim_universe():
    """the larger universe of the simulated histories (leg A): converters with arguments, float, a converter
    inside a multi-field segment, three multi-field shapes that can match the same representative"""
    path = conv('path')
    segs = [seg('a'), seg('b'), seg(), seg('a.b'), seg(fld('x')), seg(fld('y')), seg(fld('x', INT)),
            seg(fld('z', conv('int', nd=2))), seg(fld('w', conv('int', lo=3, hi=50))), seg(fld('f', conv('float'))),
            seg(fld('p', path)), seg(fld('m'), '.', fld('n')), seg(fld('k'), '-', fld('n')),
            seg(fld('m', INT), '.', fld('x')), seg('v', fld('q')), seg(fld('m'), '.', fld('p', path)),
            seg(fld('g', conv('nope'))), seg(fld('9x')), seg('a b'),
            seg('7.q'), seg(fld('j', INT), '-', fld('h')),
            seg(fld('n0', conv('int', lo=0))), seg(fld('t0', conv('float', hi=0))), seg(fld('i', INT), ',', fld('j', INT)),
            seg(fld('t', conv('tail'))), seg(fld('s', conv('segs'))), seg(fld('m'), '.', fld('s', conv('segs')))]
    ps = ['a', 'b', '', 'a.b', '7', '42', '007', ' 7', 'q', 'u.v', '1-2.3', '7.q', '1.5', 'va', 'inf',
          '7-q', 'q-q', '7.q-q', '-1', '0', '-0.5', '0.5', '10,20', 'u.v\n', 'u\n.v', '7-q\n', '7\n']
    return Universe(segs), ps


# ------------------------------------------------------------------------------------------------
# leg B: random route tables beyond the bound

LITS = ['a', 'b', 'ab', 'items', 'v1', 'x.y', 'a-b', '7', 'a+b', '(z)', 'u.v', '']
UUID1 = '12345678-1234-5678-1234-567812345678'
DT1 = '2020-01-02T03:04:05Z'
CONVS = [(conv('int'), 6), (conv('int', nd=2), 2), (conv('int', lo=3, hi=50), 2), (conv('float'), 3),
         (conv('float', fin=False), 1), (conv('uuid'), 2), (conv('dt'), 1),
         (conv('int', lo=0), 2), (conv('int', hi=0), 1), (conv('int', lo=-2, hi=3), 1), (conv('float', lo=0), 1),
         (conv('float', hi=0), 2), (conv('float', lo=-1, hi=2), 1), (conv('float', lo=0, fin=False), 1)]
REPS_BY_CONV = {
    '': ['q', 'u', ''],
    'int': ['7', '42', '007', '+5', ' 7', '5_0', 'x7', '2', '51', '٥', '-1', '0', '-0', '3', '4', '-2', '-3'],
    'float': ['1.5', '1e3', 'inf', 'nan', '-0', 'x', '-1', '0', '0.0', '-0.5', '0.5', '2', '2.5', '-inf'],
    'uuid': [UUID1, UUID1.replace('-', ''), 'not-a-uuid'],
    'dt': [DT1, '2020-01-02'],
    'path': ['q', ''],
}
FIELD_FILL = ['u', 'v', '1', '42', 'u.v', 'a-b', 'x']


def _weighted(rng, pairs):
    tot = sum(w for _, w in pairs)
    x = rng.random() * tot
    for v, w in pairs:
        x -= w
        if x < 0:
            return v
    return pairs[-1][0]


def random_segment(rng, names):
    """one template segment from the grammar of the property: literal, simple, converter-carrying,
    multi-field, path-consuming (+ a few invalid ones)"""
    t = rng.random()
    nm = lambda: rng.choice(names)  # noqa
    if t < 0.38:
        return seg(rng.choice(LITS))
    if t < 0.56:
        return seg(fld(nm()))
    if t < 0.70:
        return seg(fld(nm(), _weighted(rng, CONVS)))
    if t < 0.78:
        return seg(fld(nm(), conv(rng.choice(('path', 'path', 'tail', 'segs')))))
    if t < 0.97:
        a, b = nm(), nm()
        shape = rng.randrange(10)
        c1 = _weighted(rng, CONVS) if rng.random() < 0.25 else None
        c2 = _weighted(rng, CONVS) if rng.random() < 0.25 else None
        if shape == 0:
            return seg(fld(a, c1), '.', fld(b, c2))
        if shape == 1:
            return seg(fld(a, c1), '-', fld(b, c2))
        if shape == 2:
            return seg('v', fld(a, c1))
        if shape == 3:
            return seg(fld(a, c1), 'v', fld(b, c2))
        if shape == 4:
            return seg('x', fld(a), 'y')
        if shape == 5:
            return seg(fld(a), fld(b))
        if shape == 6:
            return seg(fld(a), '.', fld(b), '.', fld(rng.choice(names)))
        if shape == 7:
            return seg(fld(a), '+', fld(b, c2))
        if shape == 8:
            return seg(fld(a), '.', fld(b, conv(rng.choice(('path', 'tail', 'segs')))))
        return seg(fld(a, c1), '(', fld(b), ')')
    bad = rng.randrange(3)
    if bad == 0:
        return seg(fld(rng.choice(['9x', 'a b', 'class'])))
    if bad == 1:
        return seg(fld(nm(), conv('nope')))
    return seg(rng.choice(['a b', 'x\ty']))


def seg_reps(s, rng):
    """path segments that are interesting for template segment s (accepted and vetoed ones)"""
    k = seg_kind(s)
    if k == 'lit':
        return [render_seg(s)]
    if k == 'var':
        return REPS_BY_CONV.get(s['items'][0]['c']['k'], ['q'])
    out = []
    for _ in range(3):
        txt = ''
        for it in s['items']:
            if it['t'] == 'lit':
                txt += ''.join(it['v'])
            else:
                pool = REPS_BY_CONV.get(it['c']['k'], FIELD_FILL)[:4] if it['c']['k'] and rng.random() < 0.7 else FIELD_FILL
                txt += rng.choice(pool)
        out.append(txt)
    # line feed (trailing, doubled, leading, embedded) and carriage return in what a multi-field pattern is asked to match
    base = rng.choice(out)
    i = rng.randrange(len(base) + 1)
    out += [base + '\n', rng.choice(['\n' + base, base + '\n\n', base[:i] + '\n' + base[i:], base[:i] + '\r' + base[i:]])]
    return out


GOOD_BAD = [(conv('int'), '7', 'x7'), (conv('int', nd=2), '42', '7'), (conv('int', lo=3, hi=50), '17', '51'),
            (conv('float'), '1.5', 'latest'), (conv('int', lo=0), '0', '-1'), (conv('float', hi=0), '-0.5', '0.5'),
            (conv('int', lo=-2, hi=3), '-2', '-3'), (conv('float', lo=-1, hi=2), '2', '2.5'),
            (conv('int', hi=0), '-0', '1'), (conv('float', lo=0), '0.0', '-0.5')]
DISTINCT = ['7', '3', '10', '20', '5', '11']


def scenario(rng, names):
    """Sibling/nesting shapes that a random table produces only by luck; returns (templates as lists of segments,
    probe paths).  0: multi-field segments mixing a converted and a plain field at two consecutive levels, with a
    single-field or literal sibling below; 1: a literal that an earlier/later multi-field sibling also matches, the
    continuation existing under one of them only; 2: two multi-field shapes matching the same segment, likewise."""
    pre = [seg(rng.choice(['pkg', 'cmp', 'v1', 'a']))] if rng.random() < 0.7 else []
    ptx = [render_seg(x) for x in pre]
    a, b, c, d, e = rng.sample(names, 5)
    kind = rng.randrange(7)
    if kind == 5:
        # user-defined multi-segment converters: one vetoes below a literal, the walk goes back to the literal's
        # single-field sibling, whose own trailing converter may veto too; two templates that must be rejected
        c1, c2 = rng.choice([('segs', 'tail'), ('tail', 'segs'), ('segs', 'path'), ('tail', 'path')])
        tps = [pre + [seg('a'), seg(fld(a, conv(c1)))], pre + [seg(fld(b)), seg(fld(c, conv(c2)))],
               pre + [seg(fld(d, conv(c1))), seg('x')], pre + [seg(fld(d), '.', fld(e, conv(c1)))]]
        if rng.random() < 0.5:
            tps.append(pre + [seg(fld(b)), seg('k'), seg(fld(e)), seg(fld(d))])
        rng.shuffle(tps)
        probes = [ptx + x for x in (['a', 'q'], ['a', 'q.x'], ['a', 'u', 'v', 'w'], ['a', 'u', 'q', 'w'], ['a', 'u.v'],
                                     ['b', 'u', 'v', 'w'], ['b', 'q', 'u'], ['a', 'k', 'v', 'w'], ['b', 'k', 'q', 'w'], ['a', ''])]
        return tps, probes
    if kind == 6:
        # line feeds against multi-field patterns, with a literal of the same text and/or a single-field sibling
        sp = rng.choice(['.', '-', ':'])
        cx = seg(fld(a), sp, fld(b)) if rng.random() < 0.6 else seg(fld(a, INT), sp, fld(b))
        tps = [pre + [cx]]
        if rng.random() < 0.6:
            tps.append(pre + [seg('7' + sp + 'v')])
        if rng.random() < 0.6:
            tps.append(pre + [seg(fld(c))])
        if rng.random() < 0.5:
            tps.append(pre + [seg('v', fld(d), sp, fld(e)), seg('z')])
        if rng.random() < 0.5:
            tps.append(pre + [cx, seg(fld(d))])
        rng.shuffle(tps)
        t0 = '7' + sp + 'v'
        probes = [ptx + x for x in ([t0 + '\n'], [t0], ['7\n' + sp + 'v'], ['\n' + t0], [t0 + '\n\n'], ['7' + sp + '\n'],
                                     ['7' + sp + '\nv'], ['7\r' + sp + 'v'], ['v' + t0 + '\n', 'z'], [t0 + '\n', 'w'],
                                     ['7' + sp + 'v\r'], ['v7\n' + sp + 'v', 'z'])]
        return tps, probes
    if kind == 3:
        # literals, a converted single field and multi-field segments with converters at depth 3..4, in any
        # order; every converted field gets its own value
        f_ = rng.sample(names, 6)
        vals = rng.sample(DISTINCT, 5)
        cnum = lambda: rng.choice([INT, INT, conv('float'), conv('int', lo=0)])  # noqa
        parts = [(seg(fld(f_[0], cnum())), vals[0])]
        sp = rng.choice(['.', ',', '-'])
        if rng.random() < 0.5:
            parts.append((seg(fld(f_[1], cnum()), sp, fld(f_[2], cnum())), vals[1] + sp + vals[2]))
        else:
            first = rng.random() < 0.6
            parts.append((seg(fld(f_[1], cnum()), sp, fld(f_[2])), vals[1] + sp + 'txt') if first
                         else (seg(fld(f_[2]), sp, fld(f_[1], cnum())), 'txt' + sp + vals[1]))
        if rng.random() < 0.4:
            parts.append((seg(fld(f_[3], cnum())), vals[3]))
        for word in rng.sample(['users', 'files', 'v'], rng.randint(1, 2)):
            parts.append((seg(word), word))
        parts = parts[:4]
        rng.shuffle(parts)
        tps = [[x for x, _ in parts]]
        path = [v for _, v in parts]
        probes = [path, path[:-1] + ['zz'], path, path + ['zz']]
        return tps, probes
    if kind == 4:
        # a bounded converter below a literal vetoes; the walk must go back to the literal's single-field sibling
        cb, good, bad = rng.choice(GOOD_BAD[2:])
        tail = seg(rng.choice(['x', 'tail']))
        tps = [[seg('a'), seg(fld(a, cb)), tail], [seg(fld(b)), seg(fld(c)), tail]]
        if rng.random() < 0.5:
            tps.append([seg('pages'), seg(fld(d, cb))])
        rng.shuffle(tps)
        tl = render_seg(tail)
        probes = [['a', good, tl], ['a', bad, tl], ['pages', bad], ['pages', good], ['a', bad, tl]]
        return tps, probes
    if kind == 0:
        (c1, g1, b1), (c2, g2, b2) = rng.choice(GOOD_BAD), rng.choice(GOOD_BAD)
        s1, s2 = rng.choice(['.', '-', ':']), rng.choice(['.', '-', ':'])
        first1, first2 = rng.random() < 0.7, rng.random() < 0.7          # converted field first?
        m1 = seg(fld(a, c1), s1, fld(b)) if first1 else seg(fld(b), s1, fld(a, c1))
        m2 = seg(fld(c, c2), s2, fld(d)) if first2 else seg(fld(d), s2, fld(c, c2))
        sib = seg(fld(e)) if rng.random() < 0.6 else seg('latest')
        def inst(first, cv, sep, plain):  # noqa
            return cv + sep + plain if first else plain + sep + cv
        tps = [pre + [m1, m2], pre + [m1, sib]]
        if rng.random() < 0.3:
            tps.append(pre + [m1, m2, seg(fld(e) if sib['items'][0]['t'] == 'lit' else 'tail')])
        o1 = inst(first1, g1, s1, 'beta')
        probes = [ptx + [o1, inst(first2, g2, s2, 'x86')], ptx + [o1, inst(first2, b2, s2, 'x86')],
                  ptx + [o1, 'latest'], ptx + [inst(first1, b1, s1, 'beta'), inst(first2, g2, s2, 'x86')],
                  ptx + [o1, inst(first2, g2, s2, 'x86'), 'tail']]
    elif kind == 1:
        sp = rng.choice(['.', '-', '+'])
        cx = seg(fld(a), sp, fld(b)) if rng.random() < 0.7 else seg(fld(a), sp, fld(b, conv('int', nd=2)))
        text = 'index' + sp + '42'
        cont = seg('meta') if rng.random() < 0.6 else seg(fld(c))
        tps = [pre + [seg(text)], pre + [cx, cont]]
        if rng.random() < 0.4:
            tps.append(pre + [seg(text), seg('own')])
        probes = [ptx + [text, 'meta'], ptx + [text], ptx + [text, 'own'], ptx + [text, 'zz'], ptx + ['other' + sp + '42', 'meta']]
    else:
        s1, s2 = rng.choice([('...', ':'), ('.', '-'), ('-', '+'), ('(', ')')])
        cx1, cx2 = seg(fld(a), s1, fld(b)), seg(fld(c), s2, fld(d))
        val = 'u' + s2 + '1' + s1 + 'v' + s2 + '2'
        tps = [pre + [cx1], pre + [cx2, seg('short')]]
        if rng.random() < 0.4:
            tps.append(pre + [cx1, seg(fld(e))] if rng.random() < 0.5 else pre + [cx2])
        probes = [ptx + [val, 'short'], ptx + [val], ptx + [val, 'zz'], ptx + ['u' + s1 + 'v', 'short']]
    rng.shuffle(tps)
    return tps, probes


def random_trace(rng, u, nadds, nfinds, maxdepth=4):
    """Drives a Pair with a random table; returns (events, info)."""
    suffix = rng.choice('abcdefgh')
    names = [n + suffix for n in ('id', 'name', 'x', 'y', 'k', 'n')]
    pair = Pair(u)
    acc = []                       # accepted templates (ids)
    seg_pool = []                  # segments used so far (ids), reused to make siblings and shared prefixes
    evs, nontrivial = [], False
    reps = ['', 'zzz', 'q', 'q.x']
    script, probes = {}, []        # scripted adds (position -> template), probe paths of the scenarios
    if rng.random() < 0.7:
        tps_, probes = scenario(rng, names)
        if nadds >= 12 and rng.random() < 0.5:
            t2, p2 = scenario(rng, names)
            tps_, probes = tps_ + t2, probes + p2
        for pos, t_ in zip(sorted(rng.sample(range(nadds), len(tps_))), tps_):
            script[pos] = t_

    def new_template():
        tp = []
        if acc and rng.random() < 0.65:
            base = rng.choice(acc)
            tp = list(base[:rng.randint(0, len(base))])
        n = rng.randint(1, 2) if tp else rng.randint(1, maxdepth)
        while len(tp) < maxdepth and n > 0:
            if seg_pool and rng.random() < 0.3:
                sid = rng.choice(seg_pool)
            else:
                sid = u.add(random_segment(rng, names))
            tp.append(sid)
            n -= 1
        while len(tp) > 1 and not u.ts[tp[0] - 1]['items']:      # normal form: no leading empty segment
            tp.pop(0)
        return tp

    def new_path():
        t = rng.random()
        if probes and rng.random() < 0.2:
            segs = list(rng.choice(probes))
            if rng.random() < 0.15:
                segs[rng.randrange(len(segs))] = rng.choice(reps)
        elif acc and t < 0.75:
            tp = rng.choice(acc)
            segs = []
            for sid in tp:
                s = u.ts[sid - 1]
                if is_rest_seg(s):
                    segs += [rng.choice(reps) for _ in range(rng.randint(1, 3))]
                else:
                    segs.append(rng.choice(seg_reps(s, rng)) if rng.random() < 0.85 else rng.choice(reps))
            m = rng.random()
            if m < 0.12 and len(segs) > 1:
                segs.pop()
            elif m < 0.24:
                segs.append(rng.choice(reps))
            elif m < 0.34:
                segs[rng.randrange(len(segs))] = rng.choice(reps)
            elif m < 0.37:
                segs.insert(0, '')
        else:
            segs = [rng.choice(reps) for _ in range(rng.randint(1, maxdepth + 1))]
        return [s for s in segs]

    finds_left = nfinds
    rest_depths = set()
    for i in range(nadds):
        tp = [u.add(x) for x in script[i]] if i in script else new_template()
        for sid in tp:
            if sid not in seg_pool:
                seg_pool.append(sid)
                for r_ in seg_reps(u.ts[sid - 1], rng):
                    if r_ not in reps:
                        reps.append(r_)
        ev = pair.add(tp, i + 1, rng.random() < 0.3)
        evs.append(ev)
        if ev['out'] == 'ok':
            acc.append(tp)
            if is_rest_seg(u.ts[tp[-1] - 1]) and u.ts[tp[-1] - 1]['items'][0]['c']['k'] in MULTI:
                rest_depths.add(len(tp) - 1)
        if ev['out'] != ev['sout'] or ev['out'] == 'exc':
            break
        k = min(finds_left, rng.choice((0, 0, 1, 3, 8)) if i < nadds - 1 else finds_left)
        finds_left -= k
        for _ in range(k):
            segs = new_path()
            for s in segs:
                u.strings.add(s)
            npath = norm_path(segs)      # the lists a user-defined multi-segment converter of this table can be handed
            for d_ in rest_depths:
                if len(npath) > d_:
                    u.lists.add(tuple(npath[d_:]))
            ev = pair.find(segs)
            evs.append(ev)
            if pair.after_reject or siblings_nontrivial(acc, ev['tmpl'] if ev['out'] == 'hit' else []):
                nontrivial = True
    return evs, {'nontrivial': nontrivial, 'templates': [u.template(e['t']) for e in evs if e['op'] == 'add']}


# ------------------------------------------------------------------------------------------------

def judge_traces(ctx, u, items, workers):
    """items = [(events, info)]; writes the batch universe, lets TLC judge, reports."""
    import os
    upath = u.write(os.path.join(ctx.scratch, 'trace_universe.json'))
    traces = [{'ev': [{k: v for k, v in e.items() if k != 'x'} for e in evs]} for evs, _ in items]
    verdicts = ctx.judge('RouterTrace', traces, env={'ROUTER_UNIVERSE': upath}, workers=workers, timeout=1500,
                         chunk=400)
    for (evs, info), v in zip(items, verdicts):
        if v == 'ok':
            continue
        clause, at = v.split('@')
        at = int(at)
        ev = evs[at - 1]
        ops = []
        for e in evs[:at]:
            ops.append(['add', u.template(e['t']), e['t'], e['r'], e['c']] if e['op'] == 'add'
                       else ['find', [''.join(s) for s in e['p']]])
        used = sorted({sid for e in evs[:at] if e['op'] == 'add' for sid in e['t']})
        case = {'origin': info.get('origin', 'random-table'), 'ops': ops, 'segs': {str(i): u.ts[i - 1] for i in used},
                'failing_event': {k: ev[k] for k in ('op', 'out', 'sout', 'res', 'tmpl', 'params', 'x')}}
        what = 'trace rejected by RouterTrace at event %d (%s): %s' % (
            at, ops[-1][:2], {k: ev[k] for k in ('out', 'res', 'tmpl', 'params', 'sout', 'x')})
        if clause.startswith('D:'):
            ctx.detail(clause, case, what)
        else:
            ctx.violation(clause, case, what)


def lf_witnesses(u, ps, rjson):
    """what the specification's decision table (TLC output) says about line feeds: lookups by kind"""
    w = {'hit_multi_field_trailing_lf': 0, 'lf_refused_by_multi_field_taken_by_single_field': 0,
         'miss_with_lf_below_multi_field': 0, 'hit_multi_field_cr': 0}
    lfpaths = [p for p in all_paths(ps, 2) if any('\n' in x for x in p)]
    kind = lambda sid: seg_kind(u.ts[sid - 1])  # noqa
    for st in rjson:
        hit_paths = set()
        acc = [list(a['t']) for a in st['acc']]
        for h in st['hits']:
            segs = [''.join(x) for x in h['p']]
            hit_paths.add(tuple(segs))
            tm = list(h['tmpl'])
            for idx, (sid, sg) in enumerate(zip(tm, norm_path(segs))):
                if kind(sid) == 'cx' and sg.endswith('\n'):
                    w['hit_multi_field_trailing_lf'] += 1
                if kind(sid) == 'cx' and '\r' in sg:
                    w['hit_multi_field_cr'] += 1
                if kind(sid) == 'var' and '\n' in sg and any(
                        a[:idx] == tm[:idx] and len(a) > idx and kind(a[idx]) == 'cx' for a in acc):
                    w['lf_refused_by_multi_field_taken_by_single_field'] += 1
        if any(kind(a[0]) == 'cx' for a in acc):
            w['miss_with_lf_below_multi_field'] += sum(1 for p in lfpaths if p not in hit_paths)
    return w


def multiseg_witnesses(u, rjson):
    """what the specification's decision table says about user-defined multi-segment converters"""
    w = {'hit_custom_converter': 0, 'veto_then_other_route': 0, 'veto_then_miss': 0, 'rejected_not_last': 0,
         'rejected_embedded': 0}
    custom = {i + 1 for i, sg in enumerate(u.ts) if seg_kind(sg) == 'var' and sg['items'][0]['c']['k'] in MULTI}
    for st in rjson:
        w['veto_then_other_route'] += st.get('nvetohit', 0)
        w['veto_then_miss'] += st.get('nveto', 0) - st.get('nvetohit', 0)
        for h in st['hits']:
            if h['tmpl'][-1] in custom:
                w['hit_custom_converter'] += 1
        for o in st['outs']:
            if o['out'] == 'pathNotLast' and any(t in custom for t in o['t'][:-1]):
                w['rejected_not_last'] += 1
            if o['out'] == 'pathInMulti' and any(has_path(u.ts[t - 1]) and seg_kind(u.ts[t - 1]) == 'cx' and
                                                 any(it['c']['k'] in MULTI for it in u.ts[t - 1]['items']) for t in o['t']):
                w['rejected_embedded'] += 1
    return w


def run(ctx):
    import os
    ctx.rule = ('case = one add_route/find history on a fresh CompiledRouter (decision-table histories, simulated '
                'histories, random route tables); non-trivial iff some lookup of the history had >= 2 sibling nodes to '
                'choose from at a level of the template tree it walked, or was made after a rejected add; distinct by '
                'hash of the history')
    ctx.trusted_base = ['TLC evaluation of spec/SegMatch.tla + spec/Router.tla',
                        "CPython int()/float()/uuid.UUID()/datetime.strptime() (converter table CT) and str() of values",
                        "the convert() methods of the check's two user-defined multi-segment converters called with lists (CT.multi)",
                        'a second real CompiledRouter fed only the accepted adds (tells "rejected add was not a no-op" '
                        'from "acceptance rules differ")']
    ctx.assumptions = ['templates/paths are given as segment sequences; text = "/" + "/".join(segments); templates in '
                       'normal form (no leading empty segment: the router strips leading slashes)',
                       'path segments contain no backslash or braces; line feed and carriage return are among the representatives',
                       'user-defined converters: the two multi-segment converters of this check (no arguments), registered '
                       'on every router through router_options.converters',
                       'field names, converter names and white space decide validity as in the code (D-clause)',
                       'resources expose on_get only; suffix/method-map handling of add_route is not exercised']
    W = int(os.environ.get('VERIF_TLC_WORKERS', '0')) or ctx.pick(8, 12)

    # ---- leg M: the design, exhaustively --------------------------------------------------------
    u, ps = mc_universe(False)
    upath = u.write(os.path.join(ctx.scratch, 'mc_universe.json'), ps, 3)
    env = {'ROUTER_UNIVERSE': upath}
    acts = ['XAccept', 'XRejectInvalid', 'XRejectConflict', 'XRejectPathNotLast', 'XFind']
    r = ctx.tlc('MC_Router', 'MC_Router.cfg', env=env, workers=W, timeout=1500)
    # vacuity guard: the same state graph with -coverage (Paths only feeds the invariants, so the
    # instance with paths of one segment has the same states and is cheap under TLC's cost accounting)
    rc = ctx.tlc('MC_Router', 'MC_RouterCov.cfg', coverage=True, env=env, workers=min(W, 4), timeout=1500, count=False)
    ctx.require_coverage(rc, acts)
    if rc.distinct != r.distinct:
        raise MachineryError('coverage instance has %d states, checked instance %d' % (rc.distinct, r.distinct))
    ctx.extra['action_coverage'] = {a: rc.coverage[a][1] for a in acts}
    tables = load_tables(r.json)
    if not tables:
        raise MachineryError('MC_Router printed no decision table')
    ctx.extra['decision_table_states'] = len(tables)
    ctx.progress('leg M: %d states, %d table states' % (r.distinct, len(tables)))
    uo, pso = overlap_universe()
    uopath = uo.write(os.path.join(ctx.scratch, 'mc_universe_o.json'), pso, 3)
    ro = ctx.tlc('MC_Router', 'MC_Router.cfg', env={'ROUTER_UNIVERSE': uopath}, workers=W, timeout=1500)
    otables = load_tables(ro.json)
    ctx.progress('leg M (nesting/overlap universe): %d states, %d table states' % (ro.distinct, len(otables)))
    small = [(uo, pso, otables)]
    short_us, depth3_us = [], []
    for mk, cfg, what in ((bounds_universe, 'MC_RouterP2.cfg', 'converter bounds'),
                          (levels_universe, 'MC_RouterD3.cfg', 'depth 3'),
                          (lf_universe, 'MC_RouterP2.cfg', 'line feed'),
                          (multiseg_universe, 'MC_Router.cfg', 'multi-segment converters')):
        ux, psx = mk()
        uxpath = ux.write(os.path.join(ctx.scratch, 'mc_universe_%s.json' % mk.__name__[:3]), psx, 3)
        rx = ctx.tlc('MC_Router', cfg, env={'ROUTER_UNIVERSE': uxpath}, workers=W, timeout=1500)
        small.append((ux, psx, load_tables(rx.json)))
        (short_us if cfg == 'MC_RouterP2.cfg' else depth3_us if cfg == 'MC_RouterD3.cfg' else []).append(ux)
        ctx.progress('leg M (%s universe): %d states, %d table states' % (what, rx.distinct, len(small[-1][2])))
        # vacuity of the two grown dimensions, measured on what TLC printed
        if mk is lf_universe:
            w = lf_witnesses(ux, psx, rx.json)
            ctx.extra['line_feed_table'] = w
            if not all(w.values()):
                raise MachineryError('line-feed universe: a kind of lookup is missing from the decision table: %r' % w)
        if mk is multiseg_universe:
            w = multiseg_witnesses(ux, rx.json)
            ctx.extra['multiseg_table'] = w
            if not all(w.values()):
                raise MachineryError('multi-segment universe: a kind of entry is missing from the decision table: %r' % w)
    big = None
    if not ctx.quick:
        r3 = ctx.tlc('MC_Router', 'MC_RouterT.cfg', env=env, workers=W, timeout=3000)
        ctx.progress('leg M (3 adds, paths <= 2): %d states' % r3.distinct)
        # the larger universe: two multi-field shapes that match one representative (insertion order
        # decides), a converter inside a multi-field segment
        ut, pst = mc_universe(True)
        utpath = ut.write(os.path.join(ctx.scratch, 'mc_universe_t.json'), pst, 3)
        r4 = ctx.tlc('MC_Router', 'MC_Router.cfg', env={'ROUTER_UNIVERSE': utpath}, workers=W, timeout=3000)
        big = (ut, pst, load_tables(r4.json))
        ctx.progress('leg M (10 template segments): %d states, %d table states' % (r4.distinct, len(big[2])))
    # vacuity: each wrong-design switch must break its invariant
    for cfg, inv in (('MC_RouterBadRollback.cfg', 'RejectIsNoOp'), ('MC_RouterBadReset.cfg', 'FindIsIdealDFS')):
        rb = ctx.tlc('MC_Router', cfg, env=env, workers=4, timeout=600, must_hold=False, count=False)
        if rb.violated != inv:
            raise MachineryError('vacuous model: %s did not violate %s (got %r)' % (cfg, inv, rb.violated))
    rb = ctx.tlc('MC_Router', 'MC_RouterBadLF.cfg', env={'ROUTER_UNIVERSE': os.path.join(ctx.scratch, 'mc_universe_lf_.json')},
                 workers=2, timeout=600, must_hold=False, count=False)
    if rb.violated != 'XSplitSound':
        raise MachineryError('vacuous model: MC_RouterBadLF.cfg did not violate XSplitSound (got %r)' % rb.violated)
    ctx.extra['wrong_design_switches'] = {'Rollback=FALSE': 'RejectIsNoOp violated', 'ResetOnAdd=FALSE': 'FindIsIdealDFS violated',
                                          'LFBlind=TRUE (fields take line feeds)': 'XSplitSound violated'}
    ctx.progress('vacuity runs done')

    # ---- leg A1: the decision table replayed: every history of <= 2 adds, complete lookup tables ----
    rng = ctx.rng
    n = lookups = 0
    for uu, pp, tabs in [(u, ps, tables)] + small + ([big] if big else []):
        rp = Replayer(ctx, uu)
        is_small = any(uu is x[0] for x in small)
        depth3, short = any(uu is x for x in depth3_us), any(uu is x for x in short_us)
        tps = all_templates(uu, 3 if depth3 else 2)
        # compile flags: thorough replays all four combinations per template pair of the two larger universes;
        # quick (and the two smallest universes) draw the flags per history
        allflags = not ctx.quick and not (depth3 or short)
        moves = [(tp, c) for tp in tps for c in ((False, True) if allflags else (None,))]
        P2, P3 = all_paths(pp, 2), all_paths(pp, 2 if short else 3)
        P3only = P3[len(P2):]
        nsample = len(P3only) if is_small else ctx.pick(12, 40)      # the small universes: complete tables
        for m1 in moves:
            for m2 in moves:
                n += 1
                final = P2 + rng.sample(P3only, nsample)
                mid = rng.sample(P2, 5) if n % 2 else []
                hist = [(tp, rng.random() < 0.5 if c is None else c) for tp, c in (m1, m2)]
                replay_history(rp, uu, tabs, hist, final, mid, 'decision-table')
        if not ctx.quick:     # longer histories: the table covers the states with <= 2 accepted adds
            for _ in range(15000):
                n += 1
                hist = [(tp, rng.random() < 0.5 if c is None else c)
                        for tp, c in (rng.choice(moves) for _ in range(rng.randint(3, 5)))]
                replay_history(rp, uu, tabs, hist, rng.sample(P3, min(40, len(P3))), rng.sample(P2, 4), 'decision-table-long')
        lookups += rp.lookups
        ctx.progress('leg A1: %d histories, %d lookups so far' % (n, lookups))
    ctx.traces_validated += n
    ctx.extra['decision_table_histories'] = n
    ctx.extra['decision_table_lookups'] = lookups

    # ---- leg A2: simulated add/find histories of a larger universe --------------------------------
    us, pss = sim_universe()
    uspath = us.write(os.path.join(ctx.scratch, 'sim_universe.json'), pss, 3)
    rs = ctx.tlc('MC_Router', 'MC_RouterSim.cfg', simulate={'num': ctx.pick(40, 1000)}, depth=12, seed=ctx.seed + 1,
                 workers=4, env={'ROUTER_UNIVERSE': uspath}, timeout=1500, count=False)
    behaviours = {digest(b): b for b in rs.json}
    rps = Replayer(ctx, us)
    for b in behaviours.values():
        pair = Pair(us)
        acc = []
        nontrivial = False
        case = {'origin': 'simulated', 'history': [[us.template(e['t']), e['c']] if e['op'] == 'add' else
                                                   '/' + '/'.join(''.join(s) for s in e['p']) for e in b['h']]}
        for e in b['h']:
            if e['op'] == 'add':
                if not rps.add(pair, e['t'], e['r'], e['c'], e['out'], case):
                    break
                if e['out'] == 'ok':
                    acc.append(e['t'])
            else:
                want = {'out': e['out'], 'res': e['res'], 'tmpl': list(e['tmpl']), 'params': e['params']}
                if pair.after_reject or siblings_nontrivial(acc, want['tmpl']):
                    nontrivial = True
                if not rps.find(pair, [''.join(s) for s in e['p']], want, case):
                    break
        ctx.case(case, nontrivial=nontrivial, key=digest(case['history']))
    ctx.traces_validated += len(behaviours)
    ctx.extra['simulated_behaviours_replayed'] = len(behaviours)
    ctx.progress('leg A2: %d behaviours, %d lookups' % (len(behaviours), rps.lookups))

    # ---- leg B: random route tables, judged by TLC ---------------------------------------------------
    ub = Universe()
    items, seen = [], set()
    for i in range(ctx.pick(120, 2500)):
        evs, info = random_trace(rng, ub, rng.randint(5, 40), 200)
        k = digest([[e['op'], e['t'], e['c'], e['p']] for e in evs])
        ctx.case({'origin': 'random-table', 'templates': info['templates'][:12]}, nontrivial=info['nontrivial'], key=k)
        if k not in seen:
            seen.add(k)
            items.append((evs, info))
    nev = sum(len(e) for e, _ in items)
    ctx.progress('leg B: %d tables, %d events recorded, %d template segments' % (len(items), nev, len(ub.ts)))
    judge_traces(ctx, ub, items, W)
    ctx.extra['random_tables_judged'] = len(items)
    stats = {}
    for evs, _ in items:
        for e in evs:
            k = '%s:%s' % (e['op'], e['out'])
            stats[k] = stats.get(k, 0) + 1
    ctx.extra['random_table_event_kinds'] = stats
    custom_last = lambda t: bool(t) and t != [0] and is_rest_seg(ub.ts[t[-1] - 1]) and ub.ts[t[-1] - 1]['items'][0]['c']['k'] in MULTI  # noqa
    grown = {'finds_with_line_feed': 0, 'hits_multi_field_on_line_feed_segment': 0, 'hits_on_user_defined_multiseg': 0,
             'rejected_adds_with_user_defined_multiseg': 0}
    for evs, _ in items:
        for e in evs:
            if e['op'] == 'find':
                lf = [i for i, sg in enumerate(norm_path([''.join(x) for x in e['p']])) if '\n' in sg]
                grown['finds_with_line_feed'] += bool(lf)
                if e['out'] == 'hit' and e['tmpl'] != [0]:
                    grown['hits_multi_field_on_line_feed_segment'] += any(
                        i < len(e['tmpl']) and seg_kind(ub.ts[e['tmpl'][i] - 1]) == 'cx' for i in lf)
                    grown['hits_on_user_defined_multiseg'] += custom_last(e['tmpl'])
            elif e['out'] == 'rej':
                grown['rejected_adds_with_user_defined_multiseg'] += any(
                    it['c']['k'] in MULTI for sid in e['t'] for it in ub.ts[sid - 1]['items'])
    ctx.extra['random_tables_grown_dimensions'] = grown
    if not all(grown.values()):
        raise MachineryError('leg B did not reach a grown dimension: %r' % grown)
    ctx.extra['random_table_events'] = nev
    ctx.progress('leg B judged')


def replay(ctx, case):
    """re-executes the recorded calls on a fresh router pair and lets TLC judge the trace"""
    u = Universe()
    remap = {}
    for sid, s in sorted(case['segs'].items(), key=lambda kv: int(kv[0])):
        remap[int(sid)] = u.add(s)
    pair = Pair(u)
    evs = []
    for op in case['ops']:
        if op[0] == 'add':
            evs.append(pair.add([remap[i] for i in op[2]], op[3], op[4]))
        else:
            for s in op[1]:
                u.strings.add(s)
            u.note_path(op[1])
            evs.append(pair.find(op[1]))
        print(op[:2], '->', {k: evs[-1][k] for k in ('out', 'res', 'params', 'sout', 'x')})
    judge_traces(ctx, u, [(evs, {'origin': 'replay'})], 1)
