"""C01 - the compiled router resolves every path as the depth-first walk of the template tree dictates.

spec:   spec/SegMatch.tla (one template segment vs one path segment), spec/Router.tla (reference trie,
        incremental tree + generated-program snapshot, add_route acceptance, lookup walk, invariants),
        spec/MC_Router.tla (bounded instances), spec/RouterTrace.tla (trace judge)
legs:   M  exhaustive TLC check of the router design over all add histories of a small template universe
           (+ the two wrong-design switches must break it)
        A  TLC-generated behaviours replayed on CompiledRouter: every add history of the small universe
           with the COMPLETE lookup table of each state, and -simulate add/find histories of a larger one
        B  random route tables (5..40 templates, fresh names) driven on CompiledRouter beyond the bound,
           lookups over a complete set of representatives; the recorded traces are judged by TLC
"""
import itertools

META = {
    'property_id': 'C01',
    'design_ref': 'DESIGN.md section 4, C01',
    'technique': 'TLA+ router specification (reference trie + depth-first walk) model-checked with TLC; '
                 'TLC-generated add/lookup behaviours replayed on CompiledRouter; recorded traces judged by TLC',
    'level_text': 'The router design (spec/Router.tla: incremental tree, rejection rules, generated-program snapshot) is '
                  'model-checked exhaustively over all add histories of a small template universe against a declarative '
                  'reference (trie of the accepted templates, priority-first matching route); the reference is bound to '
                  'CompiledRouter in both directions: every state of the small universe is replayed with its complete '
                  'lookup table, simulated add/find histories are replayed, and traces of random route tables with '
                  'representative-complete lookups are judged by TLC.  Every real router runs next to a shadow router '
                  'that only receives the accepted adds, so a rejected add that is not a no-op is told apart from a '
                  'disagreement about acceptance rules.',
    'level_note': 'Bounded: exhaustive for <= 3 add_route calls over templates of <= 2 segments from 8 template segments '
                  '(thorough: 10) and all paths of <= 3 segments over 7 representatives; random tables of <= 40 templates, '
                  'depth <= 4 beyond.  Trusted: TLC, CPython int()/float()/uuid.UUID()/strptime() (the converter table CT is '
                  'computed with them over every substring of the path segments used), str() of converted values.  '
                  'Not covered: path segments containing a newline, backslash or braces (regular-expression corner of '
                  'multi-field segments), float converters with min/max, custom converters, responder-suffix/method-map '
                  'handling of add_route.',
}

import datetime
import math
import uuid

from engine.core import MachineryError, digest

# ------------------------------------------------------------------------------------------------
# universe: template segments as data (the same records the specification reads)

def conv(k='', nd=-1, lo=None, hi=None, fin=True):
    return {'k': k, 'nd': nd, 'hasLo': lo is not None, 'lo': lo or 0, 'hasHi': hi is not None, 'hi': hi or 0,
            'fin': bool(fin)}


NOCONV = conv()


def lit(text):
    return {'t': 'lit', 'v': list(text), 'f': '', 'c': NOCONV}


def fld(name, c=None):
    return {'t': 'fld', 'v': [], 'f': name, 'c': c or NOCONV}


def seg(*items):
    """canonical template segment: adjacent literal chunks merged, empty ones dropped"""
    out = []
    for it in items:
        if isinstance(it, str):
            it = lit(it)
        if it['t'] == 'lit':
            if not it['v']:
                continue
            if out and out[-1]['t'] == 'lit':
                out[-1] = lit(''.join(out[-1]['v']) + ''.join(it['v']))
                continue
        out.append(it)
    return {'items': out}


def render_conv(c):
    if not c['k']:
        return ''
    args = []
    if c['nd'] != -1:
        args.append('num_digits=%d' % c['nd'])
    if c['hasLo']:
        args.append('min=%d' % c['lo'])
    if c['hasHi']:
        args.append('max=%d' % c['hi'])
    if not c['fin']:
        args.append('finite=False')
    return ':' + c['k'] + ('(%s)' % ', '.join(args) if args else '')


def render_seg(s):
    return ''.join(''.join(it['v']) if it['t'] == 'lit' else '{%s%s}' % (it['f'], render_conv(it['c']))
                   for it in s['items'])


def seg_kind(s):
    n = sum(1 for it in s['items'] if it['t'] == 'fld')
    return 'lit' if n == 0 else ('var' if len(s['items']) == 1 else 'cx')


def has_path(s):
    return any(it['t'] == 'fld' and it['c']['k'] == 'path' for it in s['items'])


class Universe:
    """Template segments (1-based ids as in the specification) + the trusted converter table."""

    def __init__(self, segs=(), bad=('9x', 'a b', 'class', '')):
        self.ts = []
        self.text = []
        self.ids = {}
        self.bad = list(bad)
        self.strings = set()          # path segments the converter table must cover
        for s in segs:
            self.add(s)

    def add(self, s):
        txt = render_seg(s)
        if txt not in self.ids:
            self.ts.append(s)
            self.text.append(txt)
            self.ids[txt] = len(self.ts)
        return self.ids[txt]

    def template(self, tp):
        return '/' + '/'.join(self.text[i - 1] for i in tp)

    def conv_rows(self):
        subs = set()
        for s in self.strings:
            for i in range(len(s)):
                for j in range(i + 1, len(s) + 1):
                    subs.add(s[i:j])
        subs.add('')
        rows = []
        for s in sorted(subs):
            rows += conv_rows_for(s)
        return rows

    def write(self, path, ps=()):
        import json
        for p in ps:
            self.strings.add(p)
        with open(path, 'w') as f:
            json.dump({'ts': self.ts, 'ps': [list(p) for p in ps], 'conv': self.conv_rows(), 'bad': self.bad}, f)
        return path


DT_FORMAT = '%Y-%m-%dT%H:%M:%S%z'


def conv_rows_for(s):
    """TRUSTED BASE: what CPython's own parsers accept for the text s, and str() of the value."""
    rows = []
    try:
        n = int(s)
        if abs(n) >= 2 ** 31:
            raise MachineryError('integer %r does not fit the specification; choose shorter digit strings' % s)
        rows.append({'k': 'int', 's': list(s), 'n': n, 'fin': True, 'v': list(str(n))})
    except ValueError:
        pass
    try:
        x = float(s)
        rows.append({'k': 'float', 's': list(s), 'n': 0, 'fin': math.isfinite(x), 'v': list(str(x))})
    except ValueError:
        pass
    try:
        u = uuid.UUID(s)
        rows.append({'k': 'uuid', 's': list(s), 'n': 0, 'fin': True, 'v': list(str(u))})
    except ValueError:
        pass
    try:
        d = datetime.datetime.strptime(s, DT_FORMAT)
        rows.append({'k': 'dt', 's': list(s), 'n': 0, 'fin': True, 'v': list(str(d))})
    except ValueError:
        pass
    return rows


TYPES = {str: 'str', int: 'int', float: 'float', uuid.UUID: 'uuid', datetime.datetime: 'dt'}


def project_params(params):
    """abstraction function for field values: the type of the object and the characters of its str()"""
    return sorted(({'f': k, 'ty': TYPES.get(type(v), 'other:' + type(v).__name__), 'v': list(str(v))}
                   for k, v in params.items()), key=lambda d: d['f'])


# ------------------------------------------------------------------------------------------------
# the bounded instances

INT = conv('int')


def mc_universe(thorough=False):
    """DESIGN C01/MC1: 2 literals (one of them the empty segment), {x}, {y}, {x:int}, {p:path}, one 2-field
    segment, and a 2-field segment with a path field (rejected at insertion, after nodes may have been made);
    thorough adds a second 2-field shape matching the same representative and a converter inside one."""
    segs = [seg('a'), seg(), seg(fld('x')), seg(fld('y')), seg(fld('x', INT)), seg(fld('p', conv('path'))),
            seg(fld('m'), '.', fld('n')), seg(fld('m'), '.', fld('p', conv('path')))]
    if thorough:
        segs += [seg(fld('k'), '-', fld('n')), seg(fld('m', INT), '.', fld('x'))]
    ps = ['a', '', '7', 'q', 'u.v', '7.q', '1-2.3' if thorough else 'b']
    return Universe(segs), ps


# ------------------------------------------------------------------------------------------------
# driving the real router (public API only: add_route / find) next to its shadow

class Res:
    def __init__(self, rid):
        self.rid = rid

    def on_get(self, req, resp):
        pass


def _new_router():
    from falcon.routing import CompiledRouter
    return CompiledRouter()


def _add(router, text, res, c):
    from falcon.routing.compiled import UnacceptableRouteError
    try:
        if c:
            router.add_route(text, res, compile=True)
        else:
            router.add_route(text, res)
        return 'ok', ''
    except UnacceptableRouteError:
        return 'rej', ''
    except Exception as ex:  # noqa  anything else is an internal error
        return 'exc', repr(ex)[:200]


class Pair:
    """The router under test is fed the whole history; the shadow is a real router that is fed the
    accepted adds only (for a rejected add: a fresh router with the accepted adds, then this add)."""

    def __init__(self, u):
        self.u = u
        self.main = _new_router()
        self.shadow = _new_router()
        self.accepted = []            # (text, res, c)
        self.ids = {}                 # template text -> segment ids
        self.rejected = []            # templates (ids) the router under test rejected
        self.after_reject = False

    def add(self, tp, r, c):
        text = self.u.template(tp)
        self.ids[text] = list(tp)
        res = Res(r)
        out, x = _add(self.main, text, res, c)
        if out == 'ok':
            sout, sx = _add(self.shadow, text, res, c)
            self.accepted.append((text, res, c))
        else:
            probe = _new_router()
            for t, rs, _ in self.accepted:
                _add(probe, t, rs, False)
            sout, sx = _add(probe, text, res, c)
            self.rejected.append(list(tp))
            self.after_reject = True
        return {'op': 'add', 't': list(tp), 'r': r, 'c': bool(c), 'out': out, 'sout': sout, 'p': [], 'res': 0,
                'tmpl': [], 'params': [], 'sres': 0, 'stmpl': [], 'sparams': [], 'x': x or sx}

    def _find(self, router, path):
        try:
            got = router.find(path)
        except Exception as ex:  # noqa
            return 'exc', 0, [], [], repr(ex)[:200]
        if got is None:
            return 'miss', 0, [], [], ''
        try:
            resource, _mm, params, tmpl = got
            return ('hit', resource.rid if isinstance(resource, Res) else -1, self.ids.get(tmpl, [0]),
                    project_params(params), '')
        except Exception as ex:  # noqa  not the documented 4-tuple
            return 'exc', 0, [], [], 'malformed result %r: %r' % (got, ex)

    def find(self, segs):
        path = '/' + '/'.join(segs)
        out, res, tmpl, params, x = self._find(self.main, path)
        sout, sres, stmpl, sparams, sx = self._find(self.shadow, path)
        return {'op': 'find', 't': [], 'r': 0, 'c': False, 'out': out, 'sout': sout, 'p': [list(s) for s in segs],
                'res': res, 'tmpl': tmpl, 'params': params, 'sres': sres, 'stmpl': stmpl, 'sparams': sparams,
                'x': x or sx}


def siblings_nontrivial(accepted_tps, hit_tmpl):
    """DESIGN 2.6 rule, measured structurally: the walk had >= 2 sibling nodes to choose from at some level
    it visited (for a hit: along the returned route; for a miss: at the root)."""
    def kids(pre):
        return {tuple(t[:len(pre) + 1]) for t in accepted_tps if len(t) > len(pre) and list(t[:len(pre)]) == list(pre)}
    if not hit_tmpl or hit_tmpl == [0]:
        return len(kids([])) >= 2
    return any(len(kids(hit_tmpl[:k])) >= 2 for k in range(len(hit_tmpl)))


def f1_signature(pair_rejected, u):
    """Structural signature of DESIGN 6/F1: the history contains a rejected add whose template has a path
    field that is not the whole final segment, below at least one other segment (the nodes made for the
    segments above it are left in the tree)."""
    for tp in pair_rejected:
        for i, sid in enumerate(tp):
            s = u.ts[sid - 1]
            if i > 0 and has_path(s) and (seg_kind(s) == 'cx' or i < len(tp) - 1):
                return {'defect': 'rejected-add-leaves-nodes', 'rejected_template': 'path-field-not-final-after-other-segments'}
    return None


def same_obs(ev, want):
    """compare an observed find event with a specification record (Router!Rec)"""
    if ev['out'] != want['out']:
        return 'P:route'
    if want['out'] != 'hit':
        return 'ok'
    if ev['res'] != want['res'] or ev['tmpl'] != list(want['tmpl']):
        return 'P:route'
    wp = sorted(({'f': p['f'], 'ty': p['ty'], 'v': list(p['v'])} for p in want['params']), key=lambda d: d['f'])
    if [p['f'] for p in ev['params']] != [p['f'] for p in wp]:
        return 'P:leak' if set(p['f'] for p in ev['params']) - set(p['f'] for p in wp) else 'P:params'
    return 'ok' if ev['params'] == wp else 'P:params'


def shadow_view(ev):
    return {'out': ev['sout'], 'res': ev['sres'], 'tmpl': ev['stmpl'], 'params': ev['sparams']}


MISS = {'out': 'miss', 'res': 0, 'tmpl': [], 'params': []}


class Replayer:
    """Leg A: performs specification behaviours on a Pair and compares every outcome with the specification's."""

    def __init__(self, ctx, u):
        self.ctx, self.u = ctx, u
        self.lookups = 0

    def report(self, clause, pair, case, what):
        sig = f1_signature(pair.rejected, self.u) if clause == 'P:reject-noop' else None
        if clause.startswith('D:'):
            self.ctx.detail(clause, case, what)
        else:
            self.ctx.violation(clause, case, what, signature=sig)

    def add(self, pair, tp, r, c, want_ok, case):
        """returns True if the history can be continued"""
        ev = pair.add(tp, r, c)
        if ev['out'] != ev['sout']:
            self.report('P:reject-noop', pair, case, 'add_route(%r): router under test %s, router fed only the accepted adds %s %s'
                        % (self.u.template(tp), ev['out'], ev['sout'], ev['x']))
            return False
        if ev['out'] == 'exc':
            self.report('P:internal-error', pair, case, 'add_route(%r) raised %s' % (self.u.template(tp), ev['x']))
            return False
        if (ev['out'] == 'ok') != want_ok:
            self.report('D:accept', pair, case, 'add_route(%r): %s, acceptance rules of the specification say %s'
                        % (self.u.template(tp), ev['out'], 'ok' if want_ok else 'rejected'))
            return False
        return True

    def find(self, pair, segs, want, case):
        ev = pair.find(segs)
        self.lookups += 1
        clause = same_obs(ev, want) if ev['out'] != 'exc' else 'P:internal-error'
        if clause == 'ok':
            return True
        if ev['sout'] != 'exc' and same_obs(shadow_view(ev), want) == 'ok':
            clause = 'P:reject-noop'
        self.report(clause, pair, case, 'find(%r): got %s, specification %s %s'
                    % ('/' + '/'.join(segs), {k: ev[k] for k in ('out', 'res', 'tmpl', 'params')},
                       {k: want[k] for k in ('out', 'res', 'tmpl', 'params')}, ev['x']))
        return False


def all_paths(ps, maxlen):
    return [p for n in range(1, maxlen + 1) for p in itertools.product(ps, repeat=n)]


def all_templates(u, maxdepth):
    """every template of <= maxdepth segments in normal form (the router strips leading slashes, so a
    template cannot start with an empty segment unless it is the root template)"""
    n = len(u.ts)
    return [tp for d in range(1, maxdepth + 1) for tp in itertools.product(range(1, n + 1), repeat=d)
            if d == 1 or u.ts[tp[0] - 1]['items']]


def table_key(tps):
    return tuple(tuple(t) for t in tps)


def replay_history(rp, u, tables, hist, paths_final, paths_mid, origin):
    """hist = [(tp, compile flag)]; the decision table says, per state (= accepted templates in order), the
    outcome of every add and the result of every lookup.  Returns False at the first disagreement."""
    ctx = rp.ctx
    pair = Pair(u)
    acc, racc = [], []           # accepted templates / their resource numbers in this history
    case = {'origin': origin, 'history': [[u.template(tp), bool(c)] for tp, c in hist], 'ids': [list(tp) for tp, _ in hist]}
    nontrivial = False
    ok = True
    for i, (tp, c) in enumerate(hist):
        tab = tables[table_key(acc)]
        if not rp.add(pair, tp, i + 1, c, tab['outs'][tuple(tp)] == 'ok', case):
            ok = False
            break
        if tab['outs'][tuple(tp)] == 'ok':
            acc.append(tuple(tp))
            racc.append(i + 1)
        tab = tables.get(table_key(acc))
        if tab is None:           # beyond the tabulated bound
            break
        for segs in (paths_final if i == len(hist) - 1 else paths_mid):
            w = tab['hits'].get(segs)
            want = MISS if w is None else dict(w, res=racc[w['res'] - 1])
            if pair.after_reject or siblings_nontrivial(acc, want['tmpl']):
                nontrivial = True
            if not rp.find(pair, segs, want, case):
                ok = False
                break
        if not ok:
            break
    ctx.case(case, nontrivial=nontrivial, key=digest(case['ids'] + [c for _, c in hist]))
    return ok


def load_tables(rjson):
    tables = {}
    for st in rjson:
        hits = {}
        for hrec in st['hits']:
            segs = tuple(''.join(s) for s in hrec['p'])
            hits[segs] = {'out': 'hit', 'res': hrec['res'], 'tmpl': list(hrec['tmpl']), 'params': hrec['params']}
        tables[table_key(a['t'] for a in st['acc'])] = {
            'outs': {tuple(o['t']): o['out'] for o in st['outs']}, 'hits': hits, 'racc': [a['r'] for a in st['acc']]}
    return tables
