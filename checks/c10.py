"""C10 - URI encode/decode are total, lossless inverses with RFC 3986 output; parse_host splits authorities.

spec:   spec/UriOps.tla (the functions: three-state decode scanner, UTF-8 reading, encoders,
        check-escaped rule, host split), spec/Uri.tla (state machine + the laws as invariants),
        spec/MC_Uri.tla (bounded instances, Emit), spec/UriHosts.tla (hand-picked authorities),
        spec/UriLong.tla (long inputs from chunk readings), spec/UriTrace.tla (trace judge)
legs:   M  exhaustive TLC check of the laws (DecodeTotal, DecodeConcat, EncodeOutputAlphabet,
           EncodeConcat, DecodeEncodeId, CheckEscapedFixpoint, HostSplitLaw) with per-function
           coverage and a wrong-design vacuity run
        A  every <<input, function, output>> TLC computed is replayed on falcon.uri; multi-KB
           inputs are concatenations of enumerated blocks (justified by the *Concat laws)
        B  calls of falcon.uri on seeded random longer strings recorded and judged by UriTrace
        long  (M) DecodeChunkLaw / CheckEscapedConcat / EncodedPiecesAreChunks checked on every sequence of <= 4
           escape tokens, wrong-design run; (A) those cases replayed, escape-dense concatenations of them to
           ~5000 escapes; (B) calls with 1..~5000 escapes at every alignment relative to the powers of two,
           recorded as chunk dictionaries and decided by UriTrace from the chunk readings
"""
META = {
    'property_id': 'C10',
    'design_ref': 'DESIGN.md section 4, C10',
    'technique': 'TLA+ specification of percent-decoding/encoding/host splitting model-checked with TLC; TLC-computed '
                 'cases replayed on falcon.uri; recorded calls judged by TLC',
    'level_text': 'The laws of the property are invariants of spec/Uri.tla checked exhaustively by TLC for all strings up '
                  'to the bound over the 14-symbol alphabet; the outputs TLC computes for every such string are compared '
                  'with falcon.uri (all six functions, both plus flags), long inputs are covered as concatenations of '
                  'enumerated blocks (law DecodeConcat/EncodeConcat), and calls on random longer strings are recomputed '
                  'by TLC (UriTrace). Long, escape-dense inputs are decided from TLC-evaluated short chunks by the '
                  'model-checked laws DecodeChunkLaw (octets concatenate, the text is the UTF-8 reading of the whole: a '
                  'character split between two parts comes out once), EncodeConcat and CheckEscapedConcat.',
    'level_note': 'Bounded: all strings <= 4 (quick: <= 3) exhaustively; random strings <= 160 code points and a few of '
                  '1-4 K judged by TLC; concatenations up to 8 KB. Long dimension: the chunk laws are checked by TLC on '
                  'all sequences of <= 4 tokens over 13 tokens (escapes of the octets of one 2-, one 3-, one 4-octet '
                  'character, a, +, a malformed escape, raw U+00E9; quick: <= 3 tokens plus all 4-token sequences over the '
                  '4-octet character); decode is called with 1 to ~5000 escapes: runs of escaped 2-/3-/4-octet characters '
                  '(4+4+3 representatives, both hex cases) at every alignment relative to 2^3..2^12 counted in %-tokens and '
                  'in output octets and to 2^3..2^13 counted in input characters, plus seeded mixtures with +, escaped '
                  'ASCII, malformed escapes, ill-formed sequences and raw non-ASCII text, both unquote_plus settings '
                  '(quick: one of the two for inputs above 600 escapes); encode/encode_value with up to ~5000 octets to '
                  'escape (and decode of their output), the check-escaped encoders on already-escaped texts of up to 5000 '
                  'escapes, exact and with one offender early/middle/late/at the end. The long cases are split by the '
                  'harness into chunks; TLC verifies that every chunk ends on an escape and character boundary (H:chunk) '
                  'and evaluates the spec on the distinct chunks only - a long input whose defect depends on something '
                  'other than token/octet/character position (e.g. total content hashing) is outside this construction. '
                  'Escape-dense concatenations of enumerated token blocks (which may cut characters) are compared on octet '
                  'level through the trusted CPython codec. Lone surrogates are outside the model (not encodable). '
                  'Trusted: TLC, CPython utf-8 codec (cross-checked against the UTF-8 reading in UriOps). unquote_string '
                  'is not mentioned by the property statement and is not checked. The Cython twin cannot be built here '
                  'and is not checked.',
}

from engine.core import MachineryError, digest

FNS = ('decode', 'encode', 'encode_value', 'encode_check_escaped', 'encode_value_check_escaped')
JUDGE_ENV = {'JAVA_TOOL_OPTIONS': '-Xss512m'}     # deep recursion over long strings
BIG_DEFAULT = 12345678                              # a default port no authority of the model can carry


def txt(cps):
    return ''.join(map(chr, cps))


def cps(s):
    return [ord(c) for c in s]


def call(fn, s, plus=False, default=None):
    """One public call on the real code -> event (the trace judge's record format)."""
    from falcon import uri
    e = {'fn': fn, 's': cps(s), 'plus': bool(plus), 'out': [], 'out2': [], 'port': -1, 'err': False, 'alt': [], 'alt0': [], 'back': [], 'backp': [],
         'exc': ''}
    try:
        if fn == 'decode':
            out = uri.decode(s, unquote_plus=plus)
        elif fn == 'parse_host':
            host, port = uri.parse_host(s) if default is None else uri.parse_host(s, default)
            if port is default or (default is not None and port == default):
                port = -1
            if not isinstance(host, str) or not isinstance(port, int) or isinstance(port, bool):
                raise TypeError('parse_host returned %r' % ((host, port),))
            e['port'] = port
            out = host
            try:        # the same authority with a port spelled: the host must not depend on it (judged by TLC)
                h2 = uri.parse_host(s + ':8042')[0]
                e['alt'] = cps(h2) if isinstance(h2, str) else [-1]
            except Exception:
                e['alt'] = [-1]
            try:        # ... and with an empty port spelled ("host:")
                h0, p0 = uri.parse_host(s + ':') if default is None else uri.parse_host(s + ':', default)
                e['alt0'] = cps(h0) if isinstance(h0, str) and p0 == default else [-1]
            except Exception:
                e['alt0'] = [-1]
        else:
            f = getattr(uri, fn)
            out = f(s)
            if fn.endswith('check_escaped'):
                e['out2'] = cps(f(out))
            else:       # both ends in the code: decoding the encoded text must give the text back
                try:
                    e['back'] = cps(uri.decode(out, unquote_plus=False))
                    e['backp'] = cps(uri.decode(out, unquote_plus=True)) if fn == 'encode_value' else e['back']
                except Exception:
                    e['back'] = e['backp'] = [-1]
        if not isinstance(out, str):
            raise TypeError('%s returned %r' % (fn, type(out)))
        e['out'] = cps(out)
    except Exception as ex:  # the property promises totality
        e['err'] = True
        e['out'], e['out2'], e['port'], e['alt'], e['alt0'], e['back'], e['backp'] = [], [], -1, [], [], [], []
        e['exc'] = repr(ex)[:200]
    return e


def nontrivial(s):
    return '%' in s or any(ord(c) > 127 for c in s)


def judge_events(ctx, events, per=20):
    """Let TLC (UriTrace) name the clause for each event.  Returns a list of verdict clauses."""
    evs = [{k: v for k, v in e.items() if k != 'exc'} for e in events]
    traces = [{'ev': evs[i:i + per]} for i in range(0, len(evs), per)]
    verdicts = ctx.judge('UriTrace', traces, env=JUDGE_ENV, workers=8, timeout=1500, chunk=2500)
    return traces, verdicts


def report(ctx, clause, e, origin):
    case = {'event': {k: v for k, v in e.items() if k != 'exc'}, 'origin': origin,
            'input': txt(e['s']).encode('unicode_escape').decode()}
    what = '%s(%r%s) -> %r %s' % (e['fn'], txt(e['s'])[:60], ', plus' if e['plus'] else '',
                                  txt(e['out'])[:80] if not e['err'] else 'raised', e.get('exc', ''))
    if clause.startswith('D:'):
        ctx.detail(clause, case, what)
    elif clause.startswith('H:'):
        raise MachineryError('UriTrace rejected the harness input: %s %s' % (clause, what))
    else:
        ctx.violation(clause, case, what)


def bisect_verdicts(ctx, traces, verdicts, origin):
    """A trace carries several events; the verdict names the first failing one.  Re-judge the rest so
    that every failing event is attributed."""
    todo = []
    for t, v in zip(traces, verdicts):
        if v == 'ok':
            continue
        clause, idx = v.rsplit('@', 1)
        idx = int(idx)
        report(ctx, clause, t['ev'][idx - 1], origin)
        todo += t['ev'][idx:]
    if todo and len(ctx.violations) < 40:
        tr = [{'ev': [e]} for e in todo[:400]]
        vs = ctx.judge('UriTrace', tr, env=JUDGE_ENV, workers=8, timeout=900)
        for t, v in zip(tr, vs):
            if v != 'ok':
                report(ctx, v.rsplit('@', 1)[0], t['ev'][0], origin)


# ---- long, escape-dense inputs (spec/UriLong.tla) -------------------------------------------------------
# A long input is built from PIECES (short strings).  The harness only strings them together and calls the
# code; the judge (UriTrace!JudgeDecodeLong / JudgeEncodeLong) evaluates the spec on the distinct pieces, checks
# that the pieces may be put together (whole escapes, whole characters: H:chunk otherwise) and decides the call
# by the laws DecodeChunkLaw / EncodeConcat / CheckEscapedConcat that TLC model-checked.
def esc(ch, lower=False):
    return ''.join(('%%%02x' if lower else '%%%02X') % b for b in ch.encode('utf-8'))


CHARS = {2: '\xe9\xff\xdf\x80', 3: '\u20ac\uff14\uffff\u0800', 4: '\U0001f600\U00010000\U0010ffff'}
ESC_ASCII = ('%41', '%2B', '%20', '%25', '%00', '%7e', '%2f', '%0A', '%7F')      # one token each, one octet each
RAW_ASCII = ('a', 'Z', '0', '/', '~', ' ', '+', '=', '&', '+')
MALFORMED = ('%G1', '%4G', '%%41', '%zz', '%+1', '% 41', '%u0041', '%\xe9', '%-5', '%%+', '%４1', '%4+')
ILLFORMED = ('%E2%82a', '%F0%9F+', '%C3/', '%FF', '%C0%80', '%ED%A0%80', '%80', '%E2%82%41', '%F4%90%80%80',
             '%E0%80%80', '%C3\xe9', '%f0%9f%98+', '%E2%E2%82%AC', '%F0%9F%98%F0%9F%98%80')
RAW_WIDE = ('\xe9', '€', '\U0001f600', '４')


def spell(pieces):
    """pieces -> (dictionary of distinct pieces as code points, 1-based index sequence)"""
    idx, dic, seq = {}, [], []
    for pc in pieces:
        k = idx.get(pc)
        if k is None:
            k = idx[pc] = len(dic) + 1
            dic.append(cps(pc))
        seq.append(k)
    return dic, seq


def call_long(kind, pieces, plus=False, f=''):
    """One public call on a long input -> event of the judge's long formats."""
    from falcon import uri
    dic, seq = spell(pieces)
    s = ''.join(pieces)
    e = {'fn': kind, 'f': f, 'plus': bool(plus), 'dict': dic, 'seq': seq, 'out': [], 'out2': [], 'back': [], 'backp': [],
         'err': False, 'exc': ''}
    try:
        if kind == 'decode_long':
            out = uri.decode(s, unquote_plus=plus)
        else:
            fun = getattr(uri, f)
            out = fun(s)
            if f.endswith('check_escaped'):
                e['out2'] = cps(fun(out))
            else:
                try:
                    e['back'] = cps(uri.decode(out, unquote_plus=False))
                    e['backp'] = cps(uri.decode(out, unquote_plus=True)) if f == 'encode_value' else e['back']
                except Exception:
                    e['back'] = e['backp'] = [-1]
        if not isinstance(out, str):
            raise TypeError('%s returned %r' % (f or kind, type(out)))
        e['out'] = cps(out)
    except Exception as ex:  # the property promises totality
        e['err'] = True
        e['out'], e['out2'], e['back'], e['backp'] = [], [], [], []
        e['exc'] = repr(ex)[:200]
    return e, s


def decode_long_inputs(ctx, rng):
    """-> list of (label, pieces).  Runs of escaped 2-, 3- and 4-octet characters at every alignment relative to
    the powers of two 8..4096 counted in '%'-tokens (prefix of 0..k escaped-ASCII tokens), in output octets (raw
    ASCII prefix) and 8..8192 counted in input characters (raw prefix 0..3k-1); then seeded mixtures with 1 to
    ~5000 escapes."""
    out = []
    n = 0
    tails = (RAW_ASCII, MALFORMED, ILLFORMED, RAW_WIDE, ESC_ASCII)

    def tail():
        return [rng.choice(rng.choice(tails)) for _ in range(rng.randint(0, 3))]

    def run_of(k, count, i):
        ch = CHARS[k][i % len(CHARS[k])]
        return [esc(ch, lower=(i % 5 == 3))] * count

    for j in range(3, 13):
        B = 1 << j
        for k in (2, 3, 4):
            for p in range(k + 1):               # token alignment: the run starts at token p + 1
                n += 1
                pre = [rng.choice(ESC_ASCII) for _ in range(p)]
                out.append(('tok%d/k%d/p%d' % (B, k, p), pre + run_of(k, (B - p) // k + 2, n) + tail()))
            for q in range(k):                   # output-octet alignment with a raw first token
                n += 1
                pre = [rng.choice(RAW_ASCII) for _ in range(q + 1)]
                out.append(('oct%d/k%d/q%d' % (B, k, q + 1), pre + run_of(k, (B - q - 1) // k + 2, n) + tail()))
    for j in range(3, 14):
        B = 1 << j
        for k in (2, 3, 4):
            for q in range(3 * k):               # alignment counted in input characters
                n += 1
                pre = [rng.choice(RAW_ASCII) for _ in range(q)]
                out.append(('chr%d/k%d/q%d' % (B, k, q), pre + run_of(k, (B - q) // (3 * k) + 2, n) + tail()))
    # mixtures: escaped characters of all widths and both hex cases with '+', escaped ASCII, malformed escapes,
    # ill-formed sequences and raw non-ASCII text in between
    targets = list(range(1, 10)) + [15, 16, 17, 31, 33, 63, 64, 65, 127, 129, 255, 257, 511, 513, 1023, 1025,
                                    2047, 2049, 4095, 4097, 5000]
    for rep in range(ctx.pick(1, 4)):
        for tg in targets:
            pcs, ne = [], 0
            dense = rng.random() < 0.5
            while ne < tg:
                t = rng.random()
                if t < (0.8 if dense else 0.45):
                    k = rng.choice((2, 3, 4))
                    pc = esc(rng.choice(CHARS[k]), lower=rng.random() < 0.3)
                elif t < 0.85:
                    pc = rng.choice(ESC_ASCII)
                elif t < 0.9:
                    pc = rng.choice(MALFORMED)
                elif t < 0.94:
                    pc = rng.choice(ILLFORMED)
                elif t < 0.97:
                    pc = rng.choice(RAW_WIDE)
                else:
                    pc = rng.choice(RAW_ASCII)
                pcs.append(pc)
                ne += pc.count('%')
            if rng.random() < 0.3:               # the input may end inside a character or inside an escape
                pcs.append(rng.choice(('%E2%82', '%F0', '%C3', '%', '%4', '%F0%9F%98')))
            out.append(('mix%d' % tg, pcs))
    return out


def encode_long_inputs(ctx, rng):
    """-> list of (label, encoder name, pieces): long texts with many characters that need escapes for the plain
    encoders (and decode(encode(x)) = x through them); long already-escaped texts, exact and with one offender
    early / in the middle / late / at the very end, for the check-escaped encoders."""
    out = []
    need = ('\xe9', '€', '\U0001f600', ' ', '"', '%', '<', '\x00', '\n', '４', '\U0010ffff', '\x7f', '\x80')
    keep = ('a', '~', '-', 'Z9', '_.')
    resv = ('/', '+', '?', '&=', ':')
    sizes = (1, 7, 8, 9, 64, 1023, 1025, 4097, 5000)          # octets that need an escape
    for f in ('encode', 'encode_value'):
        for i, nesc in enumerate(sizes):
            for mix in range(ctx.pick(2, 4)):
                pcs, ne = [], 0
                while ne < nesc:
                    t = rng.random()
                    pc = rng.choice(need) if t < (0.95 if mix == 0 else 0.6) else \
                        rng.choice(keep) if t < 0.85 else rng.choice(resv)
                    pcs.append(pc)
                    ne += len(pc.encode('utf-8')) if pc in need else 0
                out.append(('plain%d' % nesc, f, pcs))
    offenders = (' ', '\xe9', '%zz', '%', '%4', '"', '%%41', '%G1')
    for f in ('encode_check_escaped', 'encode_value_check_escaped'):
        ok_extra = resv if f == 'encode_check_escaped' else ()
        for ntok in (1, 8, 100, 1025, 4097, 5000):
            pcs, ne = [], 0
            while ne < ntok:
                t = rng.random()
                pc = esc(rng.choice(CHARS[rng.choice((2, 3, 4))]), lower=rng.random() < 0.3) if t < 0.7 else \
                    rng.choice(ESC_ASCII) if t < 0.85 else rng.choice(keep + ok_extra)
                pcs.append(pc)
                ne += pc.count('%')
            out.append(('escaped%d' % ntok, f, pcs))
            other = 'encode_value_check_escaped' if f == 'encode_check_escaped' else 'encode_check_escaped'
            if ntok in (8, 1025):                                  # the same text through the other encoder
                out.append(('escaped%d' % ntok, other, pcs + ['/']))
            for off in rng.sample(offenders, ctx.pick(3, 6)):
                where = rng.choice(('early', 'mid', 'late', 'end'))
                if off in ('%', '%4') or where == 'end':           # these cut an escape: only as the last piece
                    q = pcs + [off]
                else:
                    at = {'early': min(2, len(pcs)), 'mid': len(pcs) // 2, 'late': max(0, len(pcs) - 2)}[where]
                    q = pcs[:at] + [off] + pcs[at:]
                out.append(('near%d/%s' % (ntok, where), f, q))
    return out


def report_long(ctx, clause, e, label, s):
    case = {'event': {k: v for k, v in e.items() if k != 'exc'}, 'origin': 'long leg (%s)' % label}
    what = '%s on a %d-character input (%d pieces, %d "%%") -> %s %s [%s]' % (
        e['f'] or 'decode', len(s), len(e['seq']), s.count('%'),
        'raised' if e['err'] else '%d characters' % len(e['out']), e.get('exc', ''), label)
    if clause.startswith('D:'):
        ctx.detail(clause, case, what)
    elif clause.startswith('H:'):
        raise MachineryError('UriTrace rejected the harness input: %s %s' % (clause, what))
    else:
        ctx.violation(clause, case, what)


def run(ctx):
    ctx.rule = ('case = (function, input string[, plus flag]); non-trivial iff the string contains "%" or a non-ASCII '
                'code point; distinct by (function, flag, string)')
    ctx.trusted_base = ['TLC evaluation of spec/UriOps.tla', "CPython bytes.decode('utf-8', 'replace')"]
    ctx.assumptions = ['strings are sequences of Unicode scalar values (no lone surrogates)',
                       'valid authority = reg-name/IPv4 or bracketed IP literal, optionally ":" and 1..6 digits '
                       '(an empty port, "host:", is valid too and carries no port number: the default is returned)',
                       'Cython twin falcon/cyutil/uri.pyx: stale-or-absent, not checked (Cython unavailable)']
    rng = ctx.rng

    # ---- legs M + A (one exhaustive run per instance: laws as invariants, cases via Emit) ----------
    r = ctx.tlc('MC_Uri', ctx.pick('MC_UriQ.cfg', 'MC_Uri.cfg'), coverage=True, workers=6, timeout=900)
    ctx.require_coverage(r, ['XDecode', 'XEncode', 'XEncodeValue', 'XEncodeCE', 'XEncodeValueCE'])
    ctx.progress('leg M: alphabet instance done')
    rh = ctx.tlc('MC_Uri', ctx.pick('MC_UriHostQ.cfg', 'MC_UriHost.cfg'), coverage=True, workers=6, timeout=600)
    ctx.require_coverage(rh, ['XParseHost'])
    rc = ctx.tlc('MC_Uri', 'MC_UriCtl.cfg', coverage=True, workers=6, timeout=600)      # LF / CR / TAB in every position
    ctx.require_coverage(rc, ['XDecode', 'XEncode', 'XEncodeValue', 'XEncodeCE', 'XEncodeValueCE'])
    ctx.progress('leg M: host and control-character instances done')
    bad = ctx.tlc('MC_Uri', 'MC_UriBad.cfg', must_hold=False, count=False, workers=2, timeout=120)
    if bad.violated != 'EncodeOutputAlphabet':
        raise MachineryError('vacuity: the lower-case-escape design was not rejected (%r)' % (bad.violated,))
    # escape-dense inputs: every sequence of <= 4 tokens (escapes of the octets of a 2-, a 3- and a 4-octet character,
    # 'a', '+', a malformed escape, raw non-ASCII); carries the laws that decide long inputs from short pieces
    rt = ctx.tlc('MC_Uri', ctx.pick('MC_UriTokQ.cfg', 'MC_UriTok.cfg'), coverage=True, workers=6, timeout=ctx.pick(600, 1800))
    ctx.require_coverage(rt, ctx.pick(['XDecode', 'XEncodeValueCE'], ['XDecode', 'XEncodeValue', 'XEncodeValueCE']))
    ctx.progress('leg M: token instance done')
    badtok = ctx.tlc('MC_Uri', 'MC_UriTokBad.cfg', must_hold=False, count=False, workers=2, timeout=120)
    if badtok.violated != 'DecodeChunkLaw':
        raise MachineryError('vacuity: piece-wise decoding at any escape-safe split was not rejected (%r)' % (badtok.violated,))
    if len(rt.json) < rt.distinct * 2 // 3:
        raise MachineryError('Emit produced %d cases for %d states (token instance)' % (len(rt.json), rt.distinct))
    ctx.exhaustive = True
    ctx.progress('leg M done: %d + %d + %d states, %d + %d + %d cases exported'
                 % (r.distinct, rh.distinct, rt.distinct, len(r.json), len(rh.json), len(rt.json)))
    ctx.extra['token_instance_states'] = rt.distinct
    ntok0 = len(r.json) + len(rc.json)
    cases = r.json + rc.json + rt.json + rh.json
    if len(rc.json) < rc.distinct * 6 // 7:
        raise MachineryError('Emit produced %d cases for %d states (control characters)' % (len(rc.json), rc.distinct))
    if len(r.json) < r.distinct * 6 // 7 or not rh.json:
        raise MachineryError('Emit produced %d cases for %d states' % (len(r.json), r.distinct))

    suspects = []          # events where code and spec differ; TLC names the clause
    blocks = {True: [], False: []}      # closed decode blocks per plus flag: (s, bytes)
    lowblocks = {True: [], False: []}
    encblocks = {'encode': [], 'encode_value': []}
    ctlblocks = {'encode': [], 'encode_value': []}      # enumerated blocks ending in a control character
    tokblocks = {True: [], False: []}                   # closed blocks of the token instance (escape-dense)
    for ci, c in enumerate(cases):
        s = txt(c['s'])
        fn = c['fn']
        want = txt(c['out'])
        if fn == 'decode':
            viacodec = bytes(c['bytes']).decode('utf-8', 'replace')
            if viacodec != want:
                raise MachineryError('UriOps!U8Read disagrees with the CPython codec on %r: %r vs %r'
                                     % (c['bytes'], want, viacodec))
            if c['closed'] and s:
                blocks[c['plus']].append((s, bytes(c['bytes'])))
                if ntok0 <= ci < ntok0 + len(rt.json) and '%' in s:
                    tokblocks[c['plus']].append((s, bytes(c['bytes'])))
                if '%0' in s or '%10' in s:
                    lowblocks[c['plus']].append((s, bytes(c['bytes'])))
        elif fn in encblocks and s:
            encblocks[fn].append((s, want))
            if s[-1] in '\n\r\t':
                ctlblocks[fn].append((s, want))
        defaults = (None, BIG_DEFAULT) if fn == 'parse_host' else (None,)
        for d in defaults:
            e = call(fn, s, c['plus'], d)
            ctx.case({'fn': fn, 's': c['s'], 'plus': c['plus']}, nontrivial=nontrivial(s), key=(fn, c['plus'], s, d))
            ok = not e['err'] and e['out'] == c['out'] and e['port'] == c['port']
            if ok and fn.endswith('check_escaped'):
                ok = e['out2'] == e['out']
            if ok and fn in ('encode', 'encode_value'):
                ok = e['back'] == c['s'] and e['backp'] == c['s']
            if ok and fn == 'parse_host' and c['valid'] and not c['colon']:
                ok = e['alt'] == e['out'] and e['alt0'] == e['out']
            if not ok:
                suspects.append(e)
    ctx.traces_validated += len(cases)
    ctx.progress('leg A: %d cases replayed, %d differ' % (len(cases), len(suspects)))

    # ---- leg A2: long inputs as concatenations of enumerated blocks -----------------------------
    from falcon import uri
    nlong = ctx.pick(300, 4000)
    longbad = 0
    for i in range(nlong):
        plus = bool(i & 1)
        target = rng.choice((40, 200, 1000, 8192)) if i % 4 else rng.choice((12, 20, 30))
        parts, n = [], 0
        pool = blocks[plus]
        if i % 3 == 2:      # escape-dense: blocks of the token instance only (they end inside characters as well:
            #                 the OCTETS concatenate, the text is the reading of the whole), up to ~5000 escapes
            pool = tokblocks[plus]
            target = rng.choice((24, 100, 3100, 6200, 12300, 15000))
        lowpool = lowblocks[plus]         # blocks with an escape of one of the lowest octets (%00, %01, %0a, %10)
        while n < target:
            b = rng.choice(pool) if pool is tokblocks[plus] else \
                rng.choice(lowpool) if lowpool and rng.random() < 0.15 else \
                pool[rng.randrange(len(pool))] if rng.random() < 0.5 else \
                rng.choice(pool[:3000])       # short blocks (many escapes per KB)
            parts.append(b)
            n += len(b[0])
        s = ''.join(p[0] for p in parts)
        want = b''.join(p[1] for p in parts).decode('utf-8', 'replace')
        ctx.case({'fn': 'decode', 'len': len(s), 'plus': plus, 'head': s[:40]}, nontrivial=nontrivial(s),
                 key=('decode', plus, s))
        try:
            got = uri.decode(s, unquote_plus=plus)
        except Exception as ex:
            got = ex
        if got != want:
            longbad += 1
            e = call('decode', s, plus)
            if len(s) <= 3000:
                suspects.append(e)
            else:
                k = next((j for j in range(min(len(want), len(got) if isinstance(got, str) else 0))
                          if want[j] != got[j]), -1)
                ctx.violation('P:decode', {'event': {k_: v for k_, v in e.items() if k_ != 'exc'},
                                           'origin': 'concatenation of %d enumerated blocks' % len(parts)},
                              'decode of a %d-character concatenation differs from the concatenated block readings '
                              'at output offset %d %s' % (len(s), k, e['exc']))
        # encoders on concatenations (EncodeConcat)
        if i % 4 == 0:
            fn = ('encode', 'encode_value')[(i >> 2) & 1]
            ps = [rng.choice(encblocks[fn]) for _ in range(rng.choice((3, 10, 60, 600)))]
            if ctlblocks[fn] and rng.random() < 0.6:          # ... ending in one LF, CR LF, LF LF, TAB
                ps.append(rng.choice(ctlblocks[fn]))
            s = ''.join(p[0] for p in ps)
            want = ''.join(p[1] for p in ps)
            ctx.case({'fn': fn, 'len': len(s), 'head': s[:40]}, nontrivial=nontrivial(s), key=(fn, False, s))
            e = call(fn, s)
            if e['err'] or txt(e['out']) != want:
                if len(s) <= 3000:
                    suspects.append(e)
                else:
                    ctx.violation('P:encode_concat', {'event': {k_: v for k_, v in e.items() if k_ != 'exc'}},
                                  '%s of a %d-character concatenation differs from the concatenated block encodings'
                                  % (fn, len(s)))
    ctx.traces_validated += nlong + nlong // 4
    ctx.extra['long_concatenations'] = nlong
    ctx.progress('leg A2: %d long concatenations, %d differ' % (nlong, longbad))

    if suspects:
        uniq = list({digest(e): e for e in suspects}.values())
        traces, verdicts = judge_events(ctx, uniq[:600], per=1)
        named = 0
        for t, v in zip(traces, verdicts):
            if v == 'ok':
                raise MachineryError('replay and judge disagree on %r' % (t,))
            named += 1
            report(ctx, v.rsplit('@', 1)[0], t['ev'][0], 'leg A (TLC-computed case)')

    # ---- leg B: random longer strings, recorded and judged ----------------------------------------
    nrand = ctx.pick(700, 14000)
    HEX = '0123456789ABCDEFabcdef'
    base = [chr(x) for x in (37, 43, 52, 67, 69, 97, 71, 47, 126, 32, 0, 233, 65300, 128512)]
    wide = base + list('%%%%++ &=,;:@?#[]!$\'()*-._xyzXYZ09bdfBDF\t\n"<>\\^`{|}') + \
        [chr(x) for x in (127, 128, 255, 256, 2047, 2048, 8364, 65533, 65535, 65536, 1114111)]

    def rand_string():
        k = rng.random()
        n = rng.choice((3, 6, 9, 14, 20, 33, 64, 100, 160))
        if k < 0.3:                      # soup over the wide alphabet
            return ''.join(rng.choice(wide) for _ in range(rng.randint(1, n)))
        if k < 0.6:                      # text with many escapes, some malformed, valid and broken UTF-8 runs
            out = []
            for _ in range(rng.randint(1, max(1, n // 3))):
                t = rng.random()
                if t < 0.35:
                    ch = rng.choice(('é', '€', '😀', 'ÿ', '\x80', 'A', ' ', '+', '/'))
                    bs = ch.encode('utf-8')
                    if rng.random() < 0.3:
                        bs = bs[:rng.randint(1, len(bs))]           # truncated sequence
                    out.append(''.join('%%%s' % (('%02X' if rng.random() < 0.7 else '%02x') % b) for b in bs))
                elif t < 0.5:
                    out.append('%' + rng.choice(HEX) + rng.choice(HEX))
                elif t < 0.55:          # the lowest and the highest octets
                    out.append(rng.choice(('%00', '%00', '%01', '%0A', '%0a', '%10', '%7F', '%7f', '%80', '%FF', '%ff', '\x00')))
                elif t < 0.7:
                    out.append(rng.choice(('%', '%%', '%G1', '%1G', '%4', '%+1', '% 41', '%４1', '%u0041', '%é')))
                else:
                    out.append(rng.choice(wide))
            return ''.join(out)
        if k < 0.8:                      # already escaped URIs and near misses (check-escaped encoders)
            out = []
            for _ in range(rng.randint(1, max(1, n // 3))):
                t = rng.random()
                if t < 0.5:
                    out.append(rng.choice('abcXYZ019-._~/?:@&=+$,;'))
                elif t < 0.9:
                    out.append('%' + rng.choice(HEX) + rng.choice(HEX))
                else:
                    out.append(rng.choice((' ', '%', 'é', '%2', '"', '%zz')))
            return ''.join(out)
        return ''.join(rng.choice(base) for _ in range(rng.randint(2, max(2, n))))       # the model's alphabet, longer

    endings = ('\n', '\r\n', '\n\n', '\r', '\t', '\n\r', '%0A\n', ' \n')

    events = {}
    for i in range(nrand):
        s = rand_string()
        if i % 4 == 0:                   # ... ending in exactly one LF, in CR LF, in LF LF, ...
            s = s.rstrip('\n\r\t') + endings[(i // 4) % len(endings)]
        for fn in FNS:
            for plus in ((False, True) if fn == 'decode' else (False,)):
                key = (fn, plus, s)
                if key in events:
                    continue
                events[key] = call(fn, s, plus)
                ctx.case({'fn': fn, 's': cps(s)[:60], 'plus': plus, 'origin': 'random'}, nontrivial=nontrivial(s), key=key)
    # a few multi-KB strings, judged directly
    for i in range(ctx.pick(3, 12)):
        n = ctx.pick(1000, (1000, 2000, 4000)[i % 3])
        s = ''.join(rand_string() for _ in range(n // 20))[:n]
        for fn, plus in (('decode', True), ('decode', False), ('encode', False), ('encode_value_check_escaped', False)):
            events[(fn, plus, s)] = call(fn, s, plus)
            ctx.case({'fn': fn, 'len': len(s), 'plus': plus, 'origin': 'random-long'}, nontrivial=nontrivial(s),
                     key=(fn, plus, s))
    # authorities beyond the enumerated ones: random hosts x ports
    hosts = ['example.com', 'a.b.c', '', 'localhost', '127.0.0.1', '[::1]', '[::]', '[1::]', '[a::1]', '[1:a::]',
             '[2001:db8:85a3:8d3:1319:8a2e:370:7348]', '[::ffff:192.0.2.128]', '[v1.fe80::a+en1]', '[v1.fe80]',
             '[vF.host-1~x]', '[v1.a]', '[V7.x:y;z=1]', '[vAB.~]', 'xn--bcher-kva.example',
             "sub!$&'()*+,;=x", '%E4%BD%A0.example', 'a-b_c~d.e', '[1:2:3:4:5:6:7:8]', '[fe80::1%25en0]']
    for h in hosts:
        for p in ['', None, '0', '1', '80', '443', '8080', '65535', '00080', '999999'] + \
                 [str(rng.randrange(100000)) for _ in range(ctx.pick(3, 30))]:
            s = h + ':' if p is None else h + (':' + p if p else '')
            for d in (None, BIG_DEFAULT):
                events[('parse_host', d, s)] = call('parse_host', s, False, d)
                ctx.case({'fn': 'parse_host', 's': s}, nontrivial=True, key=('parse_host', d, s))
    evs = list(events.values())
    ctx.progress('leg B: %d calls recorded' % len(evs))

    # ---- leg B-long: 1 .. ~5000 escapes, every alignment relative to the powers of two; judged from chunk readings ----
    longs = []           # (event, label, input)
    nesc = 0
    for n_, (label, pcs) in enumerate(decode_long_inputs(ctx, rng)):
        big = sum(pc.count('%') for pc in pcs) > 600
        for plus in ((bool(n_ & 1),) if big and ctx.quick else (False, True)):
            e, s = call_long('decode_long', pcs, plus)
            longs.append((e, label, s))
            nesc = max(nesc, s.count('%'))
            ctx.case({'fn': 'decode', 'len': len(s), 'plus': plus, 'origin': 'long:' + label}, nontrivial=nontrivial(s),
                     key=('decode', plus, s))
    ndec = len(longs)
    for label, f, pcs in encode_long_inputs(ctx, rng):
        e, s = call_long('encode_long', pcs, False, f)
        longs.append((e, label, s))
        ctx.case({'fn': f, 'len': len(s), 'origin': 'long:' + label}, nontrivial=nontrivial(s), key=(f, False, s))
    ctx.progress('leg B-long: %d decode + %d encoder calls on long inputs recorded (up to %d escapes)'
                 % (ndec, len(longs) - ndec, nesc))
    ctx.extra['long_calls_judged'] = len(longs)
    ctx.extra['long_max_escapes'] = nesc

    evs_ = [{k: v for k, v in e.items() if k != 'exc'} for e in evs]
    traces = [{'ev': evs_[i:i + 25]} for i in range(0, len(evs_), 25)]
    nshort = len(traces)
    traces += [{'ev': [{k: v for k, v in e.items() if k != 'exc'}]} for e, _, _ in longs]
    verdicts = ctx.judge('UriTrace', traces, env=JUDGE_ENV, workers=8, timeout=1500, chunk=2500)
    bisect_verdicts(ctx, traces[:nshort], verdicts[:nshort], 'leg B (recorded call)')
    for (e, label, s), v in zip(longs, verdicts[nshort:]):
        if v != 'ok' and len(ctx.violations) < 40:
            report_long(ctx, v.rsplit('@', 1)[0], e, label, s)
    ctx.extra['recorded_calls_judged'] = len(evs)
    ctx.extra['cython_twin'] = 'stale-or-absent, not checked'


def replay(ctx, case):
    e0 = case['event']
    if e0['fn'].endswith('_long'):
        pcs = [txt(e0['dict'][k - 1]) for k in e0['seq']]
        e, s = call_long(e0['fn'], pcs, e0['plus'], e0['f'])
        print('call :', e0['f'] or 'decode', '%d characters, %d pieces' % (len(s), len(pcs)), 'plus' if e0['plus'] else '')
        print('got  :', '%d characters' % len(e['out']), e['exc'])
        vs = ctx.judge('UriTrace', [{'ev': [{k: v for k, v in e.items() if k != 'exc'}]}], env=JUDGE_ENV, workers=2, timeout=600)
        print('verdict:', vs[0])
        if vs[0] != 'ok':
            report_long(ctx, vs[0].rsplit('@', 1)[0], e, 'replay', s)
        return
    s = txt(e0['s'])
    e = call(e0['fn'], s, e0['plus'], None)
    print('call :', e0['fn'], repr(s), 'plus' if e0['plus'] else '')
    print('got  :', repr(txt(e['out'])), e['port'], e['exc'])
    traces, verdicts = judge_events(ctx, [e], per=1)
    print('verdict:', verdicts[0])
    if verdicts[0] != 'ok':
        report(ctx, verdicts[0].rsplit('@', 1)[0], e, 'replay')
