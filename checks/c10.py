"""C10 - URI encode/decode are total, lossless inverses with RFC 3986 output; parse_host splits authorities.

spec:   spec/UriOps.tla (the functions: three-state decode scanner, UTF-8 reading, encoders,
        check-escaped rule, host split), spec/Uri.tla (state machine + the laws as invariants),
        spec/MC_Uri.tla (bounded instances, Emit), spec/UriHosts.tla (hand-picked authorities),
        spec/UriTrace.tla (trace judge)
legs:   M  exhaustive TLC check of the laws (DecodeTotal, DecodeConcat, EncodeOutputAlphabet,
           EncodeConcat, DecodeEncodeId, CheckEscapedFixpoint, HostSplitLaw) with per-function
           coverage and a wrong-design vacuity run
        A  every <<input, function, output>> TLC computed is replayed on falcon.uri; multi-KB
           inputs are concatenations of enumerated blocks (justified by the *Concat laws)
        B  calls of falcon.uri on seeded random longer strings recorded and judged by UriTrace
"""
META = {
    'property_id': 'C10',
    'design_ref': 'DESIGN.md section 4, C10',
    'technique': 'TLA+ specification of percent-decoding/encoding/host splitting model-checked with TLC; TLC-computed '
                 'cases replayed on falcon.uri; recorded calls judged by TLC',
    'level_text': 'The laws of the property are invariants of spec/Uri.tla checked exhaustively by TLC for all strings up '
                  'to the bound over the 14-symbol alphabet; the outputs TLC computes for every such string are compared '
                  'with falcon.uri (all six functions, both plus flags), long inputs are covered as concatenations of '
                  'enumerated blocks (law DecodeConcat/EncodeConcat), and calls on random longer strings are recomputed '
                  'by TLC (UriTrace).',
    'level_note': 'Bounded: all strings <= 4 (quick: <= 3) exhaustively; random strings <= 160 code points and a few of '
                  '1-4 K judged by TLC; concatenations up to 8 KB. Lone surrogates are outside the model (not encodable). '
                  'Trusted: TLC, CPython utf-8 codec (cross-checked against the UTF-8 reading in UriOps). unquote_string '
                  'is not mentioned by the property statement and is not checked. The Cython twin cannot be built here '
                  'and is not checked.',
}

from engine.core import MachineryError, digest

FNS = ('decode', 'encode', 'encode_value', 'encode_check_escaped', 'encode_value_check_escaped')
JUDGE_ENV = {'JAVA_TOOL_OPTIONS': '-Xss512m'}     # deep recursion over long strings
BIG_DEFAULT = 12345678                              # a default port no authority of the model can carry


def txt(cps):
    return ''.join(map(chr, cps))


def cps(s):
    return [ord(c) for c in s]


def call(fn, s, plus=False, default=None):
    """One public call on the real code -> event (the trace judge's record format)."""
    from falcon import uri
    e = {'fn': fn, 's': cps(s), 'plus': bool(plus), 'out': [], 'out2': [], 'port': -1, 'err': False, 'alt': [], 'alt0': [], 'back': [], 'backp': [],
         'exc': ''}
    try:
        if fn == 'decode':
            out = uri.decode(s, unquote_plus=plus)
        elif fn == 'parse_host':
            host, port = uri.parse_host(s) if default is None else uri.parse_host(s, default)
            if port is default or (default is not None and port == default):
                port = -1
            if not isinstance(host, str) or not isinstance(port, int) or isinstance(port, bool):
                raise TypeError('parse_host returned %r' % ((host, port),))
            e['port'] = port
            out = host
            try:        # the same authority with a port spelled: the host must not depend on it (judged by TLC)
                h2 = uri.parse_host(s + ':8042')[0]
                e['alt'] = cps(h2) if isinstance(h2, str) else [-1]
            except Exception:
                e['alt'] = [-1]
            try:        # ... and with an empty port spelled ("host:")
                h0, p0 = uri.parse_host(s + ':') if default is None else uri.parse_host(s + ':', default)
                e['alt0'] = cps(h0) if isinstance(h0, str) and p0 == default else [-1]
            except Exception:
                e['alt0'] = [-1]
        else:
            f = getattr(uri, fn)
            out = f(s)
            if fn.endswith('check_escaped'):
                e['out2'] = cps(f(out))
            else:       # both ends in the code: decoding the encoded text must give the text back
                try:
                    e['back'] = cps(uri.decode(out, unquote_plus=False))
                    e['backp'] = cps(uri.decode(out, unquote_plus=True)) if fn == 'encode_value' else e['back']
                except Exception:
                    e['back'] = e['backp'] = [-1]
        if not isinstance(out, str):
            raise TypeError('%s returned %r' % (fn, type(out)))
        e['out'] = cps(out)
    except Exception as ex:  # the property promises totality
        e['err'] = True
        e['out'], e['out2'], e['port'], e['alt'], e['alt0'], e['back'], e['backp'] = [], [], -1, [], [], [], []
        e['exc'] = repr(ex)[:200]
    return e


def nontrivial(s):
    return '%' in s or any(ord(c) > 127 for c in s)


def judge_events(ctx, events, per=20):
    """Let TLC (UriTrace) name the clause for each event.  Returns a list of verdict clauses."""
    evs = [{k: v for k, v in e.items() if k != 'exc'} for e in events]
    traces = [{'ev': evs[i:i + per]} for i in range(0, len(evs), per)]
    verdicts = ctx.judge('UriTrace', traces, env=JUDGE_ENV, workers=8, timeout=1500, chunk=2500)
    return traces, verdicts


def report(ctx, clause, e, origin):
    case = {'event': {k: v for k, v in e.items() if k != 'exc'}, 'origin': origin,
            'input': txt(e['s']).encode('unicode_escape').decode()}
    what = '%s(%r%s) -> %r %s' % (e['fn'], txt(e['s'])[:60], ', plus' if e['plus'] else '',
                                  txt(e['out'])[:80] if not e['err'] else 'raised', e.get('exc', ''))
    if clause.startswith('D:'):
        ctx.detail(clause, case, what)
    elif clause.startswith('H:'):
        raise MachineryError('UriTrace rejected the harness input: %s %s' % (clause, what))
    else:
        ctx.violation(clause, case, what)


def bisect_verdicts(ctx, traces, verdicts, origin):
    """A trace carries several events; the verdict names the first failing one.  Re-judge the rest so
    that every failing event is attributed."""
    todo = []
    for t, v in zip(traces, verdicts):
        if v == 'ok':
            continue
        clause, idx = v.rsplit('@', 1)
        idx = int(idx)
        report(ctx, clause, t['ev'][idx - 1], origin)
        todo += t['ev'][idx:]
    if todo and len(ctx.violations) < 40:
        tr = [{'ev': [e]} for e in todo[:400]]
        vs = ctx.judge('UriTrace', tr, env=JUDGE_ENV, workers=8, timeout=900)
        for t, v in zip(tr, vs):
            if v != 'ok':
                report(ctx, v.rsplit('@', 1)[0], t['ev'][0], origin)


def run(ctx):
    ctx.rule = ('case = (function, input string[, plus flag]); non-trivial iff the string contains "%" or a non-ASCII '
                'code point; distinct by (function, flag, string)')
    ctx.trusted_base = ['TLC evaluation of spec/UriOps.tla', "CPython bytes.decode('utf-8', 'replace')"]
    ctx.assumptions = ['strings are sequences of Unicode scalar values (no lone surrogates)',
                       'valid authority = reg-name/IPv4 or bracketed IP literal, optionally ":" and 1..6 digits '
                       '(an empty port, "host:", is valid too and carries no port number: the default is returned)',
                       'Cython twin falcon/cyutil/uri.pyx: stale-or-absent, not checked (Cython unavailable)']
    rng = ctx.rng

    # ---- legs M + A (one exhaustive run per instance: laws as invariants, cases via Emit) ----------
    r = ctx.tlc('MC_Uri', ctx.pick('MC_UriQ.cfg', 'MC_Uri.cfg'), coverage=True, workers=6, timeout=900)
    ctx.require_coverage(r, ['XDecode', 'XEncode', 'XEncodeValue', 'XEncodeCE', 'XEncodeValueCE'])
    rh = ctx.tlc('MC_Uri', ctx.pick('MC_UriHostQ.cfg', 'MC_UriHost.cfg'), coverage=True, workers=6, timeout=600)
    ctx.require_coverage(rh, ['XParseHost'])
    rc = ctx.tlc('MC_Uri', 'MC_UriCtl.cfg', coverage=True, workers=6, timeout=600)      # LF / CR / TAB in every position
    ctx.require_coverage(rc, ['XDecode', 'XEncode', 'XEncodeValue', 'XEncodeCE', 'XEncodeValueCE'])
    bad = ctx.tlc('MC_Uri', 'MC_UriBad.cfg', must_hold=False, count=False, workers=2, timeout=120)
    if bad.violated != 'EncodeOutputAlphabet':
        raise MachineryError('vacuity: the lower-case-escape design was not rejected (%r)' % (bad.violated,))
    ctx.exhaustive = True
    ctx.progress('leg M done: %d + %d states, %d + %d cases exported'
                 % (r.distinct, rh.distinct, len(r.json), len(rh.json)))
    cases = r.json + rc.json + rh.json
    if len(rc.json) < rc.distinct * 6 // 7:
        raise MachineryError('Emit produced %d cases for %d states (control characters)' % (len(rc.json), rc.distinct))
    if len(r.json) < r.distinct * 6 // 7 or not rh.json:
        raise MachineryError('Emit produced %d cases for %d states' % (len(r.json), r.distinct))

    suspects = []          # events where code and spec differ; TLC names the clause
    blocks = {True: [], False: []}      # closed decode blocks per plus flag: (s, bytes)
    lowblocks = {True: [], False: []}
    encblocks = {'encode': [], 'encode_value': []}
    ctlblocks = {'encode': [], 'encode_value': []}      # enumerated blocks ending in a control character
    for c in cases:
        s = txt(c['s'])
        fn = c['fn']
        want = txt(c['out'])
        if fn == 'decode':
            viacodec = bytes(c['bytes']).decode('utf-8', 'replace')
            if viacodec != want:
                raise MachineryError('UriOps!U8Read disagrees with the CPython codec on %r: %r vs %r'
                                     % (c['bytes'], want, viacodec))
            if c['closed'] and s:
                blocks[c['plus']].append((s, bytes(c['bytes'])))
                if '%0' in s or '%10' in s:
                    lowblocks[c['plus']].append((s, bytes(c['bytes'])))
        elif fn in encblocks and s:
            encblocks[fn].append((s, want))
            if s[-1] in '\n\r\t':
                ctlblocks[fn].append((s, want))
        defaults = (None, BIG_DEFAULT) if fn == 'parse_host' else (None,)
        for d in defaults:
            e = call(fn, s, c['plus'], d)
            ctx.case({'fn': fn, 's': c['s'], 'plus': c['plus']}, nontrivial=nontrivial(s), key=(fn, c['plus'], s, d))
            ok = not e['err'] and e['out'] == c['out'] and e['port'] == c['port']
            if ok and fn.endswith('check_escaped'):
                ok = e['out2'] == e['out']
            if ok and fn in ('encode', 'encode_value'):
                ok = e['back'] == c['s'] and e['backp'] == c['s']
            if ok and fn == 'parse_host' and c['valid'] and not c['colon']:
                ok = e['alt'] == e['out'] and e['alt0'] == e['out']
            if not ok:
                suspects.append(e)
    ctx.traces_validated += len(cases)
    ctx.progress('leg A: %d cases replayed, %d differ' % (len(cases), len(suspects)))

    # ---- leg A2: long inputs as concatenations of enumerated blocks -----------------------------
    from falcon import uri
    nlong = ctx.pick(300, 4000)
    longbad = 0
    for i in range(nlong):
        plus = bool(i & 1)
        target = rng.choice((40, 200, 1000, 8192)) if i % 4 else rng.choice((12, 20, 30))
        parts, n = [], 0
        pool = blocks[plus]
        lowpool = lowblocks[plus]         # blocks with an escape of one of the lowest octets (%00, %01, %0a, %10)
        while n < target:
            b = rng.choice(lowpool) if lowpool and rng.random() < 0.15 else \
                pool[rng.randrange(len(pool))] if rng.random() < 0.5 else \
                rng.choice(pool[:3000])       # short blocks (many escapes per KB)
            parts.append(b)
            n += len(b[0])
        s = ''.join(p[0] for p in parts)
        want = b''.join(p[1] for p in parts).decode('utf-8', 'replace')
        ctx.case({'fn': 'decode', 'len': len(s), 'plus': plus, 'head': s[:40]}, nontrivial=nontrivial(s),
                 key=('decode', plus, s))
        try:
            got = uri.decode(s, unquote_plus=plus)
        except Exception as ex:
            got = ex
        if got != want:
            longbad += 1
            e = call('decode', s, plus)
            if len(s) <= 3000:
                suspects.append(e)
            else:
                k = next((j for j in range(min(len(want), len(got) if isinstance(got, str) else 0))
                          if want[j] != got[j]), -1)
                ctx.violation('P:decode', {'event': {k_: v for k_, v in e.items() if k_ != 'exc'},
                                           'origin': 'concatenation of %d enumerated blocks' % len(parts)},
                              'decode of a %d-character concatenation differs from the concatenated block readings '
                              'at output offset %d %s' % (len(s), k, e['exc']))
        # encoders on concatenations (EncodeConcat)
        if i % 4 == 0:
            fn = ('encode', 'encode_value')[(i >> 2) & 1]
            ps = [rng.choice(encblocks[fn]) for _ in range(rng.choice((3, 10, 60, 600)))]
            if ctlblocks[fn] and rng.random() < 0.6:          # ... ending in one LF, CR LF, LF LF, TAB
                ps.append(rng.choice(ctlblocks[fn]))
            s = ''.join(p[0] for p in ps)
            want = ''.join(p[1] for p in ps)
            ctx.case({'fn': fn, 'len': len(s), 'head': s[:40]}, nontrivial=nontrivial(s), key=(fn, False, s))
            e = call(fn, s)
            if e['err'] or txt(e['out']) != want:
                if len(s) <= 3000:
                    suspects.append(e)
                else:
                    ctx.violation('P:encode_concat', {'event': {k_: v for k_, v in e.items() if k_ != 'exc'}},
                                  '%s of a %d-character concatenation differs from the concatenated block encodings'
                                  % (fn, len(s)))
    ctx.traces_validated += nlong + nlong // 4
    ctx.extra['long_concatenations'] = nlong
    ctx.progress('leg A2: %d long concatenations, %d differ' % (nlong, longbad))

    if suspects:
        uniq = list({digest(e): e for e in suspects}.values())
        traces, verdicts = judge_events(ctx, uniq[:600], per=1)
        named = 0
        for t, v in zip(traces, verdicts):
            if v == 'ok':
                raise MachineryError('replay and judge disagree on %r' % (t,))
            named += 1
            report(ctx, v.rsplit('@', 1)[0], t['ev'][0], 'leg A (TLC-computed case)')

    # ---- leg B: random longer strings, recorded and judged ----------------------------------------
    nrand = ctx.pick(700, 14000)
    HEX = '0123456789ABCDEFabcdef'
    base = [chr(x) for x in (37, 43, 52, 67, 69, 97, 71, 47, 126, 32, 0, 233, 65300, 128512)]
    wide = base + list('%%%%++ &=,;:@?#[]!$\'()*-._xyzXYZ09bdfBDF\t\n"<>\\^`{|}') + \
        [chr(x) for x in (127, 128, 255, 256, 2047, 2048, 8364, 65533, 65535, 65536, 1114111)]

    def rand_string():
        k = rng.random()
        n = rng.choice((3, 6, 9, 14, 20, 33, 64, 100, 160))
        if k < 0.3:                      # soup over the wide alphabet
            return ''.join(rng.choice(wide) for _ in range(rng.randint(1, n)))
        if k < 0.6:                      # text with many escapes, some malformed, valid and broken UTF-8 runs
            out = []
            for _ in range(rng.randint(1, max(1, n // 3))):
                t = rng.random()
                if t < 0.35:
                    ch = rng.choice(('é', '€', '😀', 'ÿ', '\x80', 'A', ' ', '+', '/'))
                    bs = ch.encode('utf-8')
                    if rng.random() < 0.3:
                        bs = bs[:rng.randint(1, len(bs))]           # truncated sequence
                    out.append(''.join('%%%s' % (('%02X' if rng.random() < 0.7 else '%02x') % b) for b in bs))
                elif t < 0.5:
                    out.append('%' + rng.choice(HEX) + rng.choice(HEX))
                elif t < 0.55:          # the lowest and the highest octets
                    out.append(rng.choice(('%00', '%00', '%01', '%0A', '%0a', '%10', '%7F', '%7f', '%80', '%FF', '%ff', '\x00')))
                elif t < 0.7:
                    out.append(rng.choice(('%', '%%', '%G1', '%1G', '%4', '%+1', '% 41', '%４1', '%u0041', '%é')))
                else:
                    out.append(rng.choice(wide))
            return ''.join(out)
        if k < 0.8:                      # already escaped URIs and near misses (check-escaped encoders)
            out = []
            for _ in range(rng.randint(1, max(1, n // 3))):
                t = rng.random()
                if t < 0.5:
                    out.append(rng.choice('abcXYZ019-._~/?:@&=+$,;'))
                elif t < 0.9:
                    out.append('%' + rng.choice(HEX) + rng.choice(HEX))
                else:
                    out.append(rng.choice((' ', '%', 'é', '%2', '"', '%zz')))
            return ''.join(out)
        return ''.join(rng.choice(base) for _ in range(rng.randint(2, max(2, n))))       # the model's alphabet, longer

    endings = ('\n', '\r\n', '\n\n', '\r', '\t', '\n\r', '%0A\n', ' \n')

    events = {}
    for i in range(nrand):
        s = rand_string()
        if i % 4 == 0:                   # ... ending in exactly one LF, in CR LF, in LF LF, ...
            s = s.rstrip('\n\r\t') + endings[(i // 4) % len(endings)]
        for fn in FNS:
            for plus in ((False, True) if fn == 'decode' else (False,)):
                key = (fn, plus, s)
                if key in events:
                    continue
                events[key] = call(fn, s, plus)
                ctx.case({'fn': fn, 's': cps(s)[:60], 'plus': plus, 'origin': 'random'}, nontrivial=nontrivial(s), key=key)
    # a few multi-KB strings, judged directly
    for i in range(ctx.pick(3, 12)):
        n = ctx.pick(1000, (1000, 2000, 4000)[i % 3])
        s = ''.join(rand_string() for _ in range(n // 20))[:n]
        for fn, plus in (('decode', True), ('decode', False), ('encode', False), ('encode_value_check_escaped', False)):
            events[(fn, plus, s)] = call(fn, s, plus)
            ctx.case({'fn': fn, 'len': len(s), 'plus': plus, 'origin': 'random-long'}, nontrivial=nontrivial(s),
                     key=(fn, plus, s))
    # authorities beyond the enumerated ones: random hosts x ports
    hosts = ['example.com', 'a.b.c', '', 'localhost', '127.0.0.1', '[::1]', '[::]', '[1::]', '[a::1]', '[1:a::]',
             '[2001:db8:85a3:8d3:1319:8a2e:370:7348]', '[::ffff:192.0.2.128]', '[v1.fe80::a+en1]', '[v1.fe80]',
             '[vF.host-1~x]', '[v1.a]', '[V7.x:y;z=1]', '[vAB.~]', 'xn--bcher-kva.example',
             "sub!$&'()*+,;=x", '%E4%BD%A0.example', 'a-b_c~d.e', '[1:2:3:4:5:6:7:8]', '[fe80::1%25en0]']
    for h in hosts:
        for p in ['', None, '0', '1', '80', '443', '8080', '65535', '00080', '999999'] + \
                 [str(rng.randrange(100000)) for _ in range(ctx.pick(3, 30))]:
            s = h + ':' if p is None else h + (':' + p if p else '')
            for d in (None, BIG_DEFAULT):
                events[('parse_host', d, s)] = call('parse_host', s, False, d)
                ctx.case({'fn': 'parse_host', 's': s}, nontrivial=True, key=('parse_host', d, s))
    evs = list(events.values())
    ctx.progress('leg B: %d calls recorded' % len(evs))
    traces, verdicts = judge_events(ctx, evs, per=25)
    bisect_verdicts(ctx, traces, verdicts, 'leg B (recorded call)')
    ctx.extra['recorded_calls_judged'] = len(evs)
    ctx.extra['cython_twin'] = 'stale-or-absent, not checked'


def replay(ctx, case):
    e0 = case['event']
    s = txt(e0['s'])
    e = call(e0['fn'], s, e0['plus'], None)
    print('call :', e0['fn'], repr(s), 'plus' if e0['plus'] else '')
    print('got  :', repr(txt(e['out'])), e['port'], e['exc'])
    traces, verdicts = judge_events(ctx, [e], per=1)
    print('verdict:', verdicts[0])
    if verdicts[0] != 'ok':
        report(ctx, verdicts[0].rsplit('@', 1)[0], e, 'replay')
