"""G01 - growth path of DESIGN section 3: the requests falcon's own test suite makes, judged against
the existing specifications of C05 (ResponseEmit), C15 (RespHeaders, emission) and C02 (Dispatch).

recorder: engine/suite_recorder.py   pytest plugin (-p engine.suite_recorder), no change to /repo; records every
                                     HTTP exchange of the suite as typed JSON lines + inspect_app configurations
judge:    spec/SuiteTrace.tla        INSTANCEs ResponseEmitTrace (C05's own judge), RespHeaders (emission invariants),
                                     Dispatch (Outcome / VisibleOf); explicit Expressible predicate, skips are counted
this file: runs the suite under the recorder (source mode, -n 8, in place on /repo/tests, falcon from $FALCON_ROOT),
          projects every record onto the vocabulary of the specifications (independent protocol monitors of
          engine/drivers.py replayed on the recorded response; templates / sink prefixes parsed into Dispatch's
          tokens), dedupes, lets TLC judge, reports counts and VIOLATION lines.

Not a listed property: nothing here can fail C01..C20; it extends what the specifications cover to every request
the repository's tests make (checked against all invariants, not only the assertion the author wrote).
"""
META = {
    'property_id': 'G01',
    'design_ref': 'DESIGN.md section 3, growth path (judging the repository\'s own tests)',
    'technique': 'falcon\'s own suite run under a recording pytest plugin; every recorded exchange judged by TLC with '
                 'the clause operators of ResponseEmit (C05), RespHeaders (C15, emission) and Dispatch (C02)',
    'level_text': 'Every HTTP exchange any test of /repo/tests makes (about 1.8e3 exchanges, 390 app configurations) is '
                  'recorded at the server interface and judged by spec/SuiteTrace.tla, which instantiates the trace '
                  'judge of C05, the emission invariants of C15 and the dispatch decision of C02 unchanged.',
    'level_note': 'Conformance of recorded behaviour only (leg B); the inputs are the ones the suite\'s authors chose. '
                  'Exchanges outside the explicit Expressible predicate of SuiteTrace.tla are counted as skipped by '
                  'reason, never accepted. CloseExactlyOnceOnceBegun is not judged (the suite\'s streams are not '
                  'instrumented); cookie attributes, read-back and the encoding laws of C15 need the operation history '
                  'and stay with C15. Trusted: TLC, engine/drivers.py monitors, the projection in checks/g01.py, re.',
}

import http
import json
import os
import re
import subprocess
import sys
import tempfile

from engine import drivers
from engine.core import MachineryError, digest

REPO = '/repo'
VERIF = os.path.dirname(os.path.dirname(os.path.abspath(__file__)))
EXPECT_PASSED = 3440

# quick tier: a fixed subset of the suite's files (the ones that make most requests through both stacks)
QUICK_FILES = [
    'tests/test_headers.py', 'tests/test_response_body.py', 'tests/test_hello.py', 'tests/asgi/test_hello_asgi.py',
    'tests/test_http_method_routing.py', 'tests/test_sinks.py', 'tests/test_sink_and_static.py', 'tests/test_static.py',
    'tests/test_httpstatus.py', 'tests/test_httperror.py', 'tests/test_cookies.py', 'tests/test_redirects.py',
    'tests/test_error_handlers.py', 'tests/test_middleware.py', 'tests/test_response_media.py',
    'tests/asgi/test_response_media_asgi.py', 'tests/asgi/test_sse.py', 'tests/asgi/test_scope.py',
    'tests/test_wsgi.py', 'tests/test_custom_router.py', 'tests/test_after_hooks.py', 'tests/test_before_hooks.py',
    'tests/test_cors_middleware.py', 'tests/test_media_handlers.py', 'tests/test_http_custom_method_routing.py',
]

HOP_BY_HOP = ('connection', 'keep-alive', 'proxy-authenticate', 'proxy-authorization', 'te', 'trailers',
              'transfer-encoding', 'upgrade')
STD_METHODS = sorted(['CONNECT', 'DELETE', 'GET', 'HEAD', 'OPTIONS', 'PATCH', 'POST', 'PUT', 'TRACE', 'CHECKIN', 'CHECKOUT',
                      'COPY', 'LOCK', 'MKCOL', 'MOVE', 'PROPFIND', 'PROPPATCH', 'REPORT', 'UNCHECKIN', 'UNLOCK', 'UPDATE',
                      'VERSION-CONTROL', 'WEBSOCKET'])      # = Dispatch!Combined
INTERNAL_FNS = ('method_not_allowed', 'method_not_allowed_responder_async', 'options_responder', 'options_responder_async')


# ------------------------------------------------------------------------------------------------
# running the suite under the recorder
# ------------------------------------------------------------------------------------------------

def run_suite(ctx, files, out, workers=8, timeout=1500):
    env = dict(os.environ)
    env.update({'PYTHONPATH': os.path.join(VERIF, 'tools', 'srcmode'), 'PYTHONDONTWRITEBYTECODE': '1',
                'FALCON_ROOT': os.environ.get('FALCON_ROOT', REPO), 'SUITE_RECORD_FILE': out, 'PYTHONHASHSEED': '0'})
    cmd = [sys.executable, '-m', 'pytest', '-q', '-p', 'no:cacheprovider', '-p', 'engine.suite_recorder',
           '--timeout=900', '--continue-on-collection-errors', '-n', str(workers)] + list(files)
    ctx.progress('running falcon\'s suite under the recorder: %s' % ' '.join(cmd[2:12]))
    try:
        p = subprocess.run(cmd, cwd=REPO, env=env, stdout=subprocess.PIPE, stderr=subprocess.STDOUT, text=True,
                           errors='replace', timeout=timeout)
    except subprocess.TimeoutExpired:
        raise MachineryError('falcon\'s suite did not finish within %d s under the recorder' % timeout)
    tail = p.stdout.strip().splitlines()[-1] if p.stdout.strip() else ''
    counts = {k: int(v) for v, k in re.findall(r'(\d+) (passed|failed|skipped|errors?|warnings?)', tail)}
    failed = re.findall(r'^FAILED (\S+)', p.stdout, re.M)
    return {'summary': tail, 'passed': counts.get('passed', 0), 'failed': counts.get('failed', 0),
            'skipped': counts.get('skipped', 0), 'errors': counts.get('errors', counts.get('error', 0)),
            'failed_tests': failed[:40], 'rc': p.returncode}


def load(path):
    apps, xs, errs = {}, [], []
    with open(path, encoding='utf-8') as f:
        for line in f:
            try:
                d = json.loads(line)
            except ValueError:
                errs.append(line[:200])
                continue
            if d.get('kind') == 'app':
                apps[d['key']] = d['cfg']
            elif d.get('kind') == 'x':
                xs.append(d)
            else:
                errs.append(json.dumps(d)[:300])
    return apps, xs, errs


# ------------------------------------------------------------------------------------------------
# typed copies back to objects
# ------------------------------------------------------------------------------------------------

class Opaque:
    """stands for an object of another type than str / bytes / int / tuple / list the server received"""

    def __init__(self, name, r=None):
        self.name, self.r = name, r

    def __repr__(self):
        return '<%s>' % self.name


def dec(x):
    if x is None or isinstance(x, (bool, int, str)):
        return x
    if isinstance(x, list):
        return [dec(y) for y in x]
    if isinstance(x, dict):
        if 'o' in x:
            return Opaque(x['o'], x.get('r'))
        if 'b' in x:
            return x['b'].encode('latin-1')
        if 't' in x:
            return tuple(dec(y) for y in x['t'])
        if 'f' in x:
            return float(x['f'])
        if 'd' in x:
            return Opaque('dict')
    return Opaque('?')


def asc(s):
    """ASCII-only, character-wise injective rendering of a string (TLC compares non-ASCII strings unreliably)"""
    return s.encode('unicode_escape').decode('ascii') if isinstance(s, str) else repr(s)


def cps(s):
    return [ord(c) for c in s]


# ------------------------------------------------------------------------------------------------
# replay of the recorded response under the independent monitors of engine/drivers.py
# ------------------------------------------------------------------------------------------------

class ReplayAbort(Exception):
    pass


def monitor_wsgi(x):
    it = x.get('iter')
    escaped = x['exc'] is not None or bool(it and it.get('exc'))

    def app(env, start_response):
        for s in x['starts']:
            start_response(*dec(s.get('args', {'t': []})))
        if it is None:
            raise ReplayAbort('the app callable raised')
        bad = list(it.get('bad_chunks', []))
        out = []
        for n in it['chunks']:
            out.append(b'x' * n if n >= 0 else Opaque(bad.pop(0) if bad else '?'))
        return out
    return drivers.wsgi_call(app, drivers.Req()), escaped


def monitor_asgi(x):
    def build(e):
        if not isinstance(e, dict) or 'type' not in e:
            return Opaque('event')
        ev = {}
        for k, v in e.items():
            if k == 'body' and isinstance(v, dict) and 'n' in v:
                b = b'x' * max(v['n'], 0)
                ev['body'] = bytearray(b) if v.get('type') == 'bytearray' else memoryview(b) if v.get('type') == 'memoryview' else b
            elif k == 'headers' and isinstance(v, dict) and 'items' in v:
                items = [dec(i) for i in v['items']]
                ev['headers'] = items if v.get('type') == 'list' else tuple(items)
            else:
                ev[k] = dec(v)
        return ev

    aborted = x.get('send_failed') is not None

    async def app(scope, receive, send):
        for e in x['events']:
            await send(build(e))
        if aborted:
            raise OSError('client went away (injected)')
        if x['exc'] is not None:
            raise ReplayAbort('the app callable raised')
    return drivers.asgi_call(app, drivers.Req()), x['exc'] is not None


# ------------------------------------------------------------------------------------------------
# projection of one recorded exchange onto the vocabulary of the specifications
# ------------------------------------------------------------------------------------------------

def status_valid(st):
    if isinstance(st, bool):
        return False
    if isinstance(st, int):
        return 100 <= st <= 999
    if isinstance(st, str):
        if st.isdigit():
            return 100 <= int(st) <= 999
        return bool(re.fullmatch(r'[0-9]{3} [^\r\n]*[^\r\n ]', st))
    if isinstance(st, dict) and st.get('o') == 'http.HTTPStatus':
        return True
    if isinstance(st, dict) and set(st) == {'b'}:          # a byte string is taken like the text it spells
        return status_valid(st['b'])
    return False


def project_emission(x, cfg, res, escaped):
    """part E: the record ResponseEmitTrace reads (c, ev, pieces, ...) + the facts Expressible needs"""
    asgi = x['iface'] == 'asgi'
    snap = x['snaps'][-1] if x['snaps'] and 'error' not in x['snaps'][-1] else None
    req = x.get('req') or {}
    method = req.get('method') if isinstance(req.get('method'), str) else '?'
    cts = res.header_all('content-type')
    cls = res.header_all('content-length')
    facts = {'norequest': False, 'escaped': bool(escaped), 'snap': snap is not None, 'badstatus': False,
             'hopbyhop': False, 'ctunknown': False, 'falsystream': False,
             'ownrender': bool(snap and snap.get('own_render'))}
    # ---- how the exchange ended
    if asgi:
        recv = x.get('received') or []
        facts['norequest'] = (recv[:1] == ['http.disconnect'] and not x['events'] and x['exc'] is None)
        aborted = x.get('send_failed') is not None
        body_events = [e for e in x['events'] if isinstance(e, dict) and e.get('type') == 'http.response.body']
        sizes = [(e.get('body') or {}).get('n', 0) if isinstance(e.get('body'), dict) else 0 for e in body_events]
        nonempty = [(e.get('body') or {}) for e in body_events if isinstance(e.get('body'), dict) and e['body'].get('n', 0) > 0]
        body = {'n': sum(sizes), 'h': nonempty[0]['h'] if len(nonempty) == 1 else ('' if not nonempty else None)}
    else:
        it = x.get('iter') or {}
        aborted = bool(it) and not it.get('exhausted') and not it.get('exc')
        sizes = [n for n in it.get('chunks', []) if n >= 0]
        body = it.get('body') or {'n': 0, 'h': ''}
    # ---- the response as it stood at emission
    text = data = media = -1
    stream, sse, chunks = 'none', -1, []
    srcs = {}
    default_media = ((cfg or {}).get('resp_opts') or {}).get('default_media_type')
    if snap is not None:
        facts['badstatus'] = not status_valid(snap.get('status'))
        facts['hopbyhop'] = any(isinstance(k, str) and k.lower() in HOP_BY_HOP for k, _ in snap['headers'])
        if snap['text'] is not None:
            text = max(snap['text']['n'], 0)
            srcs['text'] = snap['text']
        if snap['data'] is not None:
            data = max(snap['data']['n'], 0)
            srcs['data'] = snap['data']
        if snap['media']:
            mr = snap['media_rendered']
            media = mr['n'] if mr is not None and mr['n'] >= 0 else 1       # set but never rendered: some positive length
            if mr is not None:
                srcs['media'] = mr
        s = snap['stream']
        if s is not None:
            stream = 'file' if s['read'] else 'iter' if s['close'] else 'plain'
            if asgi and not s['truthy']:
                facts['falsystream'] = True
        if asgi and snap.get('sse') is not None and snap['sse']['truthy']:
            sse = len([n for n in sizes if n > 0])
    rendered_set = text >= 0 or data >= 0 or media >= 0
    if not rendered_set and (stream != 'none' or sse >= 0):
        chunks = list(sizes) if sse < 0 else []
    # ---- Content-Type class of the start event: "none" | "app" (set before rendering) | "fw"
    if not cts:
        ct = 'none'
    elif snap is None:
        ct = 'fw'
    elif asgi:
        stored = [v for k, v in snap['headers'] if isinstance(k, str) and k.lower() == 'content-type']
        if not stored:
            ct = 'fw'                       # added by the emission itself (default media type)
        else:
            ct = 'app'
            if snap['media_rendered'] is not None and stored[0] == default_media:
                facts['ctunknown'] = True   # the application's own, or the side effect of rendering resp.media
    else:
        pre = x.get('prerender') or []
        ct = 'app' if pre and pre[0].get('ct_set') else 'fw'
        if not pre or pre[0].get('ct_set') is None:
            facts['ctunknown'] = True       # the response was not rendered through App._get_body
    render_fault = any(p.get('raised') for p in (x.get('prerender') or []))
    if asgi and x['handled']:
        render_fault = True                 # cannot be excluded from outside: exempts PrecedenceC only
    c = {'iface': 'asgi' if asgi else ('wsgifw' if req.get('file_wrapper') else 'wsgi'),
         'code': res.status if isinstance(res.status, int) else -1, 'form': 'int', 'method': asc(method),
         'text': text, 'data': data, 'media': media, 'stream': stream, 'chunks': chunks, 'sse': sse,
         'sk': [1] * max(sse, 0),       # every block an SSE response consists of counts as one item of the emitter
         'cl': -1, 'ct': ct == 'app', 'fk': 'render' if render_fault else 'none', 'fa': 1, 'err': -1}

    def evt(k, n=0, more=True, cl=-1, ctc='', sl=True):
        return {'k': k, 'n': n, 'more': bool(more), 'src': '', 'idx': -1, 'cl': cl, 'ct': ctc, 'sl': bool(sl)}

    def int31(s):
        return int(s) if s.isdigit() and len(s) < 10 else -3

    # the status exactly as it was handed to the server (ResponseEmit: sl): on WSGI a native string
    # "DDD SP reason-phrase" (PEP 3333), on ASGI an int 100..999 - the reading of checks/c05.py
    if asgi:
        sl = isinstance(res.status, int) and not isinstance(res.status, bool) and 100 <= res.status <= 999
    else:
        sl = isinstance(res.status_line, str) and re.fullmatch(r'[1-9][0-9][0-9] [^\r\n]*', res.status_line) is not None
    start = evt('start', cl=(-1 if not cls else (int31(cls[0]) if len(cls) == 1 else -3)), ctc=ct, sl=sl)
    ev = []
    if asgi:
        for e in res.events:
            t = e.get('type') if isinstance(e, dict) else None
            if t == 'http.response.start':
                ev.append(start)
            elif t == 'http.response.body':
                b = e.get('body', b'')
                ev.append(evt('body', len(b) if isinstance(b, (bytes, bytearray, memoryview)) else 0, e.get('more_body', False)))
            else:
                ev.append(evt('other'))
    else:
        if res.status_line is not None or res.raw_headers or x['starts']:
            ev.append(start)
        for ch in res.chunks:
            ev.append(evt('body', len(ch), True))
        if x.get('iter') and x['iter'].get('exhausted'):
            ev.append(evt('eof', more=False))
    # ---- the body as source pieces
    pieces = []
    if body['n'] > 0:
        hit = None
        for name in ('text', 'data', 'media'):
            b = srcs.get(name)
            if b is not None and b['n'] == body['n'] and body['h'] is not None and b['h'] == body['h']:
                hit = name
                break
        if hit:
            pieces = [[hit, 0]]
        elif not rendered_set and sse >= 0:
            pieces = [['sse', i] for i in range(sse)]
        elif not rendered_set and stream != 'none':
            pieces = [['stream', i] for i, n in enumerate(chunks) if n > 0]
        else:
            pieces = [['other', -1]]
    return {'x': facts, 'c': c, 'ev': ev, 'pieces': pieces, 'begun': False, 'closes': 0, 'raised': False,
            'sendFailed': bool(aborted), 'renderFailed': False, 'renderFails': 0, 'exc': bool(escaped),
            'errors': len(res.errors)}


def project_headers(x, res):
    """part H: what the server received (plain items, Set-Cookie lines) and the response's stores at emission"""
    snap = x['snaps'][-1] if x['snaps'] and 'error' not in x['snaps'][-1] else None
    h = {'ok': False, 'wellformed': True, 'model': [], 'media': '', 'plain': [], 'lines': [], 'nraw': 0, 'rawvals': [],
         'cookies': []}
    started = any((isinstance(e, dict) and e.get('type') == 'http.response.start') for e in res.events) \
        if x['iface'] == 'asgi' else bool(x.get('starts'))
    if snap is None or not started:
        return h
    h['ok'] = True
    items = []
    for item in res.raw_headers:
        if not (isinstance(item, (tuple, list)) and len(item) == 2):
            h['wellformed'] = False
            continue
        k, v = item
        if isinstance(k, bytes) and isinstance(v, bytes):
            k, v = k.decode('latin-1'), v.decode('latin-1')
        if not (isinstance(k, str) and isinstance(v, str)):
            h['wellformed'] = False
            continue
        items.append((k, v))
    used = set()
    for i, (k, v) in enumerate(items):
        if k.lower() == 'set-cookie':
            h['lines'].append({'name': asc(v.split('=', 1)[0].strip()), 'text': asc(v)})
            continue
        key = (k.lower(), 0 if k == k.lower() else 1)
        if key in used:
            key = (k.lower(), 2 + i)           # a second line for one spelling: still its own entry
        used.add(key)
        h['plain'].append({'b': asc(key[0]), 'c': key[1], 'v': asc(v)})
    for k, v in snap['headers']:
        if not (isinstance(k, str) and isinstance(v, str)):
            h['wellformed'] = False
            continue
        h['model'].append({'n': {'b': asc(k.lower()), 'c': 0}, 'v': asc(v)})
    for item in snap['extra']:
        it = dec(item)
        if isinstance(it, tuple) and len(it) == 2 and isinstance(it[0], str) and isinstance(it[1], str) \
                and it[0].lower() == 'set-cookie':
            h['rawvals'].append(asc(it[1]))
        else:
            h['wellformed'] = False
    h['nraw'] = len(h['rawvals'])
    h['cookies'] = [asc(k) for k, _ in snap['cookies'] if isinstance(k, str)]
    mt = snap.get('media_type_arg')
    h['media'] = asc(mt) if isinstance(mt, str) else ''
    return h


FIELD = re.compile(r'\{([A-Za-z_][A-Za-z0-9_]*)\}\Z')
SINK_TOKEN = re.compile(r'\(\?P<([A-Za-z_][A-Za-z0-9_]*)>(\\d\+|\[\^/\]\+)\)|\((\\d\+|\[\^/\]\+)\)|\\([^A-Za-z0-9])|'
                        r'([A-Za-z0-9_/\-~ ,:;=@!%&\'"<>#])')


def parse_template(path):
    """'/a/{b}' -> Dispatch's tokens, None outside the vocabulary (converters, multi-field segments)"""
    if not isinstance(path, str) or not path.startswith('/'):
        return None
    out = []
    for seg in path[1:].split('/'):
        m = FIELD.match(seg)
        if m:
            out.append({'k': 'var', 's': cps(m.group(1))})
        elif '{' in seg or '}' in seg:
            return None
        else:
            out.append({'k': 'lit', 's': cps(seg)})
    return out


def parse_sink(pattern, flags=None):
    """a sink prefix -> Dispatch's sink tokens: literal text, (?P<n>\\d+), (?P<n>[^/]+), (\\d+), ([^/]+), and the
    flags token for IGNORECASE; None outside.  (Whether a group is followed by what Dispatch!WellFormedSink asks
    for is decided by that operator, in SuiteTrace.)"""
    if not isinstance(pattern, str):
        return None
    if flags is not None and (not isinstance(flags, int) or flags & ~(re.UNICODE | re.IGNORECASE)):
        return None                # VERBOSE, DOTALL, ... change how the pattern text is to be read
    toks, lit, p = [], '', 0
    while p < len(pattern):
        m = SINK_TOKEN.match(pattern, p)
        if not m:
            return None
        if m.group(1) or m.group(3):
            if lit:
                toks.append({'k': 'lit', 's': cps(lit)})
                lit = ''
            if m.group(1):
                toks.append({'k': 'digits' if m.group(2) == '\\d+' else 'seg', 's': cps(m.group(1))})
            else:
                toks.append({'k': 'udigits' if m.group(3) == '\\d+' else 'useg', 's': []})
        else:
            lit += m.group(4) or m.group(5)
        p = m.end()
    if lit:
        toks.append({'k': 'lit', 's': cps(lit)})
    if flags is not None and flags & re.IGNORECASE:
        toks.insert(0, {'k': 'flags', 's': cps('i')})
    return toks


def project_dispatch(x, cfg, res):
    """part D / S: the inspected configuration in Dispatch's vocabulary + what was observed"""
    obs = {'kind': 'none', 'ids': [], 'sfx': '', 'kw': [], 'status': res.status if isinstance(res.status, int) else -1,
           'hasAllow': False, 'allow': []}
    d = {'routed': False, 'stdrouter': False, 'custommethods': False, 'tmplok': False, 'sinkok': False, 'orderok': False, 'whook': False,
         'middleware': True, 'ownhandlers': True, 'm': '', 'p': [], 'routes': [], 'asm': [], 'sbs': False, 'obs': obs}
    allow = res.header_all('allow')
    if allow:
        obs['hasAllow'] = True
        obs['allow'] = sorted(set(asc(a.strip()) for a in ','.join(allow).split(',') if a.strip()))
    r = x.get('route')
    if not (isinstance(r, dict) and 'kind' in r and isinstance(r.get('m'), str) and isinstance(r.get('p'), str)):
        return d
    d['routed'] = True
    d['m'], d['p'] = asc(r['m']), cps(r['p'])
    if cfg is None or 'routes' not in cfg or cfg.get('router') != 'falcon.routing.compiled.CompiledRouter' \
            or 'sbs' not in cfg:
        return d
    d['stdrouter'] = True
    d['sbs'] = bool(cfg['sbs'])
    d['custommethods'] = sorted(cfg.get('methods') or []) != STD_METHODS
    d['middleware'] = 'mw' not in cfg or any(cfg['mw']['tree']) or bool(cfg['mw']['classes'])
    d['ownhandlers'] = 'eh' not in cfg or any(not e[2] for e in cfg['eh'])
    # routes
    tmplok = True
    routes = []
    for i, rt in enumerate(cfg['routes']):
        toks = parse_template(rt['path'])
        impl = [m for m in rt['methods'] if not (m[4] == 'responders.py' and m[1] in INTERNAL_FNS)]
        sfxs = set(m[3] for m in impl)
        if toks is None or len(sfxs) > 1:
            tmplok = False
            continue
        routes.append({'tmpl': toks, 'rid': i + 1, 'sfx': asc(sfxs.pop()) if sfxs else '', 'impl': [asc(m[0]) for m in impl],
                       '_path': rt['path']})
    d['tmplok'] = tmplok
    # sinks and static routes in the order of the assembly calls
    sinkok, orderok = True, True
    asm = []
    for a in cfg.get('asm', []):
        if a.get('kind') == 'sink':
            toks = parse_sink(a.get('pattern'), a.get('flags'))
            if toks is None:
                sinkok = False
                toks = []
            asm.append({'kind': 'sink', 'id': a['seq'], 'pat': toks, 'prefix': [], 'fb': False})
        elif a.get('kind') == 'static':
            pre = a.get('prefix')
            if not (isinstance(pre, str) and pre.startswith('/') and pre.endswith('/') and not pre[:-1].endswith('/')):
                sinkok = False
                pre = '/'
            asm.append({'kind': 'static', 'id': a['seq'], 'pat': [], 'prefix': cps(pre[:-1]), 'fb': bool(a.get('fallback'))})
        else:
            orderok = False
    if sorted(cfg.get('sink_seq', []) + cfg.get('static_seq', [])) != sorted(a['id'] for a in asm) \
            or len(cfg.get('sinks', [])) != len(cfg.get('sink_seq', [])) or len(cfg.get('statics', [])) != len(cfg.get('static_seq', [])):
        orderok = False        # something reached the tables without passing add_sink / add_static_route
    d['sinkok'], d['orderok'], d['asm'] = sinkok, orderok, asm
    # who was picked
    kind = r['kind']
    whook = kind in ('res', 'sink', 'static', 'notfound', 'notallowed', 'options', 'badmethod')
    obs['kind'] = kind if whook else 'none'
    params = r.get('params')
    if isinstance(params, list) and all(isinstance(k, str) and isinstance(v, str) for k, v in params):
        obs['kw'] = [{'n': cps(k), 'v': cps(v)} for k, v in sorted(params)]
    else:
        whook = False
    if kind == 'res':
        hits = [rt for rt in routes if rt['_path'] == r.get('tmpl')]
        fn = r.get('fn')
        if len(hits) == 1 and isinstance(fn, str) and fn.startswith('on_'):
            obs['ids'] = [hits[0]['rid']]
            obs['sfx'] = asc('_'.join(fn.split('_')[2:]))      # on_<method>[_<suffix>], read as falcon.inspect reads it
        else:
            whook = False
    elif kind in ('sink', 'static'):
        fb = r.get('fb')
        if isinstance(fb, list) and fb and all(isinstance(i, int) and i > 0 for i in fb):
            obs['ids'] = sorted(fb)          # the assembly calls that registered the callable that ran
        else:
            orderok = d['orderok'] = False
    d['whook'] = whook
    d['routes'] = [{k: v for k, v in rt.items() if k != '_path'} for rt in routes]
    return d


def project(x, apps):
    cfg = apps.get(x.get('app'))
    res, escaped = (monitor_asgi if x['iface'] == 'asgi' else monitor_wsgi)(x)
    t = project_emission(x, cfg, res, escaped)
    t['h'] = project_headers(x, res)
    t['d'] = project_dispatch(x, cfg, res)
    info = {'status': res.status, 'headers': res.headers[:12], 'errors': res.errors[:4], 'exc': x['exc'],
            'iface': x['iface'], 'req': {k: (x.get('req') or {}).get(k) for k in ('method', 'path', 'query')},
            'route': x.get('route'), 'handled': x.get('handled')}
    return t, info


# ------------------------------------------------------------------------------------------------
# the check
# ------------------------------------------------------------------------------------------------
PARTS = (('E', 'C05 emission'), ('H', 'C15 header emission'), ('D', 'C02 who ran'), ('S', 'C02 status / Allow'))


def judge(ctx, traces, chunk=600, workers=8, timeout=900):
    """-> one dict {part: verdict} per trace.  SuiteTrace prints one tuple per part and trace."""
    out = []
    tags = {'VE': 'E', 'VH': 'H', 'VD': 'D', 'VS': 'S'}
    for off in range(0, len(traces), chunk):
        part = traces[off:off + chunk]
        path = os.path.join(ctx.scratch, 'suite-traces-%d.json' % off)
        with open(path, 'w') as f:
            json.dump(part, f)
        # deep recursion over responses of a thousand blocks: a bigger thread stack for the TLC workers
        r = ctx.tlc('SuiteTrace', 'SuiteTrace.cfg', env={'TRACE_FILE': path, 'JAVA_TOOL_OPTIONS': '-Xss64m'},
                    workers=workers, timeout=timeout)
        got = {}
        for tag, fields in r.tuples:
            if tag in tags and len(fields) == 2:
                got.setdefault(fields[0], {})[tags[tag]] = fields[1]
        for i in range(len(part)):
            v = got.get(i + 1)
            if v is None or set(v) != set(tags.values()):
                raise MachineryError('SuiteTrace printed no complete verdict for trace %d of %d: %r\n%s'
                                     % (i + 1, len(part), v, r.out[-2500:]))
            out.append(v)
        os.unlink(path)
    ctx.traces_validated += len(traces)
    return out


def run(ctx):
    ctx.rule = ('case = one HTTP exchange a test of /repo/tests makes (request, server-visible response, picked responder, '
                'response object at emission, inspected configuration); distinct by hash of its projection; non-trivial '
                'iff at least one of the four parts (C05 emission, C15 header emission, C02 who ran, C02 status/Allow) is '
                'inside Expressible and judged')
    ctx.trusted_base = ['TLC 1.8 evaluation of spec/SuiteTrace.tla (ResponseEmitTrace, RespHeaders, Dispatch instantiated)',
                        'engine/suite_recorder.py (transparent wrappers; copies, decides nothing)',
                        'PEP 3333 / ASGI HTTP monitors of engine/drivers.py replayed on the recorded response',
                        'projection in checks/g01.py (template / sink-prefix tokeniser, sha1 comparison of body and sources)',
                        'falcon.inspect.inspect_app for the configuration', 're']
    ctx.assumptions = ['the suite is run in place on /repo/tests with falcon imported from $FALCON_ROOT (source mode)',
                       '"the application" of C05 = responders, middleware and error handlers together: the case describes '
                       'the response object at the moment of emission',
                       'Content-Type is "application-supplied" iff it was in the response before rendering (WSGI: observed at '
                       '_get_body; ASGI: inferred from the emission snapshot)',
                       'exchanges outside SuiteTrace!Expressible are skipped and counted, never accepted']
    scratch = tempfile.mkdtemp(prefix='g01-')
    out = os.path.join(scratch, 'records.jsonl')
    try:
        _run(ctx, out)
    finally:
        import shutil
        shutil.rmtree(scratch, ignore_errors=True)


def _run(ctx, out):
    files = QUICK_FILES if ctx.quick else ['tests']
    if os.environ.get('G01_RECORDS'):          # development aid only: judge an existing record file again
        out = os.environ['G01_RECORDS']
        suite = {'summary': 'not run (G01_RECORDS)', 'passed': EXPECT_PASSED, 'failed': 0, 'failed_tests': []}
    else:
        suite = run_suite(ctx, files, out, workers=8, timeout=ctx.pick(600, 1800))
    ctx.extra['suite'] = suite
    ctx.progress('suite: %s' % suite['summary'])
    print('G01 suite under the recorder: %s' % suite['summary'])
    if not os.path.exists(out):
        raise MachineryError('the recorder wrote nothing (plugin not loaded?)\n%s' % suite['summary'])
    apps, xs, errs = load(out)
    if errs:
        raise MachineryError('unreadable recorder lines: %r' % errs[:3])
    if len(xs) < 100:
        raise MachineryError('only %d exchanges recorded: %s' % (len(xs), suite['summary']))
    unchanged = os.environ.get('FALCON_ROOT', REPO) == REPO
    if suite['failed']:
        msg = 'suite under the recorder: %d tests failed, e.g. %s' % (suite['failed'], suite['failed_tests'][:5])
        if unchanged:
            raise MachineryError(msg + ' (the recorder must be transparent on the unchanged tree)')
        print('NOTE ' + msg)
    if unchanged and not ctx.quick and suite['passed'] != EXPECT_PASSED:
        raise MachineryError('suite under the recorder: %s, expected %d passed' % (suite['summary'], EXPECT_PASSED))
    ctx.progress('%d exchanges, %d app configurations recorded' % (len(xs), len(apps)))

    # ---- projection + dedupe -------------------------------------------------------------------------
    seen = {}
    for x in xs:
        t, info = project(x, apps)
        k = digest(t)
        if k in seen:
            seen[k][2].append(x['node'])
        else:
            seen[k] = (t, info, [x['node']])
    items = list(seen.values())
    ctx.progress('%d distinct projections' % len(items))
    verdicts = judge(ctx, [t for t, _, _ in items])

    # ---- accounting ----------------------------------------------------------------------------------
    counts = {p: {'judged': 0, 'ok': 0, 'skipped': {}, 'violations': {}} for p, _ in PARTS}
    n_x = {'recorded': len(xs), 'distinct': len(items), 'expressible': 0, 'fully_skipped': 0}
    for (t, info, nodes), v in zip(items, verdicts):
        pv = v
        vs = ';'.join('%s=%s' % (p, pv[p]) for p, _ in PARTS)
        any_judged = False
        for p, title in PARTS:
            val = pv[p]
            c = counts[p]
            if val.startswith('skip/'):
                c['skipped'][val[5:]] = c['skipped'].get(val[5:], 0) + 1
                continue
            any_judged = True
            c['judged'] += 1
            if val == 'ok':
                c['ok'] += 1
                continue
            clause = val.replace('P:', '')
            c['violations'][clause] = c['violations'].get(clause, 0) + 1
            case = {'part': p, 'tests': sorted(set(nodes))[:6], 'observed': info, 'projection': t}
            ctx.violation('%s:%s' % (p, clause), case,
                          '%s: %s rejected by SuiteTrace (%s) for %s %s -> status %r; first seen in %s'
                          % (title, clause, vs, info['req'].get('method'), info['req'].get('path'),
                             info['status'], nodes[0]))
        n_x['expressible' if any_judged else 'fully_skipped'] += 1
        ctx.case({'tests': nodes[:2], 'verdict': vs, 'request': info['req'], 'status': info['status']},
                 nontrivial=any_judged, key=digest(t))
    if os.environ.get('G01_DUMP'):              # development aid only: every verdict with the tests it came from
        with open(os.environ['G01_DUMP'], 'w') as f:
            for (t, info, nodes), v in zip(items, verdicts):
                f.write(json.dumps({'v': v, 'tests': sorted(set(nodes)), 'info': info, 'x': t['x'], 'c': t['c']}, default=repr) + '\n')
    selftest(ctx, items, verdicts)
    ctx.extra['exchanges'] = n_x
    ctx.extra['parts'] = counts
    print('G01 exchanges: recorded=%(recorded)d distinct=%(distinct)d expressible(some part judged)=%(expressible)d '
          'skipped entirely=%(fully_skipped)d' % n_x)
    for p, title in PARTS:
        c = counts[p]
        print('G01 part %s (%s): judged=%d ok=%d violations=%s skipped=%s'
              % (p, title, c['judged'], c['ok'], c['violations'] or 0,
                 ', '.join('%s:%d' % kv for kv in sorted(c['skipped'].items())) or 0))


def selftest(ctx, items, verdicts):
    """Vacuity guard: accepted projections of this very run, corrupted in one field each, must be rejected by the
    clause that speaks about that field (otherwise the judge or Expressible has become vacuous)."""
    import copy

    def first(pred):
        for (t, _, _), v in zip(items, verdicts):
            if pred(t, v):
                return copy.deepcopy(t)
        return None
    cases = []
    t = first(lambda t, v: v['E'] == 'ok' and t['c']['iface'] != 'asgi' and t['c']['text'] > 0 and t['c']['method'] == 'GET'
              and not t['sendFailed'] and len(t['ev']) == 3)
    if t:
        a = copy.deepcopy(t); a['ev'][0]['cl'] += 1; cases.append(('E', 'P:LengthConsistent', a))
        a = copy.deepcopy(t); a['ev'] = a['ev'][:-1]; cases.append(('E', 'P:OnlyLastHasNoMoreBody', a))
        a = copy.deepcopy(t); a['ev'].insert(1, dict(a['ev'][0])); cases.append(('E', 'P:ExactlyOneStart', a))
        a = copy.deepcopy(t); a['c']['method'] = 'HEAD'; cases.append(('E', 'P:BodilessHaveNoBytes', a))
        a = copy.deepcopy(t); a['ev'][0]['ct'] = 'none'; cases.append(('E', 'P:OthersHaveType', a))
        a = copy.deepcopy(t); a['ev'][0]['sl'] = False; cases.append(('E', 'P:StatusLineWellFormed', a))
        a = copy.deepcopy(t); a['pieces'] = [['data', 0]]; cases.append(('E', 'P:Precedence', a))
        a = copy.deepcopy(t); a['errors'] = 1; cases.append(('E', 'P:Protocol', a))
    t = first(lambda t, v: v['E'] == 'ok' and t['c']['iface'] == 'asgi' and len(t['ev']) == 2 and t['ev'][1]['n'] > 0)
    if t:
        a = copy.deepcopy(t); a['ev'][1]['more'] = True; cases.append(('E', 'P:OnlyLastHasNoMoreBody', a))
        a = copy.deepcopy(t); a['ev'].append(dict(a['ev'][1])); cases.append(('E', 'P:NothingAfterFinal', a))
    t = first(lambda t, v: v['H'] == 'ok' and t['c']['iface'] == 'asgi' and len(t['h']['plain']) >= 2 and not t['h']['lines'])
    if t:
        a = copy.deepcopy(t); a['h']['plain'].append(dict(a['h']['plain'][0], c=99)); cases.append(('H', 'P:EmitOncePerPlainHeader', a))
        a = copy.deepcopy(t); a['h']['plain'] = a['h']['plain'][1:]; cases.append(('H', 'P:EmitOncePerPlainHeader', a))
        a = copy.deepcopy(t); a['h']['plain'][0]['c'] = 1; cases.append(('H', 'P:AsgiNamesLower', a))
        a = copy.deepcopy(t); a['h']['lines'].append({'name': 'sid', 'text': 'sid=1'}); cases.append(('H', 'P:OneLinePerCookieAndRawCookie', a))
    t = first(lambda t, v: v['H'] == 'ok' and len(t['h']['cookies']) == 1 and len(t['h']['lines']) == 1)
    if t:
        a = copy.deepcopy(t); a['h']['lines'] = []; cases.append(('H', 'P:OneLinePerCookieAndRawCookie', a))
    t = first(lambda t, v: v['D'] == 'ok' and t['d']['obs']['kind'] == 'res' and t['d']['obs']['kw'])
    if t:
        a = copy.deepcopy(t); a['d']['obs']['kind'] = 'notfound'; cases.append(('D', 'P:who', a))
        a = copy.deepcopy(t); a['d']['obs']['ids'] = [99]; cases.append(('D', 'P:who', a))
        a = copy.deepcopy(t); a['d']['obs']['sfx'] = 'zz'; cases.append(('D', 'P:suffix', a))
        a = copy.deepcopy(t); a['d']['obs']['kw'] = []; cases.append(('D', 'P:kwargs', a))
    t = first(lambda t, v: v['D'] == 'ok' and t['d']['obs']['kind'] == 'sink' and len([a for a in t['d']['asm'] if a['kind'] == 'sink']) >= 2)
    if t:
        a = copy.deepcopy(t); a['d']['asm'].reverse(); cases.append(('D', 'P:who', a))       # the other recency order
    t = first(lambda t, v: v['S'] == 'ok' and t['d']['obs']['kind'] == 'notallowed')
    if t:
        a = copy.deepcopy(t); a['d']['obs']['allow'] = [m for m in a['d']['obs']['allow'] if m != 'OPTIONS']; cases.append(('S', 'P:allow', a))
        a = copy.deepcopy(t); a['d']['obs']['status'] = 404; cases.append(('S', 'P:status', a))
    if len(cases) < 15 and not ctx.violations:       # (a run full of violations may not offer the accepted observations)
        raise MachineryError('self-test: only %d corrupted observations could be built from this run' % len(cases))
    if not cases:
        return
    got = judge(ctx, [a for _, _, a in cases], workers=4)
    ctx.traces_validated -= len(cases)
    bad = [(p, want, g[p]) for (p, want, _), g in zip(cases, got) if g[p] != want]
    if bad:
        raise MachineryError('self-test: corrupted observations were not rejected as expected (part, expected, got): %r' % bad)
    ctx.extra['selftest_corruptions_rejected'] = len(cases)
    ctx.progress('self-test: %d corrupted observations rejected by the clauses that speak about them' % len(cases))


def replay(ctx, case):
    t = case['projection']
    pv = judge(ctx, [t], workers=1)[0]
    print('tests:', case.get('tests'))
    print('observed:', json.dumps(case.get('observed'), default=repr)[:1500])
    print('verdict:', pv)
    val = pv.get(case['part'], '')
    if val != 'ok' and not val.startswith('skip/'):
        ctx.violation('%s:%s' % (case['part'], val.replace('P:', '')), case, 'recorded exchange rejected again: %s' % pv)
