"""C08 - query strings parse to one well-defined mapping; typed getters never misreport.

spec:   spec/QueryStringOps.tla (reference reading of a query string over UriOps!Decode; rendering),
        spec/QueryString.tla (parse / render+reparse state machine, laws), spec/MC_QueryString.tla,
        spec/QueryStringTrace.tla (judge + export of the reference reading),
        spec/ParamGettersOps.tla (getter protocol), spec/ParamGetters.tla (laws), spec/MC_ParamGetters.tla,
        spec/ParamGettersTrace.tla (judge)
legs:   M  exhaustive TLC runs: all query strings up to the bound x 4 option settings (ParseTotal,
           BlanksOnlyFilter, CsvOffOneValuePerField, AmpConcat), mappings rendered and read back (RoundTrip,
           RenderAlphabet), the getter protocol over a value pool (GetterNeverMisreports, AbsentProtocol,
           PresentProtocol, StoreOnlyOnSuccess, LastOccurrenceOnly); per-action coverage; wrong-design runs
        A  every case TLC computed is replayed on falcon.uri.parse_query_string, a WSGI Request, an ASGI
           Request, falcon.to_query_str and the getters of both Request classes
        B  calls on seeded random longer query strings / mappings recorded and judged by TLC; getter calls
           on the enumerated and the random requests are judged against the reference reading TLC exported
"""
META = {
    'property_id': 'C08',
    'design_ref': 'DESIGN.md section 4, C08',
    'technique': 'TLA+ reference reading of query strings and getter protocol model-checked with TLC; TLC-computed '
                 'cases replayed on the parser, both Request classes and to_query_str; recorded calls judged by TLC',
    'level_text': 'The reference reading (split on "&" and the first "=", CSV split before decoding, blank rule, UTF-8 '
                  'with replacement, repeated names in order) is a TLA+ function whose laws TLC checks for every string '
                  'up to the bound and all four option settings; its output for each of those strings is compared with '
                  'falcon on three surfaces; the getter protocol (required/default/store/min/max/last occurrence) is a '
                  'second model whose every abstract case is replayed on real requests, and getter calls on enumerated '
                  'and random requests are judged by TLC against the exported reference reading.',
    'level_note': 'Bounded: all strings <= 4 (quick: <= 3) over 13 symbols x 4 option settings exhaustively; random '
                  'strings <= ~120 code points; mappings of <= 2 names x <= 2 values; getter value pool of ~20 strings, '
                  '<= 2 occurrences. Reference conversions are the trusted decoders int/float/uuid.UUID/strptime/'
                  'json.loads and the documented boolean strings. WSGI requests are given QUERY_STRING as the text itself '
                  '(code points <= U+00FF only). nan/inf and |int| >= 2^30 are not used with min/max. The Cython twin '
                  'cannot be built here and is not checked.',
}

import datetime as _dt
import json as _json
import math
import os
import uuid as _uuid

from engine import drivers
from engine.core import MachineryError, digest

KINDS = ('str', 'int', 'float', 'bool', 'uuid', 'datetime', 'date', 'json', 'list', 'list_int', 'has')
TRUE_DOC = ('true', 'True', 't', 'yes', 'y', '1', 'on')          # from the docstring of get_param_as_bool
FALSE_DOC = ('false', 'False', 'f', 'no', 'n', '0', 'off')
ABSENT = '~absent~'
TOKBASE = 1500000000


def txt(c):
    return ''.join(map(chr, c))


def cps(s):
    return [ord(c) for c in s]


class Unrepresentable(Exception):
    pass


class Tokens:
    """Interns converted objects: equal objects of equal type <-> equal small integers."""

    def __init__(self):
        self.ids = {}

    def tok(self, obj):
        try:
            key = (type(obj).__name__, _json.dumps(obj, sort_keys=True)) if isinstance(obj, (dict, list, float)) \
                else (type(obj).__name__, repr(obj))
        except (TypeError, ValueError):
            key = (type(obj).__name__, repr(obj))
        if key not in self.ids:
            self.ids[key] = TOKBASE + len(self.ids)
        return self.ids[key]


TOK = Tokens()


def project(kind, obj):
    """Abstraction of a converted value: the number for numeric kinds, a token otherwise."""
    if kind in ('int', 'list_int'):
        if isinstance(obj, int) and not isinstance(obj, bool):
            if abs(obj) >= 2 ** 30:
                raise Unrepresentable()
            return obj
        return TOK.tok(obj)
    if kind == 'float':
        if isinstance(obj, float):
            if math.isnan(obj) or math.isinf(obj) or abs(obj) >= 1e5 or not (obj * 1000).is_integer():
                raise Unrepresentable()
            return int(obj * 1000)
        return TOK.tok(obj)
    if kind == 'bool':
        return (1 if obj else 0) if isinstance(obj, bool) else TOK.tok(obj)
    return TOK.tok(obj)


def refconv(kind, s):
    """Reference conversion of one value string (trusted decoders of DESIGN 2.4)."""
    try:
        if kind in ('str', 'list'):
            return {'ok': True, 'v': project('str', s)}
        if kind in ('int', 'list_int'):
            return {'ok': True, 'v': project('int', int(s))}
        if kind == 'float':
            return {'ok': True, 'v': project('float', float(s))}
        if kind == 'bool':
            if s in TRUE_DOC:
                return {'ok': True, 'v': 1}
            if s in FALSE_DOC:
                return {'ok': True, 'v': 0}
            if s == '':
                return {'ok': True, 'v': 2}
            return {'ok': False, 'v': 0}
        if kind == 'uuid':
            return {'ok': True, 'v': project('uuid', _uuid.UUID(s))}
        if kind == 'datetime':
            return {'ok': True, 'v': project('datetime', _dt.datetime.strptime(s, '%Y-%m-%dT%H:%M:%S%z'))}
        if kind == 'date':
            return {'ok': True, 'v': project('date', _dt.datetime.strptime(s, '%Y-%m-%d').date())}
        if kind == 'json':
            v = _json.loads(s)
            if v is None:
                raise Unrepresentable()          # indistinguishable from "no value" at the API
            return {'ok': True, 'v': project('json', v)}
    except Unrepresentable:
        raise
    except ValueError:
        return {'ok': False, 'v': 0}
    raise AssertionError(kind)


# ---------------------------------------------------------------------------------------------
# driving the real code
# ---------------------------------------------------------------------------------------------
_BASE = {}


def _bases():
    if not _BASE:
        _BASE['env'] = drivers.environ(drivers.Req())
        _BASE['scope'] = drivers.scope(drivers.Req())
    return _BASE


async def _receive():
    return {'type': 'http.disconnect'}


def make_request(surface, q, kb, csv):
    """A real Request whose query string is the text q.  None if the surface cannot express q."""
    import falcon
    import falcon.asgi
    opts = falcon.RequestOptions()
    opts.keep_blank_qs_values = kb
    opts.auto_parse_qs_csv = csv
    b = _bases()
    if surface == 'wsgi':
        if any(ord(c) > 255 for c in q):
            return None                         # PEP 3333: environ strings hold bytes as latin-1
        env = dict(b['env'])
        env['QUERY_STRING'] = q
        return falcon.Request(env, options=opts)
    sc = dict(b['scope'])
    sc['query_string'] = q.encode('utf-8')
    return falcon.asgi.Request(sc, _receive, options=opts)


def entries_of(params):
    out = []
    for k, v in params.items():
        vs = v if isinstance(v, list) else [v]
        if not isinstance(k, str) or not all(isinstance(x, str) for x in vs):
            raise TypeError('params holds non-strings: %r' % ((k, v),))
        out.append({'k': cps(k), 'v': [cps(x) for x in vs], 'shape': 'list' if isinstance(v, list) else 'scalar'})
    return out


def parse_event(surface, q, kb, csv, export=False, given=None):
    """One reading of q by the real code -> (event for QueryStringTrace, request or None).
    given: a Request object some application run produced (its mapping is read instead of making one)."""
    from falcon import uri
    e = {'op': 'parse', 'q': cps(q), 'kb': kb, 'csv': csv, 'entries': [], 'err': False, 'export': export,
         'm': [], 'cl': False, 'prefix': False}
    req = None
    try:
        if given is not None:
            req = given
            params = req.params
        elif surface == 'func':
            params = uri.parse_query_string(q, keep_blank=kb, csv=csv)
        else:
            req = make_request(surface, q, kb, csv)
            if req is None:
                return None, None
            params = req.params
        e['entries'] = entries_of(params)
    except Exception as ex:
        e['err'] = True
        e['exc'] = repr(ex)[:200]
    return e, req


# to_query_str takes "a str or something that can be converted into a str": the objects whose documented
# rendering (str(); 'true'/'false' for a bool) is the text the specification's mapping holds
TYPED = {'1e+16': 1e16, '1e+100': 1e100, '-1e-07': -1e-7, 'inf': float('inf'), 'nan': float('nan'), '-3': -3,
         '18446744073709551616': 2 ** 64, '1.5': 1.5, '0': 0, '1': 1, '12': 12, '-0.0': -0.0, '1e-05': 1e-5,
         '9223372036854775808': 2 ** 63, '-1e+22': -1e22, '1.7976931348623157e+308': 1.7976931348623157e308}
for _k, _v in TYPED.items():
    assert str(_v) == _k, (_k, _v)
TYPED_SCALAR_ONLY = {'true': True, 'false': False}      # (inside a comma-delimited list a bool renders as str(): 'True')


def typed_value(text, scalar):
    if scalar and text in TYPED_SCALAR_ONLY:
        return TYPED_SCALAR_ONLY[text]
    return TYPED.get(text, text)


def render_event(m, cl, prefix, typed=False):
    """to_query_str on the mapping m.  typed: numbers and booleans are passed as objects, not as their text."""
    import falcon
    d = {}
    for ent in m:
        vs = [txt(x) for x in ent['v']]
        if typed:
            vs = [typed_value(x, ent['shape'] == 'scalar') for x in vs]
        d[txt(ent['k'])] = vs[0] if ent['shape'] == 'scalar' else vs
    e = {'op': 'render', 'q': [], 'kb': False, 'csv': False, 'entries': [], 'err': False, 'export': False,
         'm': m, 'cl': cl, 'prefix': prefix, 'shown': repr(d)[:200], 'meta': {'typed': typed}}
    try:
        s = falcon.to_query_str(d, comma_delimited_lists=cl, prefix=prefix)
        if not isinstance(s, str):
            raise TypeError(type(s))
        e['q'] = cps(s)
    except Exception as ex:
        e['err'] = True
        e['exc'] = repr(ex)[:200]
    return e, d


class Sentinel:
    def __repr__(self):
        return '<default>'


class RecDict(dict):
    """The caller's store dict, shared by the calls of a history; logs every write."""

    def __init__(self):
        super().__init__()
        self.writes = []

    def __setitem__(self, k, v):
        self.writes.append((k, v))
        super().__setitem__(k, v)


def getter_event(req, name, call, present, convs, zero=False, shared=None):
    """One getter call on a real request -> event for ParamGettersTrace.  `shared`: the RecDict the
    calls of a history share as store (used when the call passes a store).  e['ret'] keeps a returned
    list so that the caller can edit it afterwards."""
    import falcon
    kind = call['kind']
    dflt = Sentinel()
    store = (shared if shared is not None else RecDict()) if call['store'] else None
    if store is not None:
        del store.writes[:]
    kw = {'required': call['required']}
    if call['hasdef']:
        kw['default'] = dflt
    if store is not None:
        kw['store'] = store
    scale = 1000.0 if kind == 'float' else 1
    if call['hasmin']:
        kw['min_value'] = call['min'] / scale if kind == 'float' else call['min']
    if call['hasmax']:
        kw['max_value'] = call['max'] / scale if kind == 'float' else call['max']
    if kind == 'bool':
        kw['blank_as_true'] = call['bat']
    if kind == 'list_int':
        kw['transform'] = int
    meth = {'str': 'get_param', 'int': 'get_param_as_int', 'float': 'get_param_as_float', 'bool': 'get_param_as_bool',
            'uuid': 'get_param_as_uuid', 'datetime': 'get_param_as_datetime', 'date': 'get_param_as_date',
            'json': 'get_param_as_json', 'list': 'get_param_as_list', 'list_int': 'get_param_as_list', 'has': 'has_param'}[kind]
    e = {'present': present, 'zero': zero, 'convs': convs, 'call': call, 'res': 'none', 'v': 0, 'vs': [], 'stored': False,
         'sv': 0, 'svs': [], 'mapsame': True, 'exc': '', 'ret': None}
    try:
        if kind == 'has':
            r = req.has_param(name)
            if not isinstance(r, bool):
                raise TypeError('has_param returned %r' % (r,))
            e['res'], e['v'], e['shown'] = 'value', int(r), repr(r)
            return e
        r = getattr(req, meth)(name, **kw)
        e['shown'] = repr(r)[:80]
        if r is dflt:
            e['res'] = 'default'
        elif r is None:
            e['res'] = 'none'
        else:
            e['res'] = 'value'
            if kind in ('list', 'list_int'):
                e['vs'] = [project('str' if kind == 'list' else 'int', x) for x in r]
                e['ret'] = r if isinstance(r, list) else None
            else:
                e['v'] = project(kind, r)
        if store is not None and store.writes:
            if [k for k, _ in store.writes] != [name]:
                raise AssertionError('store written under other keys / more than once: %r' % (store.writes,))
            e['stored'] = True
            if kind in ('list', 'list_int'):
                e['svs'] = [project('str' if kind == 'list' else 'int', x) for x in store.writes[0][1]]
            else:
                e['sv'] = project(kind, store.writes[0][1])
    except falcon.HTTPMissingParam:
        e['res'] = 'missing'
    except falcon.HTTPInvalidParam:
        e['res'] = 'invalid'
    except falcon.HTTPBadRequest as ex:
        e['res'] = 'other400'
        e['exc'] = repr(ex)[:200]
    except Unrepresentable:
        return None
    except Exception as ex:
        e['res'] = 'crash'
        e['exc'] = repr(ex)[:200]
    if store is not None and e['res'] != 'value' and store.writes:
        e['stored'] = True
    return e


# ---------------------------------------------------------------------------------------------
# TLC as judge
# ---------------------------------------------------------------------------------------------
def run_judge(ctx, module, traces, chunk=1500, workers=8):
    """-> ([(verdict, index) per trace], [exported JSON objects])."""
    verdicts, exported = [], []
    for off in range(0, len(traces), chunk):
        part = traces[off:off + chunk]
        path = os.path.join(ctx.scratch, 'tr-%s-%d.json' % (module, off))
        with open(path, 'w') as f:
            _json.dump(part, f)
        r = ctx.tlc(module, env={'TRACE_FILE': path, 'JAVA_TOOL_OPTIONS': '-Xss256m'}, workers=workers, timeout=1500)
        got = {}
        for t, fields in r.tuples:
            if t == 'VERDICT':
                got[fields[0]] = (fields[1], fields[2])
        for i in range(len(part)):
            if i + 1 not in got:
                raise MachineryError('%s printed no verdict for trace %d\n%s' % (module, i + 1, r.out[-2000:]))
            verdicts.append(got[i + 1])
        for j in r.json:
            j['tid'] += off
            exported.append(j)
        os.unlink(path)
    ctx.traces_validated += len(traces)
    return verdicts, exported


def strip(e):
    return {k: v for k, v in e.items() if k not in ('exc', 'meta', 'shown', 'ret')}


def judge_each(ctx, module, events, per=25, cap=300):
    """One verdict clause per event ('ok' or the failing clause).  Events after a failing one in a
    batch are re-judged singly, at most `cap` of them (verdict None = not judged: with that many
    failures naming every one adds nothing).  Also returns the exports keyed by event index."""
    verdict = [None] * len(events)
    exports = {}
    groups = [list(range(i, min(i + per, len(events)))) for i in range(0, len(events), per)]
    for rnd in (1, 2):
        if not groups:
            break
        vs, ex = run_judge(ctx, module, [{'ev': [strip(events[j]) for j in g]} for g in groups])
        for x in ex:
            g = groups[x['tid'] - 1]
            exports[g[x['l'] - 1]] = x
        nxt = []
        for g, (v, idx) in zip(groups, vs):
            if v == 'ok':
                for j in g:
                    verdict[j] = 'ok'
            else:
                for j in g[:idx - 1]:
                    verdict[j] = 'ok'
                verdict[g[idx - 1]] = v
                nxt += [[j] for j in g[idx:]]
        groups = nxt[:cap]
    return verdict, exports


def describe_parse(e):
    d = {}
    for ent in e['entries']:
        d[txt(ent['k'])] = [txt(x) for x in ent['v']] if ent['shape'] == 'list' else txt(ent['v'][0]) if ent['v'] else None
    return 'query %r keep_blank=%s csv=%s -> %s %s' % (txt(e['q']), e['kb'], e['csv'],
                                                       'raised' if e['err'] else d, e.get('exc', ''))


def report_parse(ctx, clause, e, surface, origin):
    case = {'kind': 'parse', 'surface': surface, 'q': e['q'], 'kb': e['kb'], 'csv': e['csv'], 'origin': origin,
            'text': txt(e['q']).encode('unicode_escape').decode()}
    what = '[%s] %s' % (surface, describe_parse(e))
    if clause.startswith('D:'):
        ctx.detail(clause, case, what)
    elif clause.startswith('H:'):
        raise MachineryError('judge rejected harness input: %s %s' % (clause, what))
    else:
        ctx.violation(clause, case, what)


def report_getter(ctx, clause, e, origin):
    meta = e['meta']
    case = {'kind': 'getter', 'surface': meta['surface'], 'q': cps(meta['q']), 'kb': meta['kb'], 'csv': meta['csv'],
            'name': cps(meta['name']), 'call': e['call'], 'origin': origin,
            'text': meta['q'].encode('unicode_escape').decode()}
    what = '[%s] query %r keep_blank=%s csv=%s: %s getter(%r, %s) -> %s v=%s vs=%s stored=%s %s' % (
        meta['surface'], meta['q'], meta['kb'], meta['csv'], e['call']['kind'], meta['name'],
        ','.join('%s=%s' % (k, v / 1000.0 if k in ('min', 'max') and e['call']['kind'] == 'float' else v)
                 for k, v in e['call'].items() if v and k != 'kind'),
        e['res'], e.get('shown', ''), e['vs'], e['stored'], e['exc'])
    if clause.startswith('H:'):
        raise MachineryError('judge rejected harness input: %s %s' % (clause, what))
    if clause.startswith('D:'):
        ctx.detail(clause, case, what)
    else:
        ctx.violation(clause, case, what)


def report_render(ctx, clause, e, origin):
    case = {'kind': 'render', 'm': e['m'], 'cl': e['cl'], 'prefix': e['prefix'], 'origin': origin,
            'typed': e.get('meta', {}).get('typed', False)}
    what = 'to_query_str(%s, comma_delimited_lists=%s, prefix=%s) -> %r %s' % (
        e.get('shown') or [(txt(x['k']), [txt(v) for v in x['v']], x['shape']) for x in e['m']], e['cl'], e['prefix'],
        txt(e['q']), e.get('exc', ''))
    if clause.startswith('D:'):
        ctx.detail(clause, case, what)
    else:
        ctx.violation(clause, case, what)


# ---------------------------------------------------------------------------------------------
def random_call(rng, kind):
    c = {'kind': kind, 'required': rng.random() < 0.4, 'hasdef': rng.random() < 0.5, 'store': rng.random() < 0.5,
         'hasmin': False, 'min': 0, 'hasmax': False, 'max': 0, 'bat': False}
    if kind in ('int', 'float'):
        grid = (0, 1, 3, 4, 10, 41, 100) if kind == 'int' else (0, 500, 1000, 3000, 4000, 41000)
        if rng.random() < 0.5:
            c['hasmin'], c['min'] = True, rng.choice(grid)
        if rng.random() < 0.5:
            c['hasmax'], c['max'] = True, rng.choice(grid)
    if kind == 'bool':
        c['bat'] = rng.random() < 0.5
    if kind == 'has':
        c['required'] = c['hasdef'] = c['store'] = False
    return c


def edit_returned_list(e, entries_before, name):
    """Between two calls of a history the caller edits the list a list getter returned.  Only where
    the list cannot legitimately be the request's own one: the mapping held a scalar (or nothing) for the
    name, or a transform was applied.  (For a repeated name falcon documents nothing and returns its
    internal list; that is noted in the report, not judged.)"""
    r = e.get('ret')
    if r is None:
        return
    held = [x for x in entries_before if txt(x['k']) == name]
    if e['call']['kind'] == 'list_int' or not held or held[0]['shape'] == 'scalar':
        r.append('31337' if e['call']['kind'] == 'list' else 31337)
        r[0:1] = []


def getter_events_for(ctx, rng, surface, req, q, kb, csv, spec_entries, spec_zero, impl_entries, kinds, events, origin):
    """A history of getter calls on ONE real request: for every name of the reference reading, every
    name the code reports, and an absent one.  After every call the request's mapping is read again
    (it must be what it was before the history) and a returned list is edited by the caller."""
    spec = {txt(x['k']): [txt(v) for v in x['v']] for x in spec_entries}
    zero = {txt(k) for k in spec_zero}          # names present with zero values (reference reading)
    names = list(dict.fromkeys(list(spec) + sorted(zero) + [txt(x['k']) for x in impl_entries] + [ABSENT]))
    shared = RecDict()
    steps = [(name, kind) for name in names for kind in kinds]
    rng.shuffle(steps)
    for name, kind in steps:
        vals = spec.get(name)
        call = random_call(rng, kind)
        try:
            convs = [refconv(kind, v) for v in vals] if vals and kind != 'has' else []
        except Unrepresentable:
            continue
        if kind not in ('list', 'list_int'):
            convs = convs[-1:] if convs else []      # (the judge needs the last one only; keeps events small)
        shared.clear()
        e = getter_event(req, name, call, vals is not None, convs, name in zero, shared)
        if e is None:
            continue
        edit_returned_list(e, impl_entries, name)
        try:
            e['mapsame'] = entries_of(req.params) == impl_entries
        except Exception:
            e['mapsame'] = False
        e['meta'] = {'surface': surface, 'q': q, 'kb': kb, 'csv': csv, 'name': name, 'origin': origin}
        k = digest([e['present'], e['zero'], e['convs'], e['call'], e['res'], e['v'], e['vs'], e['stored'], e['sv'],
                    e['svs'], e['mapsame']])
        ctx.case(None, nontrivial=any(c in q for c in '%+,') or len(vals or ()) > 1, key=('g', surface, q, kb, csv, name, kind))
        events.setdefault(k, e)


def has_repeat(entries):
    return any(len(x['v']) > 1 for x in entries)


def run(ctx):
    ctx.rule = ('case = (surface, query string, keep_blank, csv[, name, getter call]) or (mapping, comma_delimited_lists); '
                'non-trivial iff the string contains "%", "+", "," or a repeated name; distinct by the case itself')
    ctx.trusted_base = ['TLC evaluation of spec/QueryStringOps.tla, spec/ParamGettersOps.tla',
                        'int, float, uuid.UUID, datetime.strptime, json.loads as reference conversions',
                        "urllib.parse.quote for building query strings from pool values"]
    ctx.assumptions = ['query strings are sequences of Unicode scalar values; on WSGI the text is QUERY_STRING itself',
                       'boolean strings are the ones documented for get_param_as_bool',
                       'shape (scalar vs list) and key order are model detail (D-clauses); unconstrained when a '
                       'comma-separated value was dropped as a whole',
                       'a name whose comma-separated value had blank elements only (all dropped) is "present with zero '
                       'values": the mapping may hold it as an empty list or omit it, has_param may say either, '
                       'get_param_as_list may return [] or behave as for an absent name; every scalar getter MUST '
                       'behave as for an absent name (P-clause)',
                       'to_query_str round trip: non-empty names; an empty list has no comma-delimited rendering',
                       'Cython twin falcon/cyutil/uri.pyx: stale-or-absent, not checked (Cython unavailable)']
    rng = ctx.rng
    import urllib.parse
    import falcon
    from falcon import uri

    # ---- leg M (+ export for A): query strings ---------------------------------------------------
    r = ctx.tlc('MC_QueryString', ctx.pick('MC_QueryStringQ.cfg', 'MC_QueryString.cfg'), coverage=True, workers=6,
                timeout=900)
    ctx.require_coverage(r, ['XParse'])
    rt = ctx.tlc('MC_QueryString', ctx.pick('MC_QueryStringRTQ.cfg', 'MC_QueryStringRT.cfg'), coverage=True, workers=6,
                 timeout=900)
    ctx.require_coverage(rt, ['XRender', 'XReparse'])
    if not ctx.quick:        # vacuity: the wrong-design switch must be rejected (thorough tier only: two JVM starts)
        bad = ctx.tlc('MC_QueryString', 'MC_QueryStringBad.cfg', must_hold=False, count=False, workers=2, timeout=120)
        if bad.violated not in ('RoundTrip', 'RoundTripNoBlanks'):
            raise MachineryError('vacuity: decode-before-split design not rejected (%r)' % (bad.violated,))
    ctx.exhaustive = True
    parse_cases = [c for c in r.json if c['phase'] == 'parsed']
    if not ctx.quick:        # next bound up: length 5 over the structural symbols
        r5 = ctx.tlc('MC_QueryString', 'MC_QueryString5.cfg', coverage=True, workers=6, timeout=1200)
        seen5 = {(tuple(c['q']), c['kb'], c['csv']) for c in parse_cases}
        parse_cases += [c for c in r5.json if c['phase'] == 'parsed' and (tuple(c['q']), c['kb'], c['csv']) not in seen5]
    if len(parse_cases) < r.distinct * 3 // 5:
        raise MachineryError('Emit produced %d parse cases for %d states' % (len(parse_cases), r.distinct))
    ctx.progress('leg M (query strings): %d + %d states; %d parse cases, %d render/reparse cases'
                 % (r.distinct, rt.distinct, len(parse_cases), len(rt.json)))

    # ---- leg A: parse cases on three surfaces ------------------------------------------------------
    suspects = []            # (event, surface) where code and spec differ -> TLC names the clause
    gevents = {}
    typed = [k for k in KINDS if k not in ('str', 'list', 'has')]
    gsample = ctx.pick(3, 8)
    for n, c in enumerate(parse_cases):
        q = txt(c['q'])
        nontriv = any(x in q for x in '%+,') or has_repeat(c['entries'])
        for surface in ('func', 'wsgi', 'asgi'):
            if surface != 'func' and not q:
                continue                 # (an empty query string never reaches the parser)
            e, req = parse_event(surface, q, c['kb'], c['csv'])
            if e is None:
                continue
            ctx.case({'surface': surface, 'q': c['q'], 'kb': c['kb'], 'csv': c['csv']}, nontrivial=nontriv,
                     key=(surface, q, c['kb'], c['csv']))
            if e['err'] or e['entries'] != c['entries']:
                suspects.append((e, surface))
            if req is not None and (n % gsample == 0 or c['blankcsv'] or len(q) > 12):
                kinds = ['str', 'list', 'has', typed[(n // gsample) % len(typed)]]
                if len(q) > 12:          # (the hand-picked long ones: >= 8 '%' tokens in one name/value)
                    kinds = ['str', 'list', 'has', 'int', 'float', 'list_int']
                getter_events_for(ctx, rng, surface, req, q, c['kb'], c['csv'], c['entries'], c['zero'], e['entries'], kinds,
                                  gevents, 'enumerated query string')
    ctx.traces_validated += len(parse_cases)
    ctx.progress('leg A (parse): %d cases x surfaces replayed, %d differ; %d distinct getter events recorded'
                 % (len(parse_cases), len(suspects), len(gevents)))
    if suspects:
        uniq = list({digest([strip(e), s]): (e, s) for e, s in suspects}.values())[:1500]
        vs, _ = judge_each(ctx, 'QueryStringTrace', [e for e, _ in uniq], per=10)
        for (e, s), v in zip(uniq, vs):
            if v is not None and v != 'ok':
                report_parse(ctx, v, e, s, 'leg A (TLC-computed case)')

    # ---- leg A: to_query_str -------------------------------------------------------------------------
    rsus = []
    rtsus = []
    nren = 0
    rendered = {}
    for c in rt.json:
        if c['phase'] == 'rendered':
            hastyped = any(txt(x) in TYPED or txt(x) in TYPED_SCALAR_ONLY for ent in c['m'] for x in ent['v'])
            for prefix, as_obj in ((False, False), (True, False)) + (((False, True), (True, True)) if hastyped else ()):
                e, d = render_event(c['m'], c['cl'], prefix, as_obj)
                nren += 1
                ctx.case({'m': c['m'], 'cl': c['cl']}, nontrivial=True, key=('r', digest(c['m']), c['cl'], prefix, as_obj))
                want = ([63] if prefix and c['q'] else []) + c['q']
                if e['err'] or e['q'] != want:
                    rsus.append(e)
                if not prefix and not e['err']:
                    rendered.setdefault((digest(c['m']), c['cl']), []).append(txt(e['q']))
    for c in rt.json:
        if c['phase'] == 'reparsed':
            # the property names both ends: falcon renders (values as text, and as objects), falcon reads back;
            # TLC says what must come back
            for s in dict.fromkeys(rendered.get((digest(c['m']), c['cl']), ())):
                e, _ = parse_event('func', s, c['kb'], c['csv'])
                nren += 1
                ctx.case(None, nontrivial=True, key=('rr', digest(c['m']), c['cl'], c['kb'], c['csv'], s))
                if e['err'] or e['entries'] != c['entries']:
                    rtsus.append((e, c['m']))
    if rtsus:
        vs, _ = judge_each(ctx, 'QueryStringTrace', [e for e, _ in rtsus[:600]], per=10)
        for (e, m), v in zip(rtsus, vs):
            if v is not None and v != 'ok':
                report_parse(ctx, v if v != 'P:params' else 'P:roundtrip', e, 'func',
                             'to_query_str output read back (mapping %s)' % (m,))
    ctx.traces_validated += len(rt.json)
    if rsus:
        vs, _ = judge_each(ctx, 'QueryStringTrace', rsus[:800], per=10)
        for e, v in zip(rsus, vs):
            if v is not None and v != 'ok':
                report_render(ctx, v, e, 'leg A (TLC-computed case)')
    ctx.progress('leg A (to_query_str): %d calls, %d renderings differ' % (nren, len(rsus)))

    # ---- leg M + A: getter protocol over a value pool ---------------------------------------------
    # (the numeric strings include the candidate bounds 0 / 10 / 7.0 themselves: boundary cases)
    # (JSON texts with 2-, 3- and 4-octet characters inside strings and as object keys: the octet length of
    #  the text differs from its character count; they reach the request percent-encoded)
    pool = ['', '-3', '0', '10', '7.0', 'abc', 'true', '0a5b8f3c-9a1e-4c7d-8b2f-1f2e3d4c5b6a', '2024-02-29',
            '{"€😀": "Zürich"}', '{"city":"Zürich"}', '"你好"', '["😀", {"ключ": "é"}]',
            '12', '1.5', ' 7 ', 'no', '1e1', '41', '2024-02-29T12:30:45+0100', '{"a": [1, 2]}', '"x"',
            'é,&=+%', '１２', '9999999999999', '2024-02-30']
    if ctx.quick:
        pool = pool[:10]
    table = {'nv': len(pool), 'conv': {}}
    unrep = set()            # (kind, value index) the abstraction cannot represent: those cases are not replayed
    for kind in ('str', 'int', 'float', 'bool', 'uuid', 'datetime', 'date', 'json'):
        col = []
        for i, s in enumerate(pool):
            try:
                col.append(refconv(kind, s))
            except Unrepresentable:
                col.append({'ok': True, 'v': TOKBASE - 1})
                unrep.add((kind, i + 1))
        table['conv'][kind] = col
    cpath = os.path.join(ctx.scratch, 'conv.json')
    with open(cpath, 'w') as f:
        _json.dump(table, f)
    # (TLC's -coverage nearly doubles the time of this instance; the quick tier guards against vacuity with what the
    #  actions themselves exported instead: every getter kind must have produced cases)
    rg = ctx.tlc('MC_ParamGetters', 'MC_ParamGetters.cfg', coverage=not ctx.quick, workers=8, timeout=900,
                 env={'CONV_FILE': cpath})
    if ctx.quick:
        fired = {c['call']['kind'] for c in rg.json}
        if fired != set(KINDS):
            raise MachineryError('vacuous model run: getter kinds never called: %s' % sorted(set(KINDS) - fired))
    else:
        ctx.require_coverage(rg, ['XGetParam', 'XGetInt', 'XGetFloat', 'XGetBool', 'XGetUuid', 'XGetDatetime', 'XGetDate',
                                  'XGetJson', 'XGetList', 'XGetListInt', 'XHasParam'])
    if not ctx.quick:
        badg = ctx.tlc('MC_ParamGetters', 'MC_ParamGettersBad.cfg', must_hold=False, count=False, workers=2, timeout=120,
                       env={'CONV_FILE': cpath})
        if badg.violated not in ('GetterNeverMisreports', 'LastOccurrenceOnly'):
            raise MachineryError('vacuity: first-occurrence design not rejected (%r)' % (badg.violated,))
    ctx.progress('leg M (getters): %d states, %d cases' % (rg.distinct, len(rg.json)))
    gsus = []
    reqcache = {}
    groups = {}              # (present, zero, vals, call) -> the outcomes TLC accepts (several for a zero-values name)
    for c in rg.json:
        groups.setdefault(digest([c['present'], c['zero'], c['vals'], c['call']]), [c, []])[1].append(c['last'])
    for c, accepted in groups.values():
        vals = [pool[i - 1] for i in c['vals']]
        # a name present with zero values: 'p=,' read with CSV parsing on and blanks dropped
        q, kb, csv = ('p=,', False, True) if c['zero'] else \
            ('&'.join('p=' + urllib.parse.quote(v, safe='') for v in vals), True, False)
        call = c['call']
        kind = call['kind']
        ck = 'int' if kind == 'list_int' else 'str' if kind == 'list' else kind
        if kind != 'has' and any((ck, i) in unrep for i in c['vals']):
            continue
        for surface in ('wsgi', 'asgi'):
            key = (surface, q)
            if key not in reqcache:      # one request object serves all the cases on its query string: a long history
                rq = make_request(surface, q, kb, csv)
                reqcache[key] = (rq, entries_of(rq.params))
            req, before = reqcache[key]
            convs = [table['conv'][ck][i - 1] for i in c['vals']] if kind != 'has' else []
            e = getter_event(req, 'p', call, c['present'], convs, c['zero'])
            if e is None:
                continue
            edit_returned_list(e, before, 'p')
            e['mapsame'] = entries_of(req.params) == before
            ctx.case(None, nontrivial=len(vals) > 1 or any(x in q for x in '%+,'), key=('gp', surface, q, digest(call)))
            same = any(e['res'] == w['res'] and e['stored'] == w['stored'] and
                       (w['res'] != 'value' or (e['v'] == w['v'] and e['vs'] == w['vs'])) and
                       (not w['stored'] or (e['sv'] == w['v'] and e['svs'] == w['vs'])) for w in accepted) \
                and e['mapsame']
            if not same:
                e['meta'] = {'surface': surface, 'q': q, 'kb': kb, 'csv': csv, 'name': 'p', 'origin': 'pool'}
                gsus.append(e)
    ctx.traces_validated += len(rg.json)
    ctx.progress('leg A (getters): %d cases x 2 surfaces replayed, %d differ' % (len(rg.json), len(gsus)))
    if gsus:
        uniq = list({digest(strip(e)): e for e in gsus}.values())[:1500]
        vs, _ = judge_each(ctx, 'ParamGettersTrace', uniq, per=10)
        for e, v in zip(uniq, vs):
            if v is None:
                continue
            if v == 'ok':
                raise MachineryError('replay and judge disagree on %r' % (strip(e),))
            report_getter(ctx, v, e, 'leg A (TLC-computed case)')

    # ---- leg M + A: histories of getter calls on one request ---------------------------------------
    rh2 = ctx.tlc('MC_ParamGetters', 'MC_ParamGettersH.cfg', coverage=True, workers=6, timeout=600, env={'CONV_FILE': cpath})
    ctx.require_coverage(rh2, ['XGetParam', 'XGetInt', 'XGetList', 'XGetListInt', 'XHasParam'])
    rs = ctx.tlc('MC_ParamGetters', 'MC_ParamGettersSim.cfg', simulate={'num': ctx.pick(6, 60)}, depth=4, seed=ctx.seed + 1,
                 workers=4, timeout=600, count=False, env={'CONV_FILE': cpath})
    hist = list({digest(b): b for b in rs.json}.values())
    rng.shuffle(hist)
    hist = hist[:ctx.pick(1200, 25000)]
    hsus = []
    ncalls = 0
    for b in hist:
        vals = [pool[i - 1] for i in b['vals']]
        q, kb, csv = ('p=,', False, True) if b['zero'] else \
            ('&'.join('p=' + urllib.parse.quote(v, safe='') for v in vals), True, False)
        if not b['present'] and not b['zero']:
            q = 'other=1'
        skip = False
        for st in b['ev']:
            kind = st['call']['kind']
            ck = 'int' if kind == 'list_int' else 'str' if kind == 'list' else kind
            if kind != 'has' and any((ck, i) in unrep for i in b['vals']):
                skip = True
        if skip:
            continue
        for surface in ('wsgi', 'asgi'):
            req = make_request(surface, q, kb, csv)          # a fresh request object per history
            before = entries_of(req.params)
            shared = RecDict()
            for st in b['ev']:
                call = st['call']
                kind = call['kind']
                ck = 'int' if kind == 'list_int' else 'str' if kind == 'list' else kind
                convs = [table['conv'][ck][i - 1] for i in b['vals']] if kind != 'has' else []
                e = getter_event(req, 'p', call, b['present'], convs, b['zero'], shared)
                if e is None:
                    break
                edit_returned_list(e, before, 'p')
                e['mapsame'] = entries_of(req.params) == before
                ncalls += 1
                w = st['last']
                same = e['mapsame'] and e['res'] == w['res'] and e['stored'] == w['stored'] and \
                    (w['res'] != 'value' or (e['v'] == w['v'] and e['vs'] == w['vs'])) and \
                    (not w['stored'] or (e['sv'] == w['v'] and e['svs'] == w['vs']))
                if not same:
                    e['meta'] = {'surface': surface, 'q': q, 'kb': kb, 'csv': csv, 'name': 'p',
                                 'origin': 'history %s' % [s['call']['kind'] for s in b['ev']]}
                    hsus.append(e)
            ctx.case(None, nontrivial=True, key=('h', surface, digest(b)))
    ctx.traces_validated += len(hist)
    ctx.extra['getter_histories_replayed'] = len(hist)
    ctx.progress('leg A (getter histories): %d TLC histories x 2 surfaces, %d calls, %d differ' % (len(hist), ncalls, len(hsus)))
    if hsus:
        uniq = list({digest(strip(e)): e for e in hsus}.values())[:1500]
        vs, _ = judge_each(ctx, 'ParamGettersTrace', uniq, per=10)
        for e, v in zip(uniq, vs):
            if v is not None and v != 'ok':          # ('ok': another acceptable outcome of a zero-values name)
                report_getter(ctx, v, e, 'leg A (TLC-computed %s)' % e['meta']['origin'])

    # ---- leg B: random longer query strings ----------------------------------------------------------
    names = ['a', 'b', 'a', '%61', 'é', 'a%20b', '', 'id', 'a+b', '%C3%A9', 'x%', 'q']
    values = ['', '', '1', '12', '-3', '+7', '%31%32', '1.5', '.5', '1e2', 'true', 'True', 'no', 'on', 'maybe',
              '0a5b8f3c-9a1e-4c7d-8b2f-1f2e3d4c5b6a', '{0a5b8f3c9a1e4c7d8b2f1f2e3d4c5b6a}', '2024-02-29', '2024-13-01',
              '2024-02-29T12:30:45%2B0100', '2024-02-29T12:30:45Z', '%7B%22a%22%3A1%7D',
              '%7B%22city%22%3A%22Z%C3%BCrich%22%7D', '%22%E2%82%AC%22', '%5B%22%F0%9F%98%80%22%5D', '"é"', '{"ü":1}', '[1,2]', '%22x%22', 'nul', 'abc',
              'a%2Cb', '%2c', 'x%ZZ', '%', '%4', '%C3%A9', '%C3', '%FF', 'é', '😀', '%00', 'a=b', '==', '１２', '1_0',
              ' 1', '1%20', '0x10', '1,2', ',', ',,', '1,', ',2', '1,,3', '%2C,%2c']
    alpha = [chr(x) for x in (38, 61, 44, 43, 37, 52, 49, 67, 51, 97, 71, 0, 233)]

    HEXD = '0123456789abcdefABCDEF'
    MALFORMED = ('%1', '%a', '%+9', '%-9', '% 9', '%zz', '%', '%%', '%0x9', '%9+', '%1%', '%g1')

    def long_escaped():
        """one name/value with >= 8 '%' tokens: well-formed escapes mixed with malformed ones"""
        parts = ['%3' + rng.choice('0123456789') for _ in range(rng.randint(7, 10))]
        if rng.random() < 0.3:
            parts += ['%' + rng.choice(HEXD) + rng.choice(HEXD) for _ in range(rng.randint(1, 3))]
        for _ in range(rng.randint(1, 2)):
            parts.insert(rng.choice((len(parts), len(parts), 0, rng.randrange(len(parts) + 1))), rng.choice(MALFORMED))
        return ''.join(parts)

    def rand_qs():
        t = rng.random()
        if t < 0.12:
            v = long_escaped()
            return rng.choice(('n=' + v, v + '=1', 'n=1&n=' + v, 'n=4,' + v, 'a=b&' + v + '=' + long_escaped()))
        if t < 0.25:
            return ''.join(rng.choice(alpha) for _ in range(rng.randint(5, rng.choice((6, 9, 14, 40)))))
        fields = []
        for _ in range(rng.randint(1, rng.choice((2, 3, 5, 9)))):
            u = rng.random()
            k = rng.choice(names)
            v = rng.choice(values)
            if u < 0.7:
                fields.append(k + '=' + v)
            elif u < 0.8:
                fields.append(k + '=' + ','.join(rng.choice(values) for _ in range(rng.randint(2, 4))))
            elif u < 0.87:
                fields.append(k)
            elif u < 0.92:
                fields.append('')
            else:
                fields.append(''.join(rng.choice(alpha) for _ in range(rng.randint(1, 7))))
        return '&'.join(fields)

    nrand = ctx.pick(400, 12000)
    pevents, preqs = [], []
    seen = set()
    for i in range(nrand):
        q = rand_qs()
        kb, csv = rng.random() < 0.5, rng.random() < 0.5
        if not q or (q, kb, csv) in seen:
            continue
        seen.add((q, kb, csv))
        for surface in ('func', 'wsgi', 'asgi'):
            e, req = parse_event(surface, q, kb, csv, export=(surface == 'func'))
            if e is None:
                continue
            pevents.append(e)
            preqs.append((surface, req, q, kb, csv))
            ctx.case({'surface': surface, 'q': cps(q)[:80], 'kb': kb, 'csv': csv, 'origin': 'random'},
                     nontrivial=any(x in q for x in '%+,') or q.count('&') > 0, key=(surface, q, kb, csv))
    ctx.progress('leg B: %d parse calls recorded' % len(pevents))
    vs, exports = judge_each(ctx, 'QueryStringTrace', pevents, per=20)
    specs = {}
    for j, x in exports.items():
        _, _, q, kb, csv = preqs[j]
        specs[(q, kb, csv)] = x
    for j, (e, v) in enumerate(zip(pevents, vs)):
        if v is not None and v != 'ok':
            report_parse(ctx, v, e, preqs[j][0], 'leg B (recorded call)')
    # getter calls on the random requests, judged against the exported reference reading
    for j, (surface, req, q, kb, csv) in enumerate(preqs):
        if req is None or (q, kb, csv) not in specs or pevents[j]['err']:
            continue
        kinds = ['str', 'list', 'has'] + rng.sample(typed, 3)
        getter_events_for(ctx, rng, surface, req, q, kb, csv, specs[(q, kb, csv)]['entries'], specs[(q, kb, csv)]['zero'],
                          pevents[j]['entries'],
                          kinds, gevents, 'random query string')
    gl = list(gevents.values())
    ctx.progress('leg B: %d distinct getter events to judge' % len(gl))
    vs, _ = judge_each(ctx, 'ParamGettersTrace', gl, per=40)
    for e, v in zip(gl, vs):
        if v is not None and v != 'ok':
            report_getter(ctx, v, e, 'leg B (%s)' % e['meta']['origin'])

    # random mappings through to_query_str, judged (alphabet, round trip by the reference reading)
    mnames = ['a', 'b c', 'é', 'k=', 'x&y', '%41', 'n,', '~-._', 'a/b?c#d']
    mvals = ['', '1', 'a,b', '&=', '%41+ ', 'é', ',', '😀', 'x y', '%', '~', '\x00', 'a=b&c=d', '+', 'A-Z_a.z~'] + \
        list(TYPED) + list(TYPED_SCALAR_ONLY)
    revents = []
    for i in range(ctx.pick(300, 6000)):
        m = []
        for k in rng.sample(mnames, rng.randint(1, 4)):
            if rng.random() < 0.5:
                m.append({'k': cps(k), 'v': [cps(rng.choice(mvals))], 'shape': 'scalar'})
            else:
                m.append({'k': cps(k), 'v': [cps(rng.choice(mvals)) for _ in range(rng.randint(0, 4))], 'shape': 'list'})
        e, d = render_event(m, rng.random() < 0.5, rng.random() < 0.5, typed=rng.random() < 0.6)
        revents.append(e)
        ctx.case({'m': m, 'cl': e['cl']}, nontrivial=True, key=('rm', digest(m), e['cl'], e['prefix']))
        if not e['err']:
            # both ends in falcon: read the rendering back with the matching options
            s = txt(e['q'])[1:] if e['prefix'] and e['q'][:1] == [63] else txt(e['q'])
            pe, _ = parse_event('func', s, True, e['cl'])
            pevents.append(pe)
            claim = all(x['k'] for x in m) and (not e['cl'] or all(x['v'] for x in m))
            if claim:
                back = {txt(x['k']): [txt(v) for v in x['v']] for x in pe['entries']}
                want = {txt(x['k']): [txt(v) for v in x['v']] for x in m if x['v']}
                if pe['err'] or back != want:
                    ctx.violation('P:roundtrip', {'kind': 'render', 'm': m, 'cl': e['cl'], 'prefix': e['prefix']},
                                  'to_query_str(%r) = %r reads back as %r' % (d, txt(e['q']), back))
    vs, _ = judge_each(ctx, 'QueryStringTrace', revents, per=20)
    for e, v in zip(revents, vs):
        if v is not None and v != 'ok':
            report_render(ctx, v, e, 'leg B (recorded call)')
    ctx.progress('leg B: %d to_query_str calls judged' % len(revents))

    # ---- request pairs: what was done to one request must not show in another ---------------------
    import io
    import warnings
    FORM = b'page=9&token=s3cret&a=POISON&x=POISON'
    MUT = {'op': 'mutate', 'q': [], 'kb': False, 'csv': False, 'entries': [], 'err': False, 'export': False,
           'm': [], 'cl': False, 'prefix': False}

    def spoil(req, mode):
        """what a responder may do to ITS OWN request"""
        if mode == 'list':
            for name in list(req.params):
                lst = req.get_param_as_list(name)
                if isinstance(lst, list):
                    lst.append('POISON')
                    lst[0:1] = ['X']
        elif mode == 'inner':
            for v in req.params.values():
                if isinstance(v, list):
                    v.append('POISON')
        elif mode == 'params':
            for name in list(req.params):
                req.params[name] = 'POISON'
            req.params['token'] = 's3cret'

    def form_request(q, kb, csv):
        import falcon
        opts = falcon.RequestOptions()
        opts.keep_blank_qs_values, opts.auto_parse_qs_csv = kb, csv
        with warnings.catch_warnings():
            warnings.simplefilter('ignore')
            opts.auto_parse_form_urlencoded = True
        env = dict(_bases()['env'])
        env.update({'REQUEST_METHOD': 'POST', 'QUERY_STRING': q, 'CONTENT_TYPE': 'application/x-www-form-urlencoded',
                    'CONTENT_LENGTH': str(len(FORM)), 'wsgi.input': io.BytesIO(FORM)})
        return falcon.Request(env, options=opts)

    class Keep:                      # responder: spoils its request in the given way, keeps the object
        def __init__(self, mode):
            self.mode, self.reqs = mode, []

        def on_get(self, req, resp):
            self.reqs.append(req)
            spoil(req, self.mode)

        on_post = on_get

    class AKeep(Keep):
        async def on_get(self, req, resp):
            self.reqs.append(req)
            spoil(req, self.mode)

        on_post = on_get

    def make_app(surface, kb, csv, mode):
        import falcon
        import falcon.asgi
        app = falcon.App() if surface == 'wsgi' else falcon.asgi.App()
        app.req_options.keep_blank_qs_values, app.req_options.auto_parse_qs_csv = kb, csv
        if mode == 'form':
            with warnings.catch_warnings():
                warnings.simplefilter('ignore')
                app.req_options.auto_parse_form_urlencoded = True
        res = Keep(mode) if surface == 'wsgi' else AKeep(mode)
        app.add_route('/', res)
        return app, res

    def app_request(surface, app, res, q, post=False):
        rq = drivers.Req(method='POST' if post else 'GET',
                         query=q.encode('latin-1') if surface == 'wsgi' else q.encode('utf-8'),
                         headers=[('Content-Type', 'application/x-www-form-urlencoded')] if post else (),
                         body=FORM if post else b'')
        n = len(res.reqs)
        (drivers.wsgi_call if surface == 'wsgi' else drivers.asgi_call)(app, rq)
        return res.reqs[n] if len(res.reqs) > n else None

    pairq = ['page=2', 'x=7', 'a=1&a=2', 'a=1,2&x=7', 'tag=a%2Cb', 'n=%31%30%30%30%30%30%30%+9&a=', 'a=,&x=1'] + \
        [rand_qs() for _ in range(ctx.pick(6, 120))]
    pev, pmeta = [], []
    for q in pairq:
        if not q or any(ord(c) > 255 for c in q):
            continue
        for kb, csv in ((True, False), (False, True)) if ctx.quick else ((True, False), (False, True), (True, True), (False, False)):
            for surface in ('wsgi', 'asgi'):
                for mode in ('list', 'inner', 'params') + (('form',) if surface == 'wsgi' else ()):
                    for level in ('request', 'app'):
                        try:
                            if level == 'request':      # two Request objects in one process
                                r1 = form_request(q, kb, csv) if mode == 'form' else make_request(surface, q, kb, csv)
                                spoil(r1, mode)
                                second = [None]
                            else:                       # two application instances in one process, then the first again
                                app1, res1 = make_app(surface, kb, csv, mode)
                                app2, res2 = make_app(surface, kb, csv, 'none')
                                app_request(surface, app1, res1, q, post=(mode == 'form'))
                                res1.mode = 'none'
                                second = [app_request(surface, app2, res2, q), app_request(surface, app1, res1, q)]
                        except Exception as ex:
                            ctx.violation('P:exception', {'kind': 'pair', 'q': cps(q), 'kb': kb, 'csv': csv, 'surface': surface,
                                                          'mode': mode, 'level': level}, 'request pair raised %r' % (ex,))
                            continue
                        for given in second:
                            if level == 'app' and given is None:
                                continue
                            e, req = parse_event(surface, q, kb, csv, export=True, given=given)
                            pev.append(dict(MUT))
                            pmeta.append(None)
                            pev.append(e)
                            pmeta.append((surface, req, q, kb, csv, mode, level))
                            ctx.case({'pair': mode, 'level': level, 'surface': surface, 'q': cps(q), 'kb': kb, 'csv': csv},
                                     nontrivial=True, key=('pair', surface, q, kb, csv, mode, level, given is None or id(given)))
    vs, exports = judge_each(ctx, 'QueryStringTrace', pev, per=20)
    g2 = {}
    for j, (e, v) in enumerate(zip(pev, vs)):
        if pmeta[j] is None:
            continue
        surface, req, q, kb, csv, mode, level = pmeta[j]
        origin = 'second request after a first one on the same query string was spoiled (%s, %s level)' % (mode, level)
        if v is not None and v != 'ok':
            report_parse(ctx, v, e, surface, origin)
        if j in exports and req is not None and not e['err']:
            getter_events_for(ctx, rng, surface, req, q, kb, csv, exports[j]['entries'], exports[j]['zero'], e['entries'],
                              ['str', 'list', 'int', 'has'], g2, origin)
    gl2 = list(g2.values())
    vs, _ = judge_each(ctx, 'ParamGettersTrace', gl2, per=40)
    for e, v in zip(gl2, vs):
        if v is not None and v != 'ok':
            report_getter(ctx, v, e, e['meta']['origin'])
    ctx.extra['request_pairs'] = len(pev) // 2
    ctx.progress('request pairs: %d second requests judged, %d getter events' % (len(pev) // 2, len(gl2)))

    # ---- whole-request sample: what a client sees (the responder reads a parameter) --------------
    class Res:
        def on_get(self, req, resp):
            resp.media = {'a': req.get_param('a'), 'n': len(req.params)}

    class ARes:
        async def on_get(self, req, resp):
            resp.media = {'a': req.get_param('a'), 'n': len(req.params)}

    import falcon.asgi
    sample = ['a=,', 'a=1&a=,', 'a=,&a=1', 'a=1,,3&a=&a=4', 'b=,,&a=1', 'a=%2C', 'a', ''] + [rand_qs() for _ in range(40)]
    for kb in (False, True):
        for csv in (False, True):
            wapp, aapp = falcon.App(), falcon.asgi.App()
            for app, res in ((wapp, Res()), (aapp, ARes())):
                app.req_options.keep_blank_qs_values = kb
                app.req_options.auto_parse_qs_csv = csv
                app.add_route('/', res)
            for q in sample:
                for surface, fn, app in (('wsgi-app', drivers.wsgi_call, wapp), ('asgi-app', drivers.asgi_call, aapp)):
                    if surface == 'wsgi-app' and any(ord(c) > 255 for c in q):
                        continue
                    rq = drivers.Req(query=q.encode('latin-1') if surface == 'wsgi-app' else q.encode('utf-8'))
                    res = fn(app, rq)
                    ctx.case(None, nontrivial=any(x in q for x in '%+,'), key=(surface, q, kb, csv))
                    if res.status not in (200, 400) or res.exc is not None:
                        ctx.violation('P:exception', {'kind': 'app', 'surface': surface, 'q': cps(q), 'kb': kb, 'csv': csv},
                                      '[%s] GET /?%s keep_blank=%s csv=%s -> status %s %r'
                                      % (surface, q, kb, csv, res.status, res.exc))
    ctx.extra['cython_twin'] = 'stale-or-absent, not checked'
    ctx.extra['getter_events_judged'] = len(gl)


def replay(ctx, case):
    kind = case.get('kind')
    if kind in ('parse', 'getter', 'app'):
        q = txt(case['q'])
        surface = case['surface'].replace('-app', '')
        e, req = parse_event(surface if surface in ('func', 'wsgi', 'asgi') else 'func', q, case['kb'], case['csv'], True)
        print(describe_parse(e))
        vs, ex = judge_each(ctx, 'QueryStringTrace', [e], per=1)
        print('reference reading:', [(txt(x['k']), [txt(v) for v in x['v']], x['shape']) for x in ex[0]['entries']],
              'present with zero values:', [txt(k) for k in ex[0]['zero']])
        print('verdict:', vs[0])
        if vs[0] != 'ok':
            report_parse(ctx, vs[0], e, surface, 'replay')
        if kind == 'getter' and req is not None:
            name = txt(case['name'])
            spec = {txt(x['k']): [txt(v) for v in x['v']] for x in ex[0]['entries']}
            vals = spec.get(name)
            ck = case['call']['kind']
            convs = [refconv(ck, v) for v in vals] if vals and ck != 'has' else []
            if ck not in ('list', 'list_int'):
                convs = convs[-1:]
            g = getter_event(req, name, case['call'], vals is not None, convs, cps(name) in ex[0]['zero'])
            g['meta'] = {'surface': surface, 'q': q, 'kb': case['kb'], 'csv': case['csv'], 'name': name}
            vs, _ = judge_each(ctx, 'ParamGettersTrace', [g], per=1)
            print('getter:', strip(g), '->', vs[0])
            if vs[0] != 'ok':
                report_getter(ctx, vs[0], g, 'replay')
    elif kind == 'render':
        e, d = render_event(case['m'], case['cl'], case['prefix'], case.get('typed', False))
        vs, _ = judge_each(ctx, 'QueryStringTrace', [e], per=1)
        print('to_query_str(%r) -> %r: %s' % (d, txt(e['q']), vs[0]))
        if vs[0] != 'ok':
            report_render(ctx, vs[0], e, 'replay')
