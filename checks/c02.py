"""C02 - dispatch: route first, then sinks/static routes by recency; 404/405/OPTIONS are exact.

spec:   spec/Dispatch.tla (state = dispatch tables, actions = assembly calls, Outcome/Visible = the decision)
        spec/MC_Dispatch.tla (bounded instances + decision-table export), spec/DispatchTrace.tla (trace judge)
legs:   M  exhaustive TLC check of the design: every clause of the property over the whole request universe
           of every configuration reachable with <= N assembly calls (+ instance with every method subset,
           + the wrong-design instances must FAIL)
        A  every configuration TLC reaches (history + full decision table, printed by the Emit invariant) is
           assembled as a real falcon.App and falcon.asgi.App through the public API, every request of its
           table is sent through the raw WSGI/ASGI drivers and compared with the row TLC computed
        B  random bigger apps (more routes/sinks/statics, assembly interleaved with requests, fresh templates,
           prefixes and paths) are driven on both stacks; the recorded traces are judged by TLC
"""
import os
import re
import shutil
import tempfile

META = {
    'property_id': 'C02',
    'design_ref': 'DESIGN.md section 4, C02',
    'technique': 'TLA+ dispatch specification model-checked with TLC; TLC-computed decision tables replayed on '
                 'real WSGI+ASGI apps; traces of random apps judged by TLC',
    'level_text': 'spec/Dispatch.tla states the decision (route, else newest matching sink/static in the configured '
                  'order, else 404; 405/auto-OPTIONS Allow sets; suffix isolation; kwargs) and TLC checks each clause '
                  'for every request of every configuration reachable within the bound.  Every such configuration is '
                  'then built as a real app on both stacks and every row of its TLC-computed decision table is compared '
                  'with what the app does; random larger apps are recorded and judged by TLC against the same module.',
    'level_note': 'Bounded.  Model check (every clause x 7 methods x 38 paths per configuration): quick = all configurations '
                  'reachable with <= 2 assembly calls over 6 templates x 2 resource kinds x suffix, 10 sink prefixes, 2 static '
                  'prefixes x fallback, both flag values (2 614) + one route with every subset of a 6-method universe x 2 '
                  'suffixed sets x 9 methods (514); thorough = <= 2 calls with 4 resource kinds (6 838) and <= 3 calls with 2 '
                  'kinds and six of the sink prefixes (53 102).  Replay: the one-call tables in full, two-call tables over reduced pools (quick) / in full, the two stacks taking turns per configuration '
                  '(thorough), TLC-simulated 4-6 call histories with sampled rows; random apps up to 12 routes / 6 sinks / 3 '
                  'static routes with assembly interleaved with requests.  Route templates have literal, single-field and '
                  'multi-field segments without converters (the split of a multi-field segment is C01\'s SegMatch!Split, instantiated, '
                  'not copied; converters belong to C01).  Metacharacter / multi-field instance (CxTemplates: /repos/v1.0/notes, '
                  '/repos/v{major}.{minor}, /files/{a}-{b}/raw, /files/{stem}.{ext}, /files/{a}-{b}; static prefixes /v1.0 and /a+b in both '
                  'spellings x fallback; sinks /, literal /v1.0, /repos; 17 paths incl. /v1x0/f, /aab/f, /repos/v1x0, /repos/v2.10.3, '
                  '/files/my-notes.txt x GET/POST/OPTIONS): every configuration of <= 2 calls (926) is checked clause by clause by TLC and '
                  'replayed (quick: stacks in turn; thorough: both stacks, + exhaustive check of <= 3 calls, + simulated 4-call histories); '
                  'two must-fail instances prove that the pools contain a path a pattern reading of a static prefix would claim and a '
                  'route behind an earlier sibling (literal / older multi-field) that matches the segment and dead-ends, under a matching '
                  'sink and with a 405.  Creation order of multi-field siblings is state (entry field ord).  Random apps add multi-field '
                  'segments (5 shapes), literal siblings their patterns match, static / sink text /v1.0 /.well-known /a+b /x(1) /c/v1.0 with '
                  'request paths differing exactly at the metacharacter, and dedicated dead-end families under sinks / static routes.  '
                  'In quick the dead-end-under-a-fallback case (3 calls) reaches the code through the random apps only.  Line feeds in '
                  'path segments and field converters are not in the request universe here (C01).  Sink prefixes are built from literal text, '
                  'named and unnamed \\d+ / [^/]+ groups, unnamed alternations, trailing optional unnamed groups and named groups '
                  'inside optional (non-)capturing groups (key set of the kwargs = all named groups: P; the None of a group that '
                  'took no part: D); static prefixes in both spellings (/a, /a/); every 3-call re-registration history of '
                  'sinks / static routes is replayed.  Outside the model, rotated by the harness on every replay: truthiness of the '
                  'resource object (plain, __len__ 0, __bool__ False, empty / non-empty dict and list subclasses), non-callable '
                  'decoy attributes named like responders (truthy and falsy, class and instance, with and without suffix), '
                  'the form of every sink prefix (string, precompiled, precompiled from a VERBOSE spelling, with DOTALL / ASCII, '
                  'IGNORECASE as a flag or inline); IGNORECASE itself is part of the model (flags token) with paths in the other '
                  'case in every request universe.  What a picked static route does with the rest of the path is '
                  'modelled only as far as needed to recognise it (C16 owns it); OPTIONS answered by a static route is not '
                  'distinguishable from other 200 + Allow: GET answers.  Trusted: TLC, engine/drivers.py, CPython re/os.',
}

from engine import drivers

# development aid only: VERIF_LEGS=AB skips the (code-independent) model-checking leg when trying mutants
LEGS = os.environ.get('VERIF_LEGS', 'MAB')
from engine.core import MachineryError, digest

HTTP_LIKE = ('CONNECT', 'DELETE', 'GET', 'HEAD', 'OPTIONS', 'PATCH', 'POST', 'PUT', 'TRACE', 'CHECKIN', 'CHECKOUT',
             'COPY', 'LOCK', 'MKCOL', 'MOVE', 'PROPFIND', 'PROPPATCH', 'REPORT', 'UNCHECKIN', 'UNLOCK', 'UPDATE')


NONE = [-1]          # spec/Dispatch.tla: the value of a named group that did not take part (Python: None)


def text(cps):
    return ''.join(map(chr, cps))


def cps(s):
    return [ord(c) for c in s]


def template_str(tmpl):
    # 'lit': the text, 'var': one field spanning the segment, 'cx': a multi-field segment, s = the segment as written
    return '/' + '/'.join(('{%s}' % text(s['s'])) if s['k'] == 'var' else text(s['s']) for s in tmpl)


FORMS = 4


def sink_flags(pat):
    """the flag letters of a spec-level sink pattern (first token 'flags'), '' if none"""
    return text(pat[0]['s']) if pat and pat[0]['k'] == 'flags' else ''


def sink_prefix(pat, form=None):
    """The prefix object handed to add_sink for a spec-level pattern.  The documented API takes a pattern string or a
    precompiled expression; the matcher of a precompiled expression is the expression WITH its flags.  `form` rotates
    over the ways of writing the SAME matcher (None = canonical):
      without flags:   0 string   1 re.compile(s)   2 re.compile(verbose spelling, re.VERBOSE)   3 re.compile(s, re.DOTALL)
      IGNORECASE:      0 re.compile(s, re.I)   1 string with inline (?i)   2 re.compile(verbose spelling, re.I | re.X)
                       3 re.compile(s, re.I | re.ASCII)"""
    parts = sink_regex(pat, parts=True)
    rx = ''.join(parts)
    verbose = '\n  ' + '   # piece\n  '.join(parts) + '   # end\n'      # the pieces contain no white space and no '#'
    ci = 'i' in sink_flags(pat)
    form = 0 if form is None else form % FORMS
    if not ci:
        return (rx, re.compile(rx), re.compile(verbose, re.VERBOSE), re.compile(rx, re.DOTALL))[form]
    return (re.compile(rx, re.I), '(?i)' + rx, re.compile(verbose, re.I | re.X), re.compile(rx, re.I | re.ASCII))[form]


def sink_regex(pat, parts=False):
    """spec-level sink tokens (spec/Dispatch.tla, SinkMatch) -> the regular expression (flags not included)"""
    out = []
    for tok in pat:
        k, t = tok['k'], text(tok['s'])
        if k == 'flags':
            continue
        if k == 'lit':
            out.append(re.escape(t))
        elif k == 'digits':
            out.append(r'(?P<%s>\d+)' % t)
        elif k == 'seg':
            out.append(r'(?P<%s>[^/]+)' % t)
        elif k == 'udigits':
            out.append(r'(\d+)')
        elif k == 'useg':
            out.append(r'([^/]+)')
        elif k == 'ualt':
            out.append('(' + '|'.join(re.escape(a) for a in t.split('|')) + ')')
        elif k == 'optlit':
            out.append('(' + re.escape(t) + ')?')
        elif k == 'optrest':
            out.append(r'(/.*)?$')
        elif k in ('optndig', 'optnseg', 'optcdig', 'optcseg'):
            lit, name = t.split('|')
            out.append('(%s%s(?P<%s>%s))?' % ('?:' if k[3] == 'n' else '', re.escape(lit), name,
                                              r'\d+' if k.endswith('dig') else '[^/]+'))
        else:
            raise MachineryError('unknown sink token %r' % (tok,))
    return out if parts else ''.join(out)


# ---------------------------------------------------------------------------------------------
# generated application parts: they only record that they ran
# ---------------------------------------------------------------------------------------------

# What the model does NOT contain, so the harness rotates over it (spec/Dispatch.tla, ImplOf): the truthiness of the
# resource object and attributes that are named like responders but are not callable.
DECOY_METHODS = ['UPDATE', 'LOCK', 'REPORT', 'GET', 'POST', 'DELETE', 'OPTIONS', 'PROPFIND', 'HEAD', 'PUT', 'MKCOL']
DECOY_TRUTHY = ['notify-owner', ['audit'], 7, ('monthly',), {'k': 'v'}]
DECOY_FALSY = ['', [], 0, None, ()]
FLAVORS = 7


def make_resource(rid, plain, sfxm, asgi, log, act=None, flavor=None):
    """A resource object whose CALLABLE on_<method>[_s] attributes are exactly `plain` / `sfxm`.
    act(req, resp), if given, is what the generated user code does besides recording itself (used by C20).
    flavor (int or None = a plain object without decoys) selects
      - what kind of object it is: plain, __len__() == 0, __bool__() is False, empty / non-empty dict or list subclass
      - decoy attributes named like responders of methods it does NOT implement, holding non-callable data
        (truthy and falsy; on the class and on the instance; with and without the suffix)."""
    ns = {}
    for methods, suffix in ((plain, ''), (sfxm, 's')):
        for m in methods:
            name = 'on_' + m.lower() + ('_' + suffix if suffix else '')
            if asgi:
                if m == 'WEBSOCKET':
                    async def responder(self, req, ws, _m=m, _s=suffix, **kw):
                        log.append(('res', rid, _m, _s, dict(kw)))
                else:
                    async def responder(self, req, resp, _m=m, _s=suffix, **kw):
                        log.append(('res', rid, _m, _s, dict(kw)))
                        if act:
                            act(req, resp)
            else:
                def responder(self, req, resp, _m=m, _s=suffix, **kw):
                    log.append(('res', rid, _m, _s, dict(kw)))
                    if act:
                        act(req, resp)
            ns[name] = responder
    if flavor is None:
        return type('Res%d' % rid, (object,), ns)()
    f = (flavor + rid) % FLAVORS
    base = (object, object, object, dict, list, dict, list)[f]
    if f == 1:
        ns['__len__'] = lambda self: 0
    elif f == 2:
        ns['__bool__'] = lambda self: False
    later = []
    for gi, (methods, suffix) in enumerate(((plain, ''), (sfxm, 's'))):
        cand = [m for m in DECOY_METHODS if m not in methods]
        k = (flavor + rid + gi) % len(cand)
        cand = cand[k:] + cand[:k]
        for j, m in enumerate(cand[:4]):
            name = 'on_' + m.lower() + ('_' + suffix if suffix else '')
            val = DECOY_FALSY[(flavor + j) % len(DECOY_FALSY)] if j == 2 else DECOY_TRUTHY[(flavor + rid + j) % len(DECOY_TRUTHY)]
            if j % 2:
                later.append((name, val))          # instance attribute
            else:
                ns[name] = val                     # class attribute
    res = type('Res%d' % rid, (base,), ns)()
    for name, val in later:
        setattr(res, name, val)
    if f == 5:
        res['k'] = 1
    elif f == 6:
        res.append(1)
    return res


def make_sink(sid, asgi, log, act=None):
    if asgi:
        async def sink(req, resp, **kw):
            log.append(('sink', sid, '', '', dict(kw)))
            if act:
                act(req, resp)
    else:
        def sink(req, resp, **kw):
            log.append(('sink', sid, '', '', dict(kw)))
            if act:
                act(req, resp)
    return sink


class StaticDirs:
    """One directory per static-route id; every file in directory k is k bytes long, so a response
    served by static route k is recognised by its Content-Length (HEAD and ranges included)."""

    def __init__(self):
        self.base = tempfile.mkdtemp(prefix='c02-static-')
        self.have = {}

    def dir(self, sid):
        d = os.path.join(self.base, 's%d' % sid)
        if sid not in self.have:
            os.makedirs(d, exist_ok=True)
            with open(os.path.join(d, '__fallback'), 'wb') as f:
                f.write(b'x' * sid)
            self.have[sid] = set()
        return d

    def materialise(self, sid, rem):
        """make sure a regular file exists for the (sanitisable) remainder `rem` of a request path"""
        if not rem or rem.startswith('/') or '//' in rem:
            return
        rel = rem.rstrip('/')
        if not rel or rel in self.have[sid]:
            return
        d = self.dir(sid)
        parts = rel.split('/')
        cur = d
        for part in parts[:-1]:
            cur = os.path.join(cur, part)
            if os.path.isfile(cur):
                os.unlink(cur)
                self.have[sid] = set()
            os.makedirs(cur, exist_ok=True)
        target = os.path.join(cur, parts[-1])
        if os.path.isdir(target):
            shutil.rmtree(target)
            self.have[sid] = set()
        with open(target, 'wb') as f:
            f.write(b'x' * sid)
        self.have[sid].add(rel)

    def close(self):
        shutil.rmtree(self.base, ignore_errors=True)


class Built:
    """A real app assembled through the public API from a list of spec-level assembly calls."""

    def __init__(self, asgi, sbs, dirs, act=None, compiled=None, **app_kw):
        import falcon
        import falcon.asgi
        self.asgi = asgi
        self.log = []
        self.dirs = dirs
        self.act = act
        # `compiled` is the harness variant (None = canonical): variant % FORMS (+ the registration's id) = the form in
        # which a sink prefix is handed to add_sink (see sink_prefix), variant // FORMS = resource flavor (make_resource)
        self.compiled = None if compiled is None else compiled % FORMS
        self.flavor = None if compiled is None else compiled // FORMS
        self.statics = []          # (id, prefix text)
        self.app = (falcon.asgi.App if asgi else falcon.App)(sink_before_static_route=bool(sbs), **app_kw)

    def call(self, c):
        """perform one assembly call; returns (accepted, exception name)"""
        try:
            if c['op'] == 'route':
                res = make_resource(c['id'], c['plain'], c['sfxm'], self.asgi, self.log, self.act, self.flavor)
                kw = {'suffix': c['sfx']} if c['sfx'] else {}
                self.app.add_route(template_str(c['tmpl']), res, **kw)
            elif c['op'] == 'sink':
                form = None if self.compiled is None else self.compiled + c['id']      # rotates per registration
                self.app.add_sink(make_sink(c['id'], self.asgi, self.log, self.act), sink_prefix(c['pat'], form))
            elif c['op'] == 'static':
                kw = {'fallback_filename': '__fallback'} if c['fb'] else {}
                self.app.add_static_route(text(c['prefix']) + ('/' if c.get('sl') else ''), self.dirs.dir(c['id']), **kw)
                self.statics.append((c['id'], text(c['prefix'])))
            else:
                raise MachineryError('unknown assembly call %r' % (c,))
        except MachineryError:
            raise
        except Exception as ex:        # noqa
            return False, type(ex).__name__
        return True, None

    def prepare(self, path):
        for sid, prefix in self.statics:
            if path.startswith(prefix + '/'):
                self.dirs.materialise(sid, path[len(prefix) + 1:])


def observe(res, log):
    """project a driver Result + the recorder onto the spec's Visible record (+ diagnostics)"""
    o = {'status': res.status if res.status is not None else -1, 'who': 'none', 'id': -1, 'meth': '', 'sfx': '',
         'kw': {}, 'hasAllow': False, 'allow': [], 'problem': ''}
    if res.exc is not None:
        o['problem'] = 'exception escaped the app: %r' % (res.exc,)
    elif len(log) > 1:
        o['problem'] = 'more than one responder ran: %r' % (log,)
    if log:
        who, i, m, s, kw = log[0]
        o.update(who=who, id=i, meth=m, sfx=s)
        if all(isinstance(k, str) and (v is None or isinstance(v, str)) for k, v in kw.items()):
            o['kw'] = kw
        else:
            o['problem'] = o['problem'] or 'keyword arguments are neither strings nor None: %r' % (kw,)
    elif res.status == 200 and res.header('accept-ranges') is not None:
        o['who'] = 'static'
        try:
            o['id'] = int(res.header('content-length', '-1'))
        except ValueError:
            o['id'] = -2
    allow = res.header_all('allow')
    if allow:
        o['hasAllow'] = True
        items = [x.strip() for x in ','.join(allow).split(',') if x.strip()]
        o['allow'] = sorted(set(items))
        if len(allow) != 1 or len(items) != len(set(items)):
            o['allow_dup'] = True
    return o


def run_requests(built, reqs, headers=None, project=None):
    """send (method, path) requests through the raw driver of the app's stack; returns observations.
    headers: optional list (one header list per request); project: optional extra projection of the Result"""
    out = []

    def done(res):
        o = observe(res, list(built.log))
        if project:
            o['extra'] = project(res)
        out.append(o)

    if not built.asgi:
        for i, (m, p) in enumerate(reqs):
            built.prepare(p)
            del built.log[:]
            done(drivers.wsgi_call(built.app, drivers.Req(method=m, target=p.encode('latin-1'),
                                                          headers=headers[i] if headers else ())))
        return out

    async def go():
        for i, (m, p) in enumerate(reqs):
            built.prepare(p)
            del built.log[:]
            done(await drivers.asgi_call_async(built.app, drivers.Req(method=m, target=p.encode('latin-1'),
                                                                      headers=headers[i] if headers else ())))
    drivers.run_async(go())
    return out


# ---------------------------------------------------------------------------------------------
# leg A: TLC decision tables replayed
# ---------------------------------------------------------------------------------------------
ROW = ('m', 'p', 'kind', 'status', 'who', 'id', 'sfx', 'kw', 'hasAllow', 'allow')


def expected_of(row):
    e = dict(zip(ROW, row))
    e['p'] = text(e['p'])
    e['kw'] = {text(x['n']): (None if x['v'] == NONE else text(x['v'])) for x in e['kw']}
    e['allow'] = sorted(e['allow'])
    return e


def compare(e, o):
    """-> None or (clause, what).  Only compares; every expected value comes from TLC."""
    if o['problem']:
        return 'P:exception', o['problem']
    if o['who'] != e['who'] or o['id'] != e['id'] or (e['who'] == 'res' and (o['meth'] != e['m'] or o['sfx'] != e['sfx'])):
        return 'P:who', 'expected %s to run (%s), observed %s' % (
            (e['who'], e['id'], e['sfx']), e['kind'], (o['who'], o['id'], o['meth'], o['sfx'], o['status']))
    if o['status'] != e['status']:
        return ('D:badmethod' if e['kind'] == 'BadMethod' else 'P:status'), \
            'expected status %s (%s), observed %s' % (e['status'], e['kind'], o['status'])
    if set(o['kw']) != set(e['kw']):
        return 'P:kwargs', 'expected keyword arguments %r, observed %r' % (e['kw'], o['kw'])
    if o['kw'] != e['kw']:
        none_only = all(e['kw'][k] is None for k in e['kw'] if e['kw'][k] != o['kw'][k])
        return ('D:kwargs-none' if none_only else 'P:kwargs'), \
            'expected keyword arguments %r, observed %r' % (e['kw'], o['kw'])
    if o['hasAllow'] != e['hasAllow'] or o['allow'] != e['allow']:
        if e['kind'] in ('NotAllowed', 'AutoOptions') or o['hasAllow']:
            return 'P:allow', 'expected Allow %r, observed %r' % (e['allow'] if e['hasAllow'] else None,
                                                                 o['allow'] if o['hasAllow'] else None)
    return None


def nontrivial(h, e, facts=None):
    """DESIGN 2.6: >= 2 of {route, sink, static} could match the path, or the method is not implemented"""
    return e['kind'] in ('NotAllowed', 'AutoOptions', 'BadMethod') or (facts or 0) >= 2


def replay_config(ctx, cfg, stacks, dirs, sample=None):
    h, sbs = cfg['h'], cfg['sbs']
    rows = sorted((expected_of(r) for r in cfg['rows']), key=lambda e: (e['p'], e['m']))
    if sample is not None and len(rows) > sample:
        rows = ctx.rng.sample(rows, sample)
        rows.sort(key=lambda e: (e['p'], e['m']))
    n = 0
    hd = digest(h)
    for asgi in stacks:
        compiled = (int(hd, 16) + asgi) % (FORMS * FLAVORS)
        b = Built(asgi, sbs, dirs, compiled=compiled)
        bad = False
        for c in h:
            ok, exn = b.call(c)
            if ok != c['ok']:
                ctx.detail('D:addroute', {'h': h, 'asgi': asgi}, 'assembly call %r: spec accepted=%s, code accepted=%s (%s)'
                           % (c['op'], c['ok'], ok, exn))
                if c['ok']:
                    bad = True     # the code refused a call the spec accepts: nothing to compare
                    break
                # the code accepted a suffix that selects no responder: go on, the table (route absent) judges what follows
        if bad:
            continue
        obs = run_requests(b, [(e['m'], e['p']) for e in rows])
        kinds = {c['op'] for c in h if c['ok']}
        for e, o in zip(rows, obs):
            n += 1
            case = {'h': h, 'sbs': sbs, 'asgi': asgi, 'compiled': compiled, 'm': e['m'], 'p': e['p'], 'expected': e}
            ctx.case(case, nontrivial=nontrivial(h, e, len(kinds)), key=(hd, sbs, asgi, e['m'], e['p']))
            d = compare(e, o)
            if d:
                case['observed'] = o
                if d[0].startswith('D:'):
                    ctx.detail(d[0], case, d[1])
                else:
                    ctx.violation(d[0], case, '%s %s on %s app (sink_before_static_route=%s) built by %s: %s'
                                  % (e['m'], e['p'], 'ASGI' if asgi else 'WSGI', sbs, describe(h), d[1]))
            elif o.get('allow_dup'):
                ctx.detail('D:allow-duplicates', case, 'Allow header repeated or with duplicate entries')
    return n


def describe(h):
    out = []
    for c in h:
        if c['op'] == 'route':
            out.append('add_route(%r, res%d%s%s)%s' % (template_str(c['tmpl']), c['id'],
                                                      sorted(c['plain']) if not c['sfx'] else sorted(c['sfxm']),
                                                      ', suffix=%r' % c['sfx'] if c['sfx'] else '',
                                                      '' if c['ok'] else ' [rejected]'))
        elif c['op'] == 'sink':
            out.append('add_sink(sink%d, %r%s)' % (c['id'], sink_regex(c['pat']),
                                                  ', flags=%r' % sink_flags(c['pat']) if sink_flags(c['pat']) else ''))
        elif c['op'] == 'static':
            out.append('add_static_route(%r, dir%d%s)' % (text(c['prefix']) + ('/' if c.get('sl') else ''), c['id'],
                                                          ', fallback' if c['fb'] else ''))
    return '; '.join(out) or '(empty app)'


ACTIONS = ['XAddRoute', 'XAddRouteRejected', 'XAddSink', 'XAddStatic']
CLAUSES = ['InvRouteMasksFallbacks', 'InvLifo', 'InvAllowExact', 'InvSuffixIsolation', 'InvKwargsAreFields',
           'InvMetaRefused']


def run(ctx):
    ctx.rule = ('case = (assembly history, sink_before_static_route, stack, method, path); non-trivial iff the method is '
                'not implemented by the matched resource (405 / automatic OPTIONS / unknown method) or the app holds at '
                'least two of {route, sink, static route}; distinct by hash of the case')
    ctx.trusted_base = ['TLC 1.8 evaluation of spec/Dispatch.tla', 'engine/drivers.py (raw WSGI/ASGI drivers)',
                        'CPython re (sink prefixes are handed to falcon as pattern strings)', 'os / tempfile']
    ctx.assumptions = ['route templates use literal, single-field and multi-field segments without converters, never two different '
                       'simple fields nor two multi-field segments of one shape at one position (the router refuses those: C01)',
                       'a static route refuses a remainder that ends with "." (modelled in Serves only to recognise who answered: C16)',
                       'sink prefixes stay inside the pattern language of Dispatch!WellFormedSink (run groups are followed by the end, a '
                       'literal starting with "/" or a trailing optional group; optional groups are unnamed and last)',
                       'the outcome does not depend on the stack: the same table is demanded from falcon.App and '
                       'falcon.asgi.App',
                       'an unknown method on a routed path answering 400 is modelled as documented detail (D-clause)',
                       'OPTIONS answered by a static route cannot be told from any other 200 + Allow: GET answer']
    dirs = StaticDirs()
    try:
        _run(ctx, dirs)
    finally:
        dirs.close()


def _run(ctx, dirs):
    # ---- leg M ---------------------------------------------------------------------------------
    if 'M' in LEGS:
        leg_m(ctx)
    if 'A' in LEGS:
        leg_a(ctx, dirs)
    if 'B' in LEGS:
        leg_b(ctx, dirs)


def leg_m(ctx):
    states = []
    for cfg in ctx.pick(['MC_Dispatch.cfg'], ['MC_DispatchFull.cfg', 'MC_Dispatch3.cfg']):
        r = ctx.tlc('MC_Dispatch', cfg, coverage=True, workers=ctx.pick(8, 16), timeout=ctx.pick(280, 2400))
        ctx.require_coverage(r, ACTIONS)
        states.append(r.distinct)
    rm = ctx.tlc('MC_Dispatch', 'MC_DispatchMeth.cfg', coverage=True, workers=8, timeout=300)
    ctx.require_coverage(rm, ['XAddRoute', 'XAddRouteRejected'])
    states.append(rm.distinct)
    # vacuity: the wrong designs must be caught by the clauses that speak about them
    for cfg, want in (('MC_DispatchWrongLifo.cfg', 'InvLifo'), ('MC_DispatchWrongMask.cfg', 'InvRouteMasksFallbacks')):
        rw = ctx.tlc('MC_Dispatch', cfg, workers=4, timeout=300, must_hold=False, count=False)
        if rw.violated != want:
            raise MachineryError('vacuity: %s should violate %s, TLC reported %r' % (cfg, want, rw.violated))
    # metacharacter text / multi-field siblings: the instance must CONTAIN the cases (a static prefix read as a pattern would
    # claim other paths; a walk that stops at the first sibling matching the segment would answer differently, under a sink
    # that matches too and with a method that is not implemented)
    for cfg, want in (('MC_DispatchCxW1.cfg', 'InvStaticPrefixCouldBePattern'), ('MC_DispatchCxW2.cfg', 'InvNoDeadEndMasking405')):
        rw = ctx.tlc('MC_Dispatch', cfg, workers=4, timeout=300, must_hold=False, count=False)
        if rw.violated != want:
            raise MachineryError('vacuity: %s should violate %s, TLC reported %r' % (cfg, want, rw.violated))
    if not ctx.quick:
        rc = ctx.tlc('MC_Dispatch', 'MC_DispatchCx.cfg', coverage=True, workers=6, timeout=2400)
        ctx.require_coverage(rc, ['XAddRoute', 'XAddSink', 'XAddStatic'])     # its one resource kind has responders under both suffixes
        states.append(rc.distinct)
    ctx.extra['wrong_design_instances_rejected'] = ['NewestFirst=FALSE -> InvLifo', 'RoutesFirst=FALSE -> InvRouteMasksFallbacks',
                                                    'static prefix read as a pattern -> InvStaticPrefixCouldBePattern',
                                                    'walk without backtracking over multi-field siblings -> InvNoDeadEndMasking405']
    ctx.progress('leg M done: %s distinct states' % states)



def leg_a(ctx, dirs):
    replayed = 0
    ra = ctx.tlc('MC_Dispatch', 'MC_DispatchMethA.cfg', workers=4, timeout=600, count=False)
    cfgs = {digest([b['h'], b['sbs']]): b for b in ra.json}
    for b in cfgs.values():
        replayed += replay_config(ctx, b, (False, True), dirs)
    ctx.progress('leg A (method subsets): %d configurations, %d requests replayed' % (len(cfgs), replayed))
    ncfg = len(cfgs)
    for cfg in ctx.pick(['MC_DispatchA1.cfg', 'MC_DispatchA2q.cfg', 'MC_DispatchA3r.cfg'],
                        ['MC_DispatchA1.cfg', 'MC_DispatchA.cfg', 'MC_DispatchA3r.cfg']):
        ra = ctx.tlc('MC_Dispatch', cfg, workers=4, timeout=1200, count=False)
        cfgs2 = {digest([b['h'], b['sbs']]): b for b in ra.json}
        del ra
        for i, k in enumerate(sorted(cfgs2)):
            # quick, two-call export: the two stacks take turns (every configuration runs, on one stack)
            # (A3r: every 3-call history of sinks / static routes over a small pool, i.e. every re-registration A, B, A)
            # one-call tables and A3r (thorough) on both stacks; the two-call tables take the stacks in turn
            stacks = (False, True) if (cfg == 'MC_DispatchA1.cfg' or (cfg == 'MC_DispatchA3r.cfg' and not ctx.quick)) \
                else ((i + ctx.seed) % 2 == 1,)
            replayed += replay_config(ctx, cfgs2[k], stacks, dirs)
        ncfg += len(cfgs2)
        ctx.progress('leg A (exhaustive tables, %s): %d configurations, %d requests replayed in total'
                     % (cfg, len(cfgs2), replayed))
    # metacharacters in static / sink text, literal + multi-field and multi-field + multi-field siblings with dead-ending
    # branches: every configuration of <= 2 calls; TLC checks every clause on it (one pass) and exports its table
    rx = ctx.tlc('MC_Dispatch', 'MC_DispatchCxA.cfg', coverage=True, workers=6, timeout=1200)
    ctx.require_coverage(rx, ['AAddRoute', 'AAddSink', 'AAddStatic'])
    cfgsx = {digest([b['h'], b['sbs']]): b for b in rx.json}
    del rx
    for i, k in enumerate(sorted(cfgsx)):
        replayed += replay_config(ctx, cfgsx[k], ((i + ctx.seed) % 2 == 1,) if ctx.quick else (False, True), dirs)
    ncfg += len(cfgsx)
    ctx.progress('leg A (metacharacters / multi-field siblings, MC_DispatchCxA.cfg): %d configurations, %d requests replayed in total'
                 % (len(cfgsx), replayed))
    if not ctx.quick:
        rs = ctx.tlc('MC_Dispatch', 'MC_DispatchCxSim.cfg', simulate={'num': 10}, depth=8, seed=ctx.seed + 2, workers=4,
                     timeout=1200, count=False)
        cfgsy = {digest([b['h'], b['sbs']]): b for b in rs.json}
        del rs
        for k in sorted(cfgsy):
            replayed += replay_config(ctx, cfgsy[k], (False, True), dirs, sample=40)
        ncfg += len(cfgsy)
        ctx.progress('leg A (simulated 4-call histories, multi-field pools): %d configurations, %d requests replayed in total'
                     % (len(cfgsy), replayed))
    rs = ctx.tlc('MC_Dispatch', ctx.pick('MC_DispatchSim.cfg', 'MC_DispatchSim6.cfg'), simulate={'num': ctx.pick(3, 50)},
                 depth=8, seed=ctx.seed + 1, workers=4, timeout=1200, count=False)
    cfgs3 = {digest([b['h'], b['sbs']]): b for b in rs.json}
    del rs
    for k in sorted(cfgs3):
        replayed += replay_config(ctx, cfgs3[k], (False, True), dirs, sample=ctx.pick(40, 80))
    ncfg += len(cfgs3)
    ctx.progress('leg A (simulated deep histories): %d configurations, %d requests replayed in total'
                 % (len(cfgs3), replayed))
    ctx.traces_validated += replayed
    ctx.extra['spec_configurations_replayed'] = ncfg
    ctx.exhaustive = True


# ---------------------------------------------------------------------------------------------
# leg B: random apps beyond the exhaustive bound, recorded and judged by TLC
# ---------------------------------------------------------------------------------------------
LITS = ['a', 'b', 'c', 'ab', '1', '22', 'x1', 'a1']
VALS = LITS + ['', '7', '123', 'zz', 'a b'.replace(' ', '_')]
# multi-field segments (field names carry a number unique per parent node and shape: no name twice in a template)
CX_SEGS = ['v{major%d}.{minor%d}', '{a%d}-{b%d}', '{stem%d}.{ext%d}', '{n%d}.tar.{z%d}', 'img{k%d}']
CX_LITS = ['v1.0', 'my-notes.txt', 'a-b', 'img7']                       # literal siblings their patterns match as well
CX_VALS = ['v1.0', 'v1x0', 'v2.10.3', 'my-notes.txt', 'a-b', 'x.y', 'img7', 'img', 'pkg.tar.gz', 'v1.', '-.']
META_PREFIXES = ['/v1.0', '/.well-known', '/a+b', '/x(1)', '/c/v1.0']  # plain text to add_static_route, re.escape()d in sinks


def meta_variants(pre):
    """paths that differ from the prefix exactly where a regular expression would be lenient"""
    out = {pre.replace('.', 'x'), pre.replace('.', ''), pre.replace('a+b', 'aab'), pre.replace('a+b', 'ab'),
           pre.replace('(1)', '1'), pre.replace('.', '/')}
    out.discard(pre)
    return sorted(out)
B_METHODS = list(HTTP_LIKE) + ['WEBSOCKET']


def EV(op, **kw):
    e = {'op': op, 'ok': True, 'id': 0, 'tmpl': [], 'sfx': '', 'plain': [], 'sfxm': [], 'pat': [], 'prefix': [],
         'fb': False, 'sl': False, 'm': '', 'p': [],
         'obs': {'bad': False, 'status': 0, 'who': 'none', 'id': -1, 'meth': '', 'sfx': '', 'kw': [], 'hasAllow': False,
                 'allow': []}}
    e.update(kw)
    return e


def gen_scenario(rng):
    """a list of steps: assembly calls (spec-level dicts) interleaved with ('req', method, path)"""
    names = {}
    templates = []
    prefixes = []
    sinkpaths = []
    sinkpats = []
    steps = []
    n_calls = 0
    budget = {'route': rng.randint(2, 12), 'sink': rng.randint(0, 6), 'static': rng.randint(0, 3)}

    def seg_text(t):
        return text(t['s'])

    def new_template():
        depth = rng.choice((1, 1, 2, 2, 2, 3, 3, 4))
        if templates and rng.random() < 0.35:          # re-add / extend an existing template
            base = list(rng.choice(templates))
            if rng.random() < 0.4:
                return base                             # the same template again: overrides the entry
            pre = [x for x in base[:rng.randint(0, len(base))] if x['s']]
        else:
            pre = []
        t = list(pre)
        while len(t) < max(depth, len(pre)) or not t:
            key = tuple((x['k'], tuple(x['s'])) for x in t)
            r = rng.random()
            if r < 0.30:
                if key not in names:
                    names[key] = 'v%d' % len(names)
                t.append({'k': 'var', 's': cps(names[key])})
            elif r < 0.42 and not any(x['k'] == 'cx' for x in t):
                cx = rng.choice(CX_SEGS)
                u = names.setdefault((key, cx), len(names))       # one text per (parent node, shape); names unique per app
                t.append({'k': 'cx', 's': cps(cx % ((u,) * cx.count('%d')))})
            elif r < 0.50:
                t.append({'k': 'lit', 's': cps(rng.choice(CX_LITS))})
            else:
                t.append({'k': 'lit', 's': cps(rng.choice(LITS))})
        if rng.random() < 0.08 and t[-1]['s']:
            t.append({'k': 'lit', 's': []})             # trailing slash template
        return t

    def methods():
        k = rng.choice((0, 1, 1, 2, 2, 3, 4, 6))
        ms = rng.sample(B_METHODS, k)
        if rng.random() < 0.5 and 'GET' not in ms and k:
            ms[0] = 'GET'
        return sorted(set(ms))

    def path_for_template(t):
        return '/' + '/'.join(rng.choice(VALS) if x['k'] == 'var' else rng.choice(CX_VALS) if x['k'] == 'cx' else seg_text(x)
                              for x in t)

    def gen_path():
        r = rng.random()
        if templates and r < 0.5:
            p = path_for_template(rng.choice(templates))
        elif prefixes and r < 0.65:
            p = rng.choice(prefixes) + rng.choice(('', '/', '/a', '/b/c', '/a/', '//a', '/22/x1/a'))
        elif sinkpaths and r < 0.8:
            p = rng.choice(sinkpaths)
        else:
            p = '/' + '/'.join(rng.choice(VALS) for _ in range(rng.randint(1, 4)))
        m = rng.random()
        if m < 0.10:
            p += '/' + rng.choice(VALS)
        elif m < 0.15 and p.count('/') > 1:
            p = p.rsplit('/', 1)[0]
        elif m < 0.20:
            p = '/' + p
        elif m < 0.25:
            p += '/'
        elif m < 0.28:
            p = p + rng.choice(('1', 'b', '9'))
        if rng.random() < 0.12:
            p = rng.choice((p.upper(), p.swapcase(), p.title()))      # the other case
        return p or '/'

    def gen_method():
        r = rng.random()
        if r < 0.30:
            return 'GET'
        if r < 0.45:
            return 'OPTIONS'
        if r < 0.50:
            return rng.choice(('WEBSOCKET', 'FOO', 'BREW'))
        return rng.choice(B_METHODS[:-1])

    # re-registration: A, an overlapping B, A again (sinks and static routes), probed right away
    if rng.random() < 0.5:
        base = rng.choice(('/files', '/a', '/a/b', '/x1'))
        pat = [{'k': 'lit', 's': cps(base)}]
        if rng.random() < 0.4:
            pat += [{'k': 'lit', 's': cps('/')}, {'k': rng.choice(('digits', 'seg')), 's': cps('g1')}]
        if rng.random() < 0.4:
            pat = [{'k': 'flags', 's': cps('i')}] + pat
        between = rng.choice(('/', base[:2], base))
        probes = [base + '/1', base + '/x', base, base + '/22/a', base.upper() + '/1', base.upper() + '/X']
        for k, pt in enumerate((pat, [{'k': 'lit', 's': cps(between)}], pat)):
            n_calls += 1
            steps.append(EV('sink', id=n_calls, pat=pt))
            if k == 1 and rng.random() < 0.5:
                n_calls += 1
                steps.append(EV('static', id=n_calls, prefix=cps(base), fb=rng.random() < 0.5, sl=rng.random() < 0.5))
                prefixes.append(base)
            for q in rng.sample(probes, 2):
                steps.append(('req', rng.choice(('GET', 'POST', 'OPTIONS')), q))
        sinkpats.append((pat, base + '/1'))
        sinkpaths.extend(probes)
    if rng.random() < 0.5:
        pre = rng.choice(('/site', '/a', '/a/b', '/c/ab'))
        probes = [pre, pre + '/', pre + '/a', pre + '/b/c', pre + 'x']
        for k in range(3):
            n_calls += 1
            if k == 1:
                if rng.random() < 0.5:
                    steps.append(EV('sink', id=n_calls, pat=[{'k': 'lit', 's': cps(rng.choice(('/', pre[:2], pre)))}]))
                else:
                    steps.append(EV('static', id=n_calls, prefix=cps(pre.rsplit('/', 1)[0] or '/c'), fb=rng.random() < 0.5,
                                    sl=rng.random() < 0.5))
            else:
                steps.append(EV('static', id=n_calls, prefix=cps(pre), fb=rng.random() < 0.6, sl=rng.random() < 0.5))
            for q in rng.sample(probes, 2):
                steps.append(('req', rng.choice(('GET', 'HEAD', 'OPTIONS')), q))
        prefixes.append(pre)
    # text with regular-expression metacharacters: a static route (plain prefix) over an older sink / static route;
    # requests that differ from the prefix exactly at the metacharacter belong to the older one (or to nobody)
    if rng.random() < 0.4:
        pre = rng.choice(META_PREFIXES)
        probes = [pre + '/f', pre, pre + '/'] + [v + '/f' for v in meta_variants(pre)] + meta_variants(pre)[:1]
        order = [rng.choice(('sinkroot', 'sinklit', 'staticparent', 'none')), 'static']
        if rng.random() < 0.3:
            order.reverse()
        for what in order:
            if what == 'none':
                continue
            n_calls += 1
            if what == 'static':
                steps.append(EV('static', id=n_calls, prefix=cps(pre), fb=rng.random() < 0.5, sl=rng.random() < 0.4))
                prefixes.append(pre)
            elif what == 'staticparent':
                steps.append(EV('static', id=n_calls, prefix=cps(meta_variants(pre)[0]), fb=rng.random() < 0.5, sl=False))
            else:
                pat = [{'k': 'lit', 's': cps('/' if what == 'sinkroot' else pre)}]
                steps.append(EV('sink', id=n_calls, pat=pat))
                sinkpats.append((pat, pre + '/f'))
            for q in rng.sample(probes, 3):
                steps.append(('req', rng.choice(('GET', 'GET', 'HEAD', 'OPTIONS')), q))
        sinkpaths.extend(probes)
    # siblings none of which is a simple field: a literal / an older multi-field segment whose branch holds nothing for
    # the path, next to the multi-field segment that does; under a sink / static route that matches too
    if rng.random() < 0.5:
        root = rng.choice(('repos', 'files', 'dl'))
        fam = rng.choice((
            (['v1.0', 'notes'], ['v{major}.{minor}'], ['v1.0', 'v1.0/notes', 'v2.10.3', 'v1x0', 'v1.']),
            (['{a}-{b}', 'raw'], ['{stem}.{ext}'], ['my-notes.txt', 'my-notes.txt/raw', 'my-notes', 'notes.txt', '-.']),
            (['{a}-{b}', 'raw'], ['{a}-{b}.{ext}'], ['my-notes.txt', 'my-notes.txt/raw', 'my-notes/raw', 'notes.txt']),
            (['img7', 'meta'], ['img{k}'], ['img7', 'img7/meta', 'img12', 'img']),
        ))
        tms = [[root] + fam[0], [root] + fam[1]]
        if rng.random() < 0.4:
            tms.reverse()
        calls = [('route', t) for t in tms]
        fbk = rng.choice(('sinkroot', 'sinkpre', 'static', 'none'))
        if fbk != 'none':
            calls.insert(rng.randint(0, 2), (fbk, None))
        probes = ['/%s/%s' % (root, x) for x in fam[2]] + ['/' + root]
        for kind, t in calls:
            n_calls += 1
            if kind == 'route':
                tm = [{'k': 'cx' if ('{' in x and not (x[0] == '{' and x[-1] == '}' and x.count('{') == 1)) else 'lit', 's': cps(x)}
                      for x in t]
                plain = methods()
                if rng.random() < 0.7 and 'GET' not in plain:
                    plain = sorted(set(plain + ['GET']))
                steps.append(EV('route', id=n_calls, tmpl=tm, sfx='', plain=plain, sfxm=[]))
                templates.append(tm)
            elif kind == 'static':
                steps.append(EV('static', id=n_calls, prefix=cps('/' + root), fb=rng.random() < 0.5, sl=rng.random() < 0.4))
                prefixes.append('/' + root)
            else:
                steps.append(EV('sink', id=n_calls, pat=[{'k': 'lit', 's': cps('/' if kind == 'sinkroot' else '/' + root)}]))
            for q in rng.sample(probes, 2):
                steps.append(('req', rng.choice(('GET', 'GET', 'POST', 'OPTIONS', 'DELETE')), q))
        sinkpaths.extend(probes)
    total = sum(budget.values())
    for _ in range(total):
        kinds = [k for k, v in budget.items() if v > 0]
        kind = rng.choice(kinds)
        budget[kind] -= 1
        n_calls += 1
        if kind == 'route':
            t = new_template()
            plain, sfxm = methods(), (methods() if rng.random() < 0.6 else [])
            sfx = 's' if rng.random() < 0.3 else ''
            steps.append(EV('route', id=n_calls, tmpl=t, sfx=sfx, plain=plain, sfxm=sfxm))
            if not (sfx and not sfxm):
                templates.append(t)
        elif kind == 'sink':
            base = rng.choice(['/', '/a', '/ab', '/a/b', '/1', '/c/', '/a/', '/x1/a', '/v1.0', '/a+b'] +
                              [path_for_template(t) for t in templates[:3]])
            pat = [{'k': 'lit', 's': cps(base)}]
            example = base
            g = 0
            # groups: named / unnamed runs and unnamed alternations, each introduced by a "/" literal
            while rng.random() < 0.5 and g < 3:
                g += 1
                if not example.endswith('/'):
                    pat.append({'k': 'lit', 's': cps('/')})
                    example += '/'
                r = rng.random()
                if r < 0.30:
                    pat.append({'k': 'digits', 's': cps('g%d' % g)})
                    example += rng.choice(('1', '22', '123'))
                elif r < 0.60:
                    pat.append({'k': 'seg', 's': cps('g%d' % g)})
                    example += rng.choice(LITS)
                elif r < 0.70:
                    pat.append({'k': 'udigits', 's': []})
                    example += rng.choice(('1', '22', '123'))
                elif r < 0.80:
                    pat.append({'k': 'useg', 's': []})
                    example += rng.choice(LITS)
                else:
                    alts = rng.choice((('users', 'groups'), ('b', 'c'), ('1', '22', 'x1'), ('ab', 'c')))
                    pat.append({'k': 'ualt', 's': cps('|'.join(alts))})
                    example += rng.choice(alts)
                if rng.random() < 0.3:
                    lit = '/' + rng.choice(LITS)
                    pat.append({'k': 'lit', 's': cps(lit)})
                    example += lit
                if rng.random() < 0.3:
                    # a named group inside an optional (non-)capturing group: arrives as None when it takes no part
                    g += 1
                    okind = rng.choice(('optndig', 'optnseg', 'optcdig', 'optcseg'))
                    lit = rng.choice(('/', '/v', '/a/'))
                    pat.append({'k': okind, 's': cps('%s|o%d' % (lit, g))})
                    sinkpaths.append(example + lit + (rng.choice(('2', '17')) if okind.endswith('dig') else rng.choice(LITS)))
                    sinkpaths.append(example + lit + rng.choice(('2', 'b')) + '/a')
            # an optional unnamed trailing group: takes part for some paths only
            r = rng.random()
            if r < 0.15:
                pat.append({'k': 'optrest', 's': []})
                sinkpaths.append(example + rng.choice(('/', '/a', '/a/22', '/invoices/7')))
            elif r < 0.30:
                opt = '/' + rng.choice(LITS)
                pat.append({'k': 'optlit', 's': cps(opt)})
                sinkpaths.append(example + opt)
                sinkpaths.append(example + opt + '/a')
            if rng.random() < 0.3:
                # a precompiled expression with IGNORECASE: paths in the other case match thanks to the flag only
                pat = [{'k': 'flags', 's': cps('i')}] + pat
                sinkpaths.append(example.upper())
                sinkpaths.append(example.upper() + rng.choice(('', '/A', '/a')))
                sinkpaths.append(example.swapcase())
            if sinkpats and rng.random() < 0.3:
                pat, example = rng.choice(sinkpats)        # an equal prefix registered again: the new sink is the newest
            sinkpats.append((pat, example))
            steps.append(EV('sink', id=n_calls, pat=pat))
            sinkpaths.append(example)
            sinkpaths.append(example + rng.choice(('', '/', '/a', 'b', '7')))
        else:
            pre = '/' + '/'.join(rng.choice(LITS) for _ in range(rng.choice((1, 1, 2))))
            if rng.random() < 0.15:
                pre = rng.choice(META_PREFIXES)
                sinkpaths.extend(v + '/f' for v in meta_variants(pre))
            if prefixes and rng.random() < 0.3:
                pre = rng.choice(prefixes)                 # the same prefix again (either spelling)
            steps.append(EV('static', id=n_calls, prefix=cps(pre), fb=rng.random() < 0.5, sl=rng.random() < 0.4))
            prefixes.append(pre)
        for _ in range(rng.choice((0, 1, 2, 3, 6))):
            steps.append(('req', gen_method(), gen_path()))
    for _ in range(rng.randint(5, 15)):
        steps.append(('req', gen_method(), gen_path()))
    return {'sbs': rng.random() < 0.5, 'steps': steps}


def run_scenario(sc, asgi, dirs, compiled=None):
    """drive one scenario on a real app; returns the trace for DispatchTrace"""
    b = Built(asgi, sc['sbs'], dirs, compiled=compiled)
    evs = []
    pending = []

    def flush():
        if pending:
            obs = run_requests(b, [(m, p) for m, p in pending])
            for (m, p), o in zip(pending, obs):
                evs.append(EV('req', m=m, p=cps(p), obs={
                    'bad': bool(o['problem']), 'status': o['status'], 'who': o['who'], 'id': o['id'], 'meth': o['meth'],
                    'sfx': o['sfx'], 'kw': [{'n': cps(k), 'v': NONE if v is None else cps(v)}
                                            for k, v in sorted(o['kw'].items())],
                    'hasAllow': o['hasAllow'], 'allow': o['allow']}))
                evs[-1]['problem'] = o['problem']
            del pending[:]

    for st in sc['steps']:
        if isinstance(st, tuple):
            pending.append((st[1], st[2]))
        else:
            flush()
            ok, exn = b.call(st)
            e = dict(st)
            e['ok'] = ok
            evs.append(e)
    flush()
    return {'sbs': sc['sbs'], 'ev': evs}


def leg_b(ctx, dirs):
    nsc = ctx.pick(200, 4000)
    seen = {}
    nreq = 0
    for i in range(nsc):
        sc = gen_scenario(ctx.rng)
        for asgi in (False, True):
            tr = run_scenario(sc, asgi, dirs, compiled=(i + asgi) % (FORMS * FLAVORS))
            kinds = set()
            for e in tr['ev']:
                if e['op'] != 'req':
                    if e['ok']:
                        kinds.add(e['op'])
                    continue
                nreq += 1
                o = e['obs']
                ctx.case({'asgi': asgi, 'm': e['m'], 'p': text(e['p']), 'obs': o},
                         nontrivial=len(kinds) >= 2 or o['status'] == 405 or (e['m'] == 'OPTIONS' and o['hasAllow']),
                         key=('B', i, asgi, len(kinds), e['m'], text(e['p'])))
            k = digest(tr)
            if k not in seen:
                seen[k] = (tr, asgi, i)
    ctx.progress('leg B: %d scenarios x 2 stacks, %d requests, %d distinct traces' % (nsc, nreq, len(seen)))
    items = list(seen.values())
    verdicts = ctx.judge('DispatchTrace', [t for t, _, _ in items], workers=ctx.pick(8, 16), timeout=ctx.pick(300, 1500),
                         chunk=1000)
    for (tr, asgi, i), v in zip(items, verdicts):
        if v == 'ok':
            continue
        clause, at = v.split('@')
        ev = tr['ev'][int(at) - 1] if 0 < int(at) <= len(tr['ev']) else None
        case = {'asgi': asgi, 'sbs': tr['sbs'], 'compiled': (i + asgi) % (FORMS * FLAVORS), 'trace': {'sbs': tr['sbs'], 'ev': tr['ev'][:int(at)]}}
        what = 'trace of a random %s app rejected by DispatchTrace at event %s: %s %s observed %r %s' % (
            'ASGI' if asgi else 'WSGI', at, ev and ev['m'], ev and text(ev['p']), ev and ev['obs'],
            ev.get('problem', '') if ev else '')
        if clause.startswith('H:'):
            raise MachineryError('harness generated an invalid scenario: %s' % what)
        if clause.startswith('D:'):
            ctx.detail(clause, case, what)
        else:
            ctx.violation(clause, case, what)
    ctx.extra['random_scenarios'] = nsc
    ctx.extra['distinct_traces_judged'] = len(items)


def replay(ctx, case):
    dirs = StaticDirs()
    try:
        if 'trace' in case:
            sc = {'sbs': case['sbs'], 'steps': [e if e['op'] != 'req' else ('req', e['m'], text(e['p']))
                                                for e in case['trace']['ev']]}
            tr = run_scenario(sc, case['asgi'], dirs, compiled=case.get('compiled'))
            print('last event:', tr['ev'][-1])
            v = ctx.judge('DispatchTrace', [tr], workers=1)[0]
            print('verdict:', v)
            if v != 'ok' and v.startswith('P:'):
                ctx.violation(v.split('@')[0], case, 'trace rejected at %s' % v)
            return
        for asgi in ([case['asgi']] if 'asgi' in case else [False, True]):
            b = Built(asgi, case['sbs'], dirs, compiled=case.get('compiled'))
            for c in case['h']:
                print('assembly', c['op'], b.call(c))
            o = run_requests(b, [(case['m'], case['p'])])[0]
            print('observed:', o)
            print('expected:', case.get('expected'))
            if case.get('expected'):
                d = compare(case['expected'], o)
                if d and not d[0].startswith('D:'):
                    ctx.violation(d[0], case, d[1])
    finally:
        dirs.close()
